package hpkeref

import (
	"bytes"
	"crypto/ecdh"
	"encoding/hex"
	"encoding/json"
	"fmt"
	"os"

	"golang.org/x/crypto/sha3"
)

type vec struct {
	Mode   byte   `json:"mode"`
	KEM    uint16 `json:"kem_id"`
	KDF    uint16 `json:"kdf_id"`
	AEAD   uint16 `json:"aead_id"`
	Info   string `json:"info"`
	IkmE   string `json:"ikmE"`
	IkmR   string `json:"ikmR"`
	SkRm   string `json:"skRm"`
	PkRm   string `json:"pkRm"`
	Enc    string `json:"enc"`
	AccEnc string `json:"encryptions_accumulated"`
	AccExp string `json:"exports_accumulated"`
}

func hx(s string) []byte { b, _ := hex.DecodeString(s); return b }

func draw(src sha3.ShakeHash) []byte {
	l := make([]byte, 1)
	src.Read(l)
	b := make([]byte, int(l[0]))
	src.Read(b)
	return b
}

// Selftest pins the model to the RFC 9180 vectors (base mode; accumulated form
// as shipped in the Go source tree) and the generic ladder to crypto/ecdh.
func Selftest(path string) error {
	// ladder vs crypto/ecdh X25519
	for i := 0; i < 8; i++ {
		k := bytes.Repeat([]byte{byte(17*i + 3)}, 32)
		u := bytes.Repeat([]byte{byte(29*i + 5)}, 32)
		u[31] &= 0x7f
		sk, err := ecdh.X25519().NewPrivateKey(k)
		if err != nil {
			return err
		}
		if !bytes.Equal(sk.PublicKey().Bytes(), X25519(k, base(32))) {
			return fmt.Errorf("ladder X25519 base mismatch")
		}
		pk, _ := ecdh.X25519().NewPublicKey(u)
		want, err := sk.ECDH(pk)
		if err == nil && !bytes.Equal(want, X25519(k, u)) {
			return fmt.Errorf("ladder X25519 mismatch")
		}
	}
	// X448 commutativity
	a := bytes.Repeat([]byte{0x5a}, 56)
	b := bytes.Repeat([]byte{0xc3}, 56)
	if !bytes.Equal(X448(a, X448(b, base(56))), X448(b, X448(a, base(56)))) {
		return fmt.Errorf("ladder X448 not commutative")
	}
	// RFC 7748 section 5.2 X448 vector 1
	k448 := hx("3d262fddf9ec8e88495266fea19a34d28882acef045104d0d1aae121700a779c984c24f8cdd78fbff44943eba368f54b29259a4f1c600ad3")
	u448 := hx("06fce640fa3487bfda5f6cf2d5263f8aad88334cbd07437f020f08f9814dc031ddbdc38c19c6da2583fa5429db94ada18aa7a7fb4ef8a086")
	w448 := hx("ce3e4ff95a60dc6697da1db1d85e6afbdf79b50a2412d7546d5f239fe14fbaadeb445fc66a01b0779d98223961111e21766282f73dd96b6f")
	if !bytes.Equal(X448(k448, u448), w448) {
		return fmt.Errorf("ladder X448 RFC 7748 vector mismatch")
	}
	raw, err := os.ReadFile(path)
	if err != nil {
		return err
	}
	var vs []vec
	if err := json.Unmarshal(raw, &vs); err != nil {
		return err
	}
	n := 0
	for _, v := range vs {
		if v.Mode != 0 || !IsDHKEM(v.KEM) || kdfHash(v.KDF) == nil {
			continue
		}
		sk, pk, err := DeriveKeyPair(v.KEM, hx(v.IkmR))
		if err != nil {
			return err
		}
		if !bytes.Equal(sk, hx(v.SkRm)) || !bytes.Equal(pk, hx(v.PkRm)) {
			return fmt.Errorf("DeriveKeyPair mismatch kem %x", v.KEM)
		}
		enc, ss, err := Encap(v.KEM, pk, hx(v.IkmE))
		if err != nil {
			return err
		}
		if !bytes.Equal(enc, hx(v.Enc)) {
			return fmt.Errorf("enc mismatch kem %x", v.KEM)
		}
		ss2, err := Decap(v.KEM, enc, sk)
		if err != nil || !bytes.Equal(ss, ss2) {
			return fmt.Errorf("decap mismatch kem %x", v.KEM)
		}
		s := Suite{v.KEM, v.KDF, v.AEAD}
		if v.AEAD == 0xffff {
			s.AEAD = AEADAES128 // export-only: key schedule differs by suite id, so skip seals but keep id
		}
		if v.AEAD != 0xffff && v.AccEnc != "" {
			c, err := KeySchedule(s, ModeBase, ss, hx(v.Info), nil, nil)
			if err != nil {
				return err
			}
			src, sink := sha3.NewShake128(), sha3.NewShake128()
			seq := make([]byte, Nn)
			for i := 0; i < 1000; i++ {
				aad, pt := draw(src), draw(src)
				ct := c.Seal(seq, pt, aad)
				sink.Write(ct)
				seq, _ = IncSeq(seq)
			}
			out := make([]byte, 16)
			sink.Read(out)
			if !bytes.Equal(out, hx(v.AccEnc)) {
				return fmt.Errorf("accumulated encryptions mismatch suite %v", s)
			}
			src, sink = sha3.NewShake128(), sha3.NewShake128()
			for l := 0; l < 1000; l++ {
				ctx := draw(src)
				sink.Write(c.Export(ctx, l))
			}
			sink.Read(out)
			if !bytes.Equal(out, hx(v.AccExp)) {
				return fmt.Errorf("accumulated exports mismatch suite %v", s)
			}
			n++
		}
	}
	if n < 12 {
		return fmt.Errorf("only %d RFC 9180 vectors exercised", n)
	}
	return nil
}
