// C02 — signatures: honest ones verify; any altered key, message, context,
// mode or signature fails; verification never panics. netsim: a signer node
// (restartable from its marshalled key on a simulated disk, which may corrupt
// the stored key), a verifier node that receives (encoded pk, msg, ctx, sig)
// over a faulty transport, BLS signers with an aggregator, and an entropy device
// behind hedged signing.
package main

import (
	"bytes"
	"crypto"
	stded "crypto/ed25519"
	"crypto/rand"
	"crypto/sha512"
	"encoding/json"
	"errors"
	"fmt"
	"math/big"
	"reflect"
	"strings"
	"time"

	"circlsim/core"

	"github.com/cloudflare/circl/ecc/bls12381"
	"github.com/cloudflare/circl/sign"
	"github.com/cloudflare/circl/sign/bls"
	"github.com/cloudflare/circl/sign/ed25519"
	"github.com/cloudflare/circl/sign/ed448"
	"github.com/cloudflare/circl/sign/mldsa/mldsa44"
	"github.com/cloudflare/circl/sign/mldsa/mldsa65"
	"github.com/cloudflare/circl/sign/mldsa/mldsa87"
	signschemes "github.com/cloudflare/circl/sign/schemes"
	xsha3 "golang.org/x/crypto/sha3"
)

type Msg struct {
	Len   int    `json:"len"`
	Ctx   int    `json:"ctx"`             // context length (only where supported)
	Fault string `json:"fault,omitempty"` // see gen
	Pos   int    `json:"pos,omitempty"`
	Val   int    `json:"val,omitempty"`
	Rst   bool   `json:"restart,omitempty"`
	From  int    `json:"from,omitempty"` // sig-allflips / sig-alltruncs: enumerate positions [from,to)
	To    int    `json:"to,omitempty"`
}

type Plan struct {
	Kind    string `json:"kind"` // scheme name | Ed25519ctx | Ed25519ph | Ed448ph | BLS-G1 | BLS-G2
	KeySeed uint64 `json:"key_seed"`
	Entropy uint64 `json:"entropy"`
	Msgs    []Msg  `json:"msgs"`
	// BLS aggregation
	Signers int    `json:"signers,omitempty"`
	AggF    string `json:"agg_fault,omitempty"` // "" | drop | dup | swapmsg | samemsg-ok
}

type instance struct {
	name     string
	seedSize int
	sigSize  int
	ctxOK    bool // accepts a context
	ctxMust  bool // context must be non-empty (Ed25519ctx)
	derive   func(seed []byte) (pk, sk []byte)
	restore  func(sk []byte) (pub []byte, signf func(msg []byte, ctx string) []byte, err error)
	verify   func(pk, msg []byte, ctx string, sig []byte) bool
	others   []func(pk, msg []byte, ctx string, sig []byte) bool // other modes of the same key type
	sOff     int                                                 // offset of the EdDSA scalar S inside the signature, -1 if none
	sLen     int
	order    *big.Int
	pubInSk  [2]int // [from,to) of the public half inside the private key encoding, or {0,0}
	hedged   func(sk []byte, rnd *core.Stream, msg []byte) ([]byte, error)
	// newVerifier, if set, makes a verifier node that keeps one key object for its
	// lifetime and loads every received key into it (per run; never shared across runs)
	newVerifier   func() func(pk, msg []byte, ctx string, sig []byte) bool
	infPK, infSig []byte // encodings of the group identity as key and as signature, if the format has them
	// unlimited: a signer of another implementation that does not enforce the context limit
	unlimited func(sk, msg []byte, ctx string) []byte
	// refSign: an independent implementation of the (deterministic) scheme, if one exists offline
	// (Go's crypto/ed25519 for Ed25519, Ed25519ctx, Ed25519ph); nil result = not applicable
	refSign func(seed, msg []byte, ctx string) []byte
	// internalVerify / internalSign: the scheme's "internal" algorithms over a message representative
	// the harness builds itself (FIPS 204: M' = 0 || |ctx| || ctx || M for pure ML-DSA)
	internalVerify func(pk, mprime, sig []byte) bool
	internalSign   func(sk, mprime []byte) []byte
}

func stdEd25519(ph, needCtx bool) func(seed, msg []byte, ctx string) []byte {
	return func(seed, msg []byte, ctx string) []byte {
		if len(ctx) > 255 || (needCtx && ctx == "") {
			return nil
		}
		sk := stded.NewKeyFromSeed(seed)
		opts := &stded.Options{Context: ctx}
		m := msg
		if ph {
			d := sha512.Sum512(msg)
			m, opts.Hash = d[:], crypto.SHA512
		}
		sig, err := sk.Sign(nil, m, opts)
		if err != nil {
			panic("HARNESS: crypto/ed25519: " + err.Error())
		}
		return sig
	}
}

var l25519, _ = new(big.Int).SetString("7237005577332262213973186563042994240857116359379907606001950938285454250989", 10)
var l448, _ = new(big.Int).SetString("181709681073901722637330951972001133588410340171829515070372549795146003961539585716195755291692375963310293709091662304773755859649779", 10)

func fromScheme(s sign.Scheme) *instance {
	in := &instance{name: s.Name(), seedSize: s.SeedSize(), sigSize: s.SignatureSize(), ctxOK: s.SupportsContext(), sOff: -1}
	in.derive = func(seed []byte) ([]byte, []byte) {
		pk, sk := s.DeriveKey(seed)
		a, _ := pk.MarshalBinary()
		b, _ := sk.MarshalBinary()
		// the returned buffers are copied out and wiped; marshalling again must give the same bytes
		a2, b2 := append([]byte{}, a...), append([]byte{}, b...)
		core.Recycle(a)
		core.Recycle(b)
		if x, _ := pk.MarshalBinary(); !bytes.Equal(x, a2) {
			return []byte("MarshalBinary shares memory with the public key"), b2
		}
		if x, _ := sk.MarshalBinary(); !bytes.Equal(x, b2) {
			return a2, []byte("MarshalBinary shares memory with the private key")
		}
		// the holder wipes the private key object it no longer needs (possible where the key
		// type is a byte slice): the public key from the same call is another object
		if v := reflect.ValueOf(sk); v.Kind() == reflect.Slice && v.Type().Elem().Kind() == reflect.Uint8 {
			for i := 0; i < v.Len(); i++ {
				v.Index(i).SetUint(0xa5)
			}
			if x, _ := pk.MarshalBinary(); !bytes.Equal(x, a2) {
				return []byte("the public key changes when the private key from the same DeriveKey call is wiped"), b2
			}
		}
		return a2, b2
	}
	in.restore = func(skB []byte) ([]byte, func([]byte, string) []byte, error) {
		sk, err := s.UnmarshalBinaryPrivateKey(skB)
		if err != nil {
			return nil, nil, err
		}
		pub, err := sk.Public().(sign.PublicKey).MarshalBinary()
		if err != nil {
			return nil, nil, err
		}
		return pub, func(msg []byte, ctx string) []byte {
			var o *sign.SignatureOpts
			if in.ctxOK {
				o = &sign.SignatureOpts{Context: ctx}
			}
			return s.Sign(sk, msg, o)
		}, nil
	}
	in.verify = func(pkB, msg []byte, ctx string, sig []byte) bool {
		rbuf := append([]byte{}, pkB...)
		pk, err := s.UnmarshalBinaryPublicKey(rbuf)
		core.Recycle(rbuf) // the receive buffer is reused once the key is decoded
		if err != nil {
			return false
		}
		var o *sign.SignatureOpts
		if in.ctxOK {
			o = &sign.SignatureOpts{Context: ctx}
		}
		return s.Verify(pk, msg, sig, o)
	}
	switch s.Name() {
	case "Ed25519":
		in.sOff, in.sLen, in.order, in.pubInSk = 32, 32, l25519, [2]int{32, 64}
		in.refSign = func(seed, msg []byte, _ string) []byte { return stdEd25519(false, false)(seed, msg, "") }
		in.others = []func([]byte, []byte, string, []byte) bool{
			func(pk, m []byte, c string, sg []byte) bool { return ed25519.VerifyPh(ed25519.PublicKey(pk), m, sg, c) },
			func(pk, m []byte, c string, sg []byte) bool {
				return ed25519.VerifyWithCtx(ed25519.PublicKey(pk), m, sg, "x"+c)
			},
		}
	case "Ed448":
		in.sOff, in.sLen, in.order, in.pubInSk = 57, 57, l448, [2]int{57, 114}
		in.others = []func([]byte, []byte, string, []byte) bool{
			func(pk, m []byte, c string, sg []byte) bool { return ed448.VerifyPh(ed448.PublicKey(pk), m, sg, c) },
		}
	case "Ed25519-Dilithium2":
		in.sOff, in.sLen, in.order = s.SignatureSize()-32, 32, l25519
	case "Ed448-Dilithium3":
		in.sOff, in.sLen, in.order = s.SignatureSize()-57, 57, l448
	}
	// hedged signing through crypto.Signer with an explicit reader (ML-DSA)
	switch s.Name() {
	case "ML-DSA-44":
		in.internalVerify = func(pk, mp, sg []byte) bool {
			var k mldsa44.PublicKey
			return k.UnmarshalBinary(pk) == nil && mldsa44.VerifVerifyInternal(&k, mp, sg)
		}
		in.internalSign = func(sk, mp []byte) []byte {
			var k mldsa44.PrivateKey
			if k.UnmarshalBinary(sk) != nil {
				return nil
			}
			return mldsa44.VerifSignInternal(&k, mp, [32]byte{})
		}
	case "ML-DSA-65":
		in.internalVerify = func(pk, mp, sg []byte) bool {
			var k mldsa65.PublicKey
			return k.UnmarshalBinary(pk) == nil && mldsa65.VerifVerifyInternal(&k, mp, sg)
		}
		in.internalSign = func(sk, mp []byte) []byte {
			var k mldsa65.PrivateKey
			if k.UnmarshalBinary(sk) != nil {
				return nil
			}
			return mldsa65.VerifSignInternal(&k, mp, [32]byte{})
		}
	case "ML-DSA-87":
		in.internalVerify = func(pk, mp, sg []byte) bool {
			var k mldsa87.PublicKey
			return k.UnmarshalBinary(pk) == nil && mldsa87.VerifVerifyInternal(&k, mp, sg)
		}
		in.internalSign = func(sk, mp []byte) []byte {
			var k mldsa87.PrivateKey
			if k.UnmarshalBinary(sk) != nil {
				return nil
			}
			return mldsa87.VerifSignInternal(&k, mp, [32]byte{})
		}
	}
	switch s.Name() {
	case "ML-DSA-44", "ML-DSA-65", "ML-DSA-87":
		in.hedged = func(skB []byte, rnd *core.Stream, msg []byte) ([]byte, error) {
			sk, err := s.UnmarshalBinaryPrivateKey(skB)
			if err != nil {
				return nil, err
			}
			sig := make([]byte, s.SignatureSize())
			switch k := sk.(type) {
			case *mldsa44.PrivateKey:
				err = mldsa44.SignTo(k, msg, nil, true, sig)
			case *mldsa65.PrivateKey:
				err = mldsa65.SignTo(k, msg, nil, true, sig)
			case *mldsa87.PrivateKey:
				err = mldsa87.SignTo(k, msg, nil, true, sig)
			}
			return sig, err
		}
	}
	return in
}

func edVariant(name string) *instance {
	switch name {
	case "Ed25519ctx", "Ed25519ph":
		ph := name == "Ed25519ph"
		in := &instance{name: name, seedSize: 32, sigSize: 64, ctxOK: true, ctxMust: !ph, sOff: 32, sLen: 32, order: l25519, pubInSk: [2]int{32, 64}}
		in.refSign = stdEd25519(ph, !ph)
		in.unlimited = func(sk, m []byte, c string) []byte {
			return ed25519.VerifSignAll(ed25519.PrivateKey(sk), m, []byte(c), ph)
		}
		in.derive = func(seed []byte) ([]byte, []byte) {
			sk := ed25519.NewKeyFromSeed(seed)
			return append([]byte{}, sk.Public().(ed25519.PublicKey)...), append([]byte{}, sk...)
		}
		in.restore = func(skB []byte) ([]byte, func([]byte, string) []byte, error) {
			if len(skB) != 64 {
				return nil, nil, errors.New("size")
			}
			sk := ed25519.PrivateKey(append([]byte{}, skB...))
			return append([]byte{}, sk.Public().(ed25519.PublicKey)...), func(m []byte, c string) []byte {
				if ph {
					return ed25519.SignPh(sk, m, c)
				}
				return ed25519.SignWithCtx(sk, m, c)
			}, nil
		}
		in.verify = func(pk, m []byte, c string, sg []byte) bool {
			if ph {
				return ed25519.VerifyPh(ed25519.PublicKey(pk), m, sg, c)
			}
			return ed25519.VerifyWithCtx(ed25519.PublicKey(pk), m, sg, c)
		}
		in.others = []func([]byte, []byte, string, []byte) bool{
			func(pk, m []byte, c string, sg []byte) bool { return ed25519.Verify(ed25519.PublicKey(pk), m, sg) },
			func(pk, m []byte, c string, sg []byte) bool {
				if ph {
					return len(c) > 0 && ed25519.VerifyWithCtx(ed25519.PublicKey(pk), m, sg, c)
				}
				return ed25519.VerifyPh(ed25519.PublicKey(pk), m, sg, c)
			},
			// a prehash signature must not be a pure/ctx signature of the digest (domain separation)
			func(pk, m []byte, c string, sg []byte) bool {
				d := sha512.Sum512(m)
				if len(c) > 0 && ed25519.VerifyWithCtx(ed25519.PublicKey(pk), d[:], sg, c) {
					return true
				}
				return ed25519.Verify(ed25519.PublicKey(pk), d[:], sg)
			},
		}
		return in
	case "Ed448ph":
		in := &instance{name: name, seedSize: 57, sigSize: 114, ctxOK: true, sOff: 57, sLen: 57, order: l448, pubInSk: [2]int{57, 114}}
		in.derive = func(seed []byte) ([]byte, []byte) {
			sk := ed448.NewKeyFromSeed(seed)
			return append([]byte{}, sk.Public().(ed448.PublicKey)...), append([]byte{}, sk...)
		}
		in.restore = func(skB []byte) ([]byte, func([]byte, string) []byte, error) {
			if len(skB) != 114 {
				return nil, nil, errors.New("size")
			}
			sk := ed448.PrivateKey(append([]byte{}, skB...))
			return append([]byte{}, sk.Public().(ed448.PublicKey)...), func(m []byte, c string) []byte { return ed448.SignPh(sk, m, c) }, nil
		}
		in.verify = func(pk, m []byte, c string, sg []byte) bool { return ed448.VerifyPh(ed448.PublicKey(pk), m, sg, c) }
		in.others = []func([]byte, []byte, string, []byte) bool{
			func(pk, m []byte, c string, sg []byte) bool { return ed448.Verify(ed448.PublicKey(pk), m, sg, c) },
			func(pk, m []byte, c string, sg []byte) bool {
				d := make([]byte, 64)
				xsha3.ShakeSum256(d, m)
				return ed448.Verify(ed448.PublicKey(pk), d, sg, c)
			},
		}
		return in
	}
	return nil
}

func blsInstance[K bls.KeyGroup](name string) *instance {
	in := &instance{name: name, seedSize: 32, sOff: -1}
	in.derive = func(seed []byte) ([]byte, []byte) {
		sk, err := bls.KeyGen[K](seed, nil, nil)
		if err != nil {
			panic("HARNESS: bls.KeyGen: " + err.Error())
		}
		a, _ := sk.PublicKey().MarshalBinary()
		b, _ := sk.MarshalBinary()
		return a, b
	}
	in.restore = func(skB []byte) ([]byte, func([]byte, string) []byte, error) {
		var sk bls.PrivateKey[K]
		if err := sk.UnmarshalBinary(skB); err != nil {
			return nil, nil, err
		}
		pub, err := sk.PublicKey().MarshalBinary()
		if err != nil {
			return nil, nil, err
		}
		return pub, func(m []byte, c string) []byte { return bls.Sign(&sk, m) }, nil
	}
	in.verify = func(pkB, m []byte, c string, sg []byte) bool {
		var pk bls.PublicKey[K]
		if pk.UnmarshalBinary(pkB) != nil {
			return false
		}
		return bls.Verify(&pk, m, sg)
	}
	in.newVerifier = func() func(pk, msg []byte, ctx string, sig []byte) bool {
		var pk bls.PublicKey[K] // one object, reloaded for every received key
		return func(pkB, m []byte, c string, sg []byte) bool {
			if pk.UnmarshalBinary(pkB) != nil {
				return false
			}
			return bls.Verify(&pk, m, sg)
		}
	}
	_, sk := in.derive(make([]byte, 32))
	pk0, sf, _ := in.restore(sk)
	in.sigSize = len(sf([]byte("x"), ""))
	inf := func(n int) []byte { b := make([]byte, n); b[0] = 0xc0; return b } // compressed point at infinity (ZCash format)
	in.infPK, in.infSig = inf(len(pk0)), inf(in.sigSize)
	return in
}

var instances = map[string]*instance{}
var kinds []string

func init() {
	for _, s := range signschemes.All() {
		instances[s.Name()] = fromScheme(s)
		kinds = append(kinds, s.Name())
	}
	for _, n := range []string{"Ed25519ctx", "Ed25519ph", "Ed448ph"} {
		instances[n] = edVariant(n)
		kinds = append(kinds, n)
	}
	instances["BLS-G1"] = blsInstance[bls.KeyG1SigG2]("BLS-G1")
	instances["BLS-G2"] = blsInstance[bls.KeyG2SigG1]("BLS-G2")
	kinds = append(kinds, "BLS-G1", "BLS-G2")
}

var faults = []string{"", "sig-flip", "sig-trunc", "sig-append", "sig-SplusL", "sig-zeros", "sig-other", "msg-flip", "msg-extend", "msg-trunc", "ctx-alter", "ctx-256", "pk-other", "pk-flip", "pk-trunc", "pk-append", "mode", "stored-key", "hedged-short", "hedged-error", "ctx-allpos", "pk-infinity", "sig-infinity"}

func gen(r *core.PRNG, tier string) any {
	var w []int
	for _, k := range kinds {
		if strings.HasPrefix(k, "BLS") {
			w = append(w, 3)
		} else {
			w = append(w, 10)
		}
	}
	p := &Plan{Kind: kinds[r.Pick(w...)], KeySeed: r.Uint64(), Entropy: r.Uint64()}
	n := r.Range(1, 6)
	if strings.HasPrefix(p.Kind, "BLS") {
		n = r.Range(1, 2)
		if r.Chance(1, 2) {
			p.Signers = r.Range(2, 5)
			p.AggF = []string{"", "drop", "dup", "swapmsg", "samemsg-ok", "agg-extended", "share-extended", "rogue-key"}[r.Intn(8)]
		}
	}
	for i := 0; i < n; i++ {
		m := Msg{Len: r.EdgeLen(300, 0, 1, 64, 128, 136), Ctx: r.EdgeLen(255, 0, 1, 255), Rst: r.Chance(1, 4)}
		m.Fault = faults[r.Pick(12, 22, 8, 6, 6, 2, 4, 6, 3, 3, 5, 2, 4, 5, 2, 2, 5, 5, 2, 2, 3, 3, 3)]
		m.Pos = r.Intn(1 << 20)
		m.Val = r.Intn(256)
		p.Msgs = append(p.Msgs, m)
	}
	return p
}

func directed(tier string) []any {
	var out []any
	for _, k := range kinds {
		p := &Plan{Kind: k, KeySeed: 3, Entropy: 4}
		for _, f := range faults {
			if strings.HasPrefix(k, "BLS") && (f == "sig-zeros" || f == "pk-trunc") {
				continue
			}
			p.Msgs = append(p.Msgs, Msg{Len: 33, Ctx: 3, Fault: f, Pos: 77, Val: 1})
		}
		out = append(out, p)
		// the largest legal context, every position altered
		out = append(out, &Plan{Kind: k, KeySeed: 7, Entropy: 8, Msgs: []Msg{{Len: 17, Ctx: 255, Fault: "ctx-allpos", Val: 3}, {Len: 0, Ctx: 254, Fault: "ctx-allpos", Val: 6}}})
		// every single-bit flip and every truncation length of one signature per kind
		in := instances[k]
		chunk := 4096
		if strings.HasPrefix(k, "BLS") {
			chunk = 64
		}
		for from := 0; from < in.sigSize*8; from += chunk {
			out = append(out, &Plan{Kind: k, KeySeed: 5, Entropy: 6, Msgs: []Msg{{Len: 20, Ctx: 2, Fault: "sig-allflips", From: from, To: from + chunk}}})
		}
		tchunk := 1024
		if strings.HasPrefix(k, "BLS") {
			tchunk = 16
		}
		for from := 0; from < in.sigSize; from += tchunk {
			out = append(out, &Plan{Kind: k, KeySeed: 5, Entropy: 6, Msgs: []Msg{{Len: 20, Ctx: 2, Fault: "sig-alltruncs", From: from, To: from + tchunk}}})
		}
	}
	return out
}

func exec(planJSON []byte, run *core.Run) {
	var p Plan
	if json.Unmarshal(planJSON, &p) != nil {
		run.Bad("json")
		return
	}
	in := instances[p.Kind]
	if in == nil {
		run.Bad("kind")
		return
	}
	comp := "sign[" + in.name + "]"
	run.T(in.name)
	ent := core.NewStream(p.Entropy)
	rand.Reader = ent
	data := core.NewPRNG(p.KeySeed ^ 0x5151)
	seed := core.NewPRNG(p.KeySeed).Bytes(in.seedSize)
	pkB, skB := in.derive(seed)
	pk2, sk2 := in.derive(append([]byte{}, seed...))
	if !bytes.Equal(pkB, pk2) || !bytes.Equal(skB, sk2) {
		run.Violate(comp+".DeriveKey", "not-a-function-of-the-seed", "two derivations differ")
		return
	}
	pkOther, _ := in.derive(core.NewPRNG(p.KeySeed + 1).Bytes(in.seedSize))
	// every buffer a key is loaded from is recycled by its owner as soon as the call returns
	restore := func() ([]byte, func([]byte, string) []byte, error) {
		page := append([]byte{}, skB...)
		pub, sf, err := in.restore(page)
		core.Recycle(page)
		return pub, sf, err
	}
	pub, signf, err := restore()
	if err != nil {
		run.Violate(comp+".UnmarshalBinaryPrivateKey", "rejects-own-encoding", "%v", err)
		return
	}
	if !bytes.Equal(pub, pkB) {
		run.Violate(comp+".PrivateKey.Public", "restored-key-public-differs", "restored %x, derived %x", pub, pkB)
		return
	}
	run.Event("signer", "key", pkB)

	safeVerify := func(f func([]byte, []byte, string, []byte) bool, what string, pk, m []byte, c string, sg []byte) (bool, bool) {
		ok := false
		pkK, mK, sgK := append([]byte{}, pk...), append([]byte{}, m...), append([]byte{}, sg...)
		pan, v, st := core.Try(func() { ok = f(pk, m, c, sg) })
		if !pan && (!bytes.Equal(pk, pkK) || !bytes.Equal(m, mK) || !bytes.Equal(sg, sgK)) {
			run.Violate(comp+".Verify", "operation-modifies-its-operand", "%s: verification changed its public key / message / signature buffer", what)
			return false, false
		}
		if pan {
			run.Violate(comp+".Verify", core.PanicClass(v), "%s: pk %d bytes, msg %d bytes, ctx %d bytes, sig %d bytes: %s at %s", what, len(pk), len(m), len(c), len(sg), v, st)
			return false, false
		}
		return ok, true
	}

	verify := in.verify
	if in.newVerifier != nil && p.KeySeed%2 == 1 {
		verify = in.newVerifier()
		run.Fault("history:verifier-key-object-reused")
	}
	var prevSig, prevMsg []byte
	for i, m := range p.Msgs {
		if m.Len < 0 || m.Len > 5000 || m.Ctx < 0 || m.Ctx > 255 {
			continue
		}
		msg := data.Bytes(m.Len)
		ctx := ""
		if in.ctxOK {
			ctx = string(data.Bytes(m.Ctx))
			if in.ctxMust && ctx == "" {
				ctx = "c"
			}
		}
		if m.Rst {
			_, sf, err := restore()
			if err != nil {
				run.Violate(comp+".UnmarshalBinaryPrivateKey", "rejects-own-encoding", "%v", err)
				return
			}
			signf = sf
			run.Fault("disk:signer-restart")
		}
		msgKeep := append([]byte{}, msg...)
		sig := signf(msg, ctx)
		if !bytes.Equal(msg, msgKeep) {
			run.Violate(comp+".Sign", "operation-modifies-its-operand", "message %d: signing changed the message buffer", i)
			return
		}
		run.Event("signer", "sign", i, sig)
		run.Tick(1)
		if len(sig) != in.sigSize {
			run.Violate(comp+".Sign", "size-differs-from-advertised", "signature of %d bytes, advertised %d", len(sig), in.sigSize)
			return
		}
		// determinism: a fresh signer restored from disk produces the same bytes
		_, sf2, _ := restore()
		if sig2 := sf2(append([]byte{}, msg...), ctx); !bytes.Equal(sig, sig2) {
			run.Violate(comp+".Sign", "deterministic-scheme-not-deterministic", "message %d: original signer %s, restored signer %s", i, sh(sig), sh(sig2))
			return
		}
		ok, fine := safeVerify(verify, "honest", pkB, msg, ctx, sig)
		if !fine {
			return
		}
		if !ok {
			run.Violate(comp+".Verify", "rejects-honest-signature", "message %d (len %d, ctx %d)", i, len(msg), len(ctx))
			return
		}
		// independent implementation of the same deterministic scheme: identical bytes
		if in.refSign != nil {
			if want := in.refSign(seed, msg, ctx); want != nil {
				run.Probe("compared-with-independent-implementation")
				if !bytes.Equal(want, sig) {
					run.Violate(comp+".Sign", "signature-differs-from-independent-implementation", "message %d (len %d, ctx %d bytes): circl %s, crypto/ed25519 %s", i, len(msg), len(ctx), sh(sig), sh(want))
					return
				}
			}
		}
		// the signature is one over the specified message representative, built here
		if in.internalVerify != nil && len(ctx) <= 255 {
			mprime := append(append([]byte{0, byte(len(ctx))}, ctx...), msg...)
			run.Probe("checked-against-fips204-message-representative")
			if !in.internalVerify(pkB, mprime, sig) {
				run.Violate(comp+".Sign", "signature-not-over-the-specified-message-representative", "message %d: the signature does not verify over M' = 0 || %d || ctx || M (|M|=%d)", i, len(ctx), len(msg))
				return
			}
			if is := in.internalSign(skB, mprime); !bytes.Equal(is, sig) {
				run.Violate(comp+".Sign", "signature-not-over-the-specified-message-representative", "message %d: deterministic signing differs from Sign_internal over M' = 0 || %d || ctx || M", i, len(ctx))
				return
			}
		}
		// --- one fault on the way to the verifier ---
		vpk, vmsg, vctx, vsig := append([]byte{}, pkB...), append([]byte{}, msg...), ctx, append([]byte{}, sig...)
		vf := verify
		what := m.Fault
		applied := true
		switch m.Fault {
		case "":
			applied = false
		case "sig-flip":
			b := m.Pos % (len(vsig) * 8)
			vsig[b/8] ^= 1 << (b % 8)
		case "sig-allflips", "sig-alltruncs":
			// fault enumeration: every single-bit flip (or truncation length) in [from,to)
			lim := len(sig) * 8
			if m.Fault == "sig-alltruncs" {
				lim = len(sig)
			}
			to := m.To
			if to == 0 || to > lim {
				to = lim
			}
			n := 0
			for b := m.From; b >= 0 && b < to; b++ {
				t := append([]byte{}, sig...)
				if m.Fault == "sig-allflips" {
					t[b/8] ^= 1 << (b % 8)
				} else {
					t = t[:b]
				}
				ok, fine := safeVerify(verify, m.Fault, pkB, msg, ctx, t)
				if !fine {
					return
				}
				n++
				if ok {
					one := Msg{Len: m.Len, Ctx: m.Ctx, Fault: m.Fault, From: b, To: b + 1}
					run.ViolateP(&Plan{Kind: p.Kind, KeySeed: p.KeySeed, Entropy: p.Entropy, Msgs: append(append([]Msg{}, p.Msgs[:i]...), one)}, comp+".Verify", "accepts-"+m.Fault, "message %d: position %d of the signature altered and verification still returns true", i, b)
					return
				}
			}
			run.Faults["transport:"+m.Fault] += n
			run.NonTrivial = true
			run.T(m.Fault, fmt.Sprint(m.From))
			continue
		case "sig-trunc":
			vsig = vsig[:m.Pos%len(vsig)]
		case "sig-append":
			for j := 0; j <= m.Val%3; j++ {
				vsig = append(vsig, byte(m.Val*j))
			}
		case "sig-SplusL":
			if in.sOff < 0 {
				applied = false
				break
			}
			sb := vsig[in.sOff : in.sOff+in.sLen]
			be := make([]byte, len(sb))
			for j := range sb {
				be[len(sb)-1-j] = sb[j]
			}
			v := new(big.Int).SetBytes(be)
			v.Add(v, in.order)
			if v.BitLen() > 8*in.sLen {
				applied = false
				break
			}
			be = v.FillBytes(make([]byte, in.sLen))
			for j := range sb {
				sb[j] = be[len(sb)-1-j]
			}
			run.Probe("S+L-fits")
		case "sig-zeros":
			for j := range vsig {
				vsig[j] = 0
			}
		case "sig-other":
			if prevSig == nil || bytes.Equal(prevMsg, msg) {
				applied = false
				break
			}
			vsig = append([]byte{}, prevSig...)
		case "msg-flip":
			if len(vmsg) == 0 {
				vmsg = []byte{byte(m.Val)}
			} else {
				b := m.Pos % (len(vmsg) * 8)
				vmsg[b/8] ^= 1 << (b % 8)
			}
		case "msg-extend":
			vmsg = append(vmsg, byte(m.Val))
		case "msg-trunc":
			if len(vmsg) == 0 {
				applied = false
				break
			}
			vmsg = vmsg[:m.Pos%len(vmsg)]
		case "ctx-alter":
			if !in.ctxOK {
				applied = false
				break
			}
			switch {
			case len(vctx) == 0:
				vctx = string([]byte{byte(m.Val)})
			case m.Val%3 == 0 && len(vctx) > 1:
				vctx = vctx[:len(vctx)-1]
			case m.Val%3 == 1 && len(vctx) < 255:
				vctx = vctx + "\x00"
			default:
				b := []byte(vctx)
				b[m.Pos%len(b)] ^= 0x40
				vctx = string(b)
			}
			if in.ctxMust && vctx == "" {
				applied = false
			}
		case "ctx-allpos":
			// fault enumeration: every position of the context altered in turn (one bit each)
			if !in.ctxOK || len(ctx) == 0 {
				applied = false
				break
			}
			for j := 0; j < len(ctx); j++ {
				b := []byte(ctx)
				b[j] ^= 1 << (uint(m.Val+j) % 8)
				ok, fine := safeVerify(verify, m.Fault, pkB, msg, string(b), sig)
				if !fine {
					return
				}
				if ok {
					run.Violate(comp+".Verify", "accepts-ctx-allpos", "message %d: byte %d of the %d-byte context altered and verification still returns true", i, j, len(ctx))
					return
				}
			}
			run.Faults["transport:ctx-allpos"] += len(ctx)
			run.NonTrivial = true
			run.T(m.Fault, fmt.Sprint(len(ctx)))
			prevSig, prevMsg = sig, msg
			continue
		case "pk-infinity":
			// the identity as key together with the identity as signature satisfies the
			// pairing equation for every message; the verifier must refuse the key
			if in.infPK == nil {
				applied = false
				break
			}
			vpk, vsig = append([]byte{}, in.infPK...), append([]byte{}, in.infSig...)
		case "sig-infinity":
			// the group identity as signature under the honest key: e(H(m), pk) = e(O, g) must not hold
			if in.infSig == nil {
				applied = false
				break
			}
			vsig = append([]byte{}, in.infSig...)
		case "ctx-256":
			if !in.ctxOK {
				applied = false
				break
			}
			// an over-long context must be refused by the verifier (and by the signer)
			vctx = strings.Repeat("c", 256+m.Val%3)
			var s256 []byte
			pan, _, _ := core.Try(func() { s256 = signf(msg, vctx) })
			if !pan && len(s256) == in.sigSize {
				vsig = s256 // if the signer produced something, the verifier must still refuse it
			}
			if in.unlimited != nil {
				// a signer elsewhere that knows no limit: the length octet of its domain string
				// wraps around; the signature is well formed, only the context is inadmissible
				vsig = in.unlimited(skB, msg, vctx)
				run.Fault("adversary:signer-without-context-limit")
			}
		case "pk-other":
			vpk = append([]byte{}, pkOther...)
		case "pk-flip":
			b := m.Pos % (len(vpk) * 8)
			vpk[b/8] ^= 1 << (b % 8)
		case "pk-trunc":
			vpk = vpk[:m.Pos%len(vpk)]
		case "pk-append":
			vpk = append(vpk, byte(m.Val))
			what = "pk-append(no-panic-only)"
		case "mode":
			if len(in.others) == 0 {
				applied = false
				break
			}
			vf = in.others[m.Pos%len(in.others)]
		case "stored-key":
			if in.pubInSk[1] == 0 {
				applied = false
				break
			}
			// the disk flips one bit in the public half of the stored private key
			bad := append([]byte{}, skB...)
			b := in.pubInSk[0]*8 + m.Pos%((in.pubInSk[1]-in.pubInSk[0])*8)
			bad[b/8] ^= 1 << (b % 8)
			var pubBad []byte
			var sfBad func([]byte, string) []byte
			var rerr error
			pan, v, st := core.Try(func() { pubBad, sfBad, rerr = in.restore(bad) })
			if pan {
				run.Violate(comp+".UnmarshalBinaryPrivateKey", core.PanicClass(v), "corrupted stored key: %s at %s", v, st)
				return
			}
			run.Fault("disk:stored-key-bit-flip")
			run.T("stored-key")
			if rerr != nil {
				continue // refusing the corrupted key is fine
			}
			var sigBad []byte
			pan, v, st = core.Try(func() { sigBad = sfBad(msg, ctx) })
			if pan {
				continue // refusing to sign with an inconsistent key is fine
			}
			okBad, fine := safeVerify(verify, "stored-key", pubBad, msg, ctx, sigBad)
			if !fine {
				return
			}
			run.Event("verifier", "stored-key", pubBad, okBad)
			if bytes.Equal(pubBad, pkB) {
				if !okBad {
					run.Violate(comp+".Verify", "rejects-honest-signature", "key restored from a corrupted encoding recomputed the right public key but its signature fails")
					return
				}
			} else if okBad {
				run.Violate(comp+".Verify", "accepts-under-altered-public-key", "a signer whose stored public half had bit %d flipped signs, and the signature verifies under the altered key %x (honest key %x)", b-in.pubInSk[0]*8, pubBad, pkB)
				return
			}
			continue
		case "hedged-short", "hedged-error":
			if in.hedged == nil {
				applied = false
				break
			}
			st := core.NewStream(p.Entropy + uint64(i))
			if m.Fault == "hedged-short" {
				st.MaxChunk = 1 + m.Val%5
			} else {
				st.FailAfter = m.Val % 32
				st.Err = errors.New("entropy device failure")
			}
			rand.Reader = st
			hs, herr := in.hedged(skB, st, msg)
			rand.Reader = ent
			run.Fault("entropy:" + m.Fault)
			run.T(m.Fault, fmt.Sprint(herr != nil))
			if herr != nil {
				continue // an error is an acceptable outcome
			}
			hok, fine := safeVerify(verify, "hedged", pkB, msg, "", hs)
			if !fine {
				return
			}
			if !hok {
				run.Violate(comp+".SignTo(randomized)", "invalid-signature-after-entropy-fault", "entropy fault %s: no error but the signature does not verify", m.Fault)
				return
			}
			continue
		default:
			run.Bad("fault")
			return
		}
		prevSig, prevMsg = sig, msg
		if !applied {
			run.T("honest")
			continue
		}
		run.Fault("transport:" + m.Fault)
		ok, fine = safeVerify(vf, what, vpk, vmsg, vctx, vsig)
		if !fine {
			return
		}
		run.Event("verifier", "verify", i, m.Fault, ok)
		run.T(m.Fault)
		if m.Fault == "pk-append" {
			continue // prefix parsing of public keys is documented scheme behaviour: no-panic only
		}
		if ok {
			run.Violate(comp+".Verify", "accepts-"+m.Fault, "message %d: after fault %s (pos %d, val %d) verification still returns true (pk %s, |msg|=%d, |ctx|=%d, sig %s)", i, m.Fault, m.Pos, m.Val, sh(vpk), len(vmsg), len(vctx), sh(vsig))
			return
		}
	}
	if p.Signers >= 2 && strings.HasPrefix(p.Kind, "BLS") {
		if p.Kind == "BLS-G1" {
			execAgg[bls.KeyG1SigG2](&p, run, comp)
		} else {
			execAgg[bls.KeyG2SigG1](&p, run, comp)
		}
	}
	_ = crypto.SHA512
}

func execAgg[K bls.KeyGroup](p *Plan, run *core.Run, comp string) {
	if p.Signers > 8 {
		return
	}
	var pubs []*bls.PublicKey[K]
	var msgs [][]byte
	var sigs []bls.Signature
	for i := 0; i < p.Signers; i++ {
		sk, err := bls.KeyGen[K](core.NewPRNG(p.KeySeed+uint64(10+i)).Bytes(32), nil, nil)
		if err != nil {
			panic("HARNESS: bls.KeyGen")
		}
		m := []byte(fmt.Sprintf("message %d of run %d", i, p.KeySeed))
		pubs = append(pubs, sk.PublicKey())
		msgs = append(msgs, m)
		sigs = append(sigs, bls.Sign(sk, m))
	}
	var k K
	agg, err := bls.Aggregate(k, sigs)
	if err != nil {
		run.Violate(comp+".Aggregate", "error-on-honest-shares", "%v", err)
		return
	}
	if !bls.VerifyAggregate(pubs, msgs, agg) {
		run.Violate(comp+".VerifyAggregate", "rejects-honest-aggregate", "%d signers", p.Signers)
		return
	}
	run.Event("aggregator", "aggregate", agg)
	vp, vm, vs := append([]*bls.PublicKey[K]{}, pubs...), append([][]byte{}, msgs...), append([]bls.Signature{}, sigs...)
	switch p.AggF {
	case "", "samemsg-ok":
		return
	case "drop": // a share is lost before aggregation, the verifier still lists all signers
		vs = vs[1:]
	case "dup": // a share is delivered twice
		vs = append(vs, vs[0])
	case "swapmsg": // shares attributed to the wrong messages
		vm[0], vm[1] = vm[1], vm[0]
	case "rogue-key":
		// the classic attack on aggregation without proofs of possession: the attacker
		// registers the key X - pk1 (X its own key) and presents its own signature on m as the
		// aggregate of (pk1, m) and (X - pk1, m). The basic scheme of the draft refuses equal
		// messages for exactly this reason: pk1's owner never signed m.
		run.Fault("adversary:rogue-key-aggregate")
		run.T("agg", p.AggF)
		atk, err := bls.KeyGen[K](core.NewPRNG(p.KeySeed+99).Bytes(32), nil, nil)
		if err != nil {
			panic("HARNESS: bls.KeyGen")
		}
		xb, _ := atk.PublicKey().MarshalBinary()
		vb, _ := pubs[0].MarshalBinary()
		var rb []byte
		switch any(k).(type) {
		case bls.G1:
			var X, V bls12381.G1
			if X.SetBytes(xb) != nil || V.SetBytes(vb) != nil {
				panic("HARNESS: decode G1 keys")
			}
			V.Neg()
			X.Add(&X, &V)
			rb = X.BytesCompressed()
		default:
			var X, V bls12381.G2
			if X.SetBytes(xb) != nil || V.SetBytes(vb) != nil {
				panic("HARNESS: decode G2 keys")
			}
			V.Neg()
			X.Add(&X, &V)
			rb = X.BytesCompressed()
		}
		rogue := new(bls.PublicKey[K])
		if rogue.UnmarshalBinary(rb) != nil {
			return // the rogue key is refused at registration: nothing to verify
		}
		target := []byte("a message the victim never signed")
		forged := bls.Sign(atk, target)
		ok := false
		if pan, v, st := core.Try(func() {
			ok = bls.VerifyAggregate([]*bls.PublicKey[K]{pubs[0], rogue}, [][]byte{target, target}, forged)
		}); pan {
			run.Violate(comp+".VerifyAggregate", core.PanicClass(v), "%s at %s", v, st)
		} else if ok {
			run.Violate(comp+".VerifyAggregate", "accepts-rogue-key-aggregate", "an aggregate over two equal messages verifies for a signer who never signed: the second key is X - pk1, the 'aggregate' is the attacker's own signature")
		}
		return
	case "agg-extended", "share-extended":
		// bytes appended in transit to the aggregate (or to one share before aggregation):
		// not the advertised size, refused like Verify refuses an extended signature
		run.Fault("transport:aggregate-" + p.AggF)
		run.T("agg", p.AggF)
		tail := core.NewPRNG(p.KeySeed + 5).Bytes(1 + int(p.KeySeed%3)*47)
		if p.AggF == "agg-extended" {
			long := append(append([]byte{}, agg...), tail...)
			ok := false
			if pan, v, st := core.Try(func() { ok = bls.VerifyAggregate(pubs, msgs, long) }); pan {
				run.Violate(comp+".VerifyAggregate", core.PanicClass(v), "%s at %s", v, st)
			} else if ok {
				run.Violate(comp+".VerifyAggregate", "accepts-signature-with-appended-bytes", "aggregate of %d bytes followed by %d more verifies", len(agg), len(tail))
			}
			return
		}
		vs[0] = append(append([]byte{}, vs[0]...), tail...)
		if out, err := bls.Aggregate(k, vs); err == nil {
			run.Violate(comp+".Aggregate", "accepts-signature-with-appended-bytes", "a share of %d bytes followed by %d more is aggregated (result equals the honest aggregate: %v)", len(sigs[0]), len(tail), bytes.Equal(out, agg))
		}
		return
	default:
		run.Bad("aggfault")
		return
	}
	run.Fault("transport:aggregate-" + p.AggF)
	run.T("agg", p.AggF)
	a2, err := bls.Aggregate(k, vs)
	if err != nil {
		return
	}
	ok := false
	pan, v, st := core.Try(func() { ok = bls.VerifyAggregate(vp, vm, a2) })
	if pan {
		run.Violate(comp+".VerifyAggregate", core.PanicClass(v), "%s at %s", v, st)
		return
	}
	if ok {
		run.Violate(comp+".VerifyAggregate", "accepts-aggregate-after-"+p.AggF, "%d signers", p.Signers)
	}
}

func sh(b []byte) string {
	if len(b) > 40 {
		return fmt.Sprintf("%x…(%d bytes)", b[:40], len(b))
	}
	return fmt.Sprintf("%x", b)
}

func main() {
	core.Main(&core.Property{
		ID:    "C02",
		Level: "exploration",
		Rule: "seeded plans: kind out of sign/schemes.All() (10) + Ed25519ctx + Ed25519ph + Ed448ph + BLS in both key groups x key seed x 1..6 messages (lengths 0..300, contexts 0..255) each with one fault {signature bit flip / truncation / appended bytes / S+L / zeros / another message's signature; message flip/extend/truncate; context altered or 256+ bytes; public key of another signer / bit-flipped / truncated / appended; other mode (pure/ph/ctx); stored-key corruption (bit flip in the public half of the signer's stored private key); hedged signing with entropy short reads / errors; signer restart}; BLS aggregates of 2..5 signers with a dropped, duplicated or mis-attributed share; directed: every kind x every fault; " +
			"non-trivial = a fault fired; distinct = distinct abstract trace",
		Assumptions: []string{
			"public keys with appended bytes are checked for no-panic only (prefix parsing is documented scheme behaviour)",
			"an over-long context may be refused by a panic or an error at signing; verification must return false",
			"all sign.Scheme.Sign entry points in circl are the deterministic variants; randomised ML-DSA is driven through SignTo(randomized=true)",
		},
		Components: map[string]string{
			"sign.Scheme implementations, ed25519/ed448 package-level variants, mldsa SignTo, sign/bls": "real",
			"transport of (pk, msg, ctx, sig)": "stub: simulated transport with per-field corruption and cross-session replacement",
			"signer key storage":               "stub: simulated disk with restart and stored-byte flips",
			"crypto/rand.Reader":               "stub: deterministic entropy device (short reads, errors)",
		},
		ProbeNames: []string{"S+L-fits", "compared-with-independent-implementation", "checked-against-fips204-message-representative"},
		Directed:   directed,
		Gen:        gen,
		Exec:       exec,
		Runs:       map[string]int{"quick": 9000, "thorough": 400000},
		WallCap:    map[string]time.Duration{"quick": 100 * time.Second, "thorough": 14 * time.Minute},
	})
}
