package main

import (
	"fmt"

	"circlsim/codec"
)

func main() {
	all, un := codec.UncoveredCandidates("/repo")
	fmt.Println(len(all), len(un))
	for _, u := range un {
		fmt.Println("  ", u)
	}
}
