// C11 (schedules) — keys, schemes, suites and precomputed tables may be used by
// any number of goroutines at once. schedsim: 2..4 caller tasks run read-only
// programs on shared library objects under a seeded scheduler that pre-empts the
// running task at planned instrumented statements (uniform, right after entry,
// or right after the k-th shared write). Oracles: every call returns what it
// returns when its task runs alone on equal fresh objects; in the -race build
// ThreadSanitizer must stay silent (the scheduler's hand-off is invisible to it).
package main

import (
	"bytes"
	"crypto"
	"crypto/rand"
	"crypto/sha256"
	_ "crypto/sha256"
	"encoding/asn1"
	"encoding/json"
	"fmt"
	"github.com/cloudflare/circl/abe/cpabe/tkn20"
	"github.com/cloudflare/circl/pki"
	"math"
	"os"
	"strings"
	"time"

	"circlsim/core"
	"circlsim/fixtures"

	"github.com/cloudflare/circl/expander"
	"github.com/cloudflare/circl/group"
	"github.com/cloudflare/circl/hpke"
	"github.com/cloudflare/circl/kem"
	kemschemes "github.com/cloudflare/circl/kem/schemes"
	"github.com/cloudflare/circl/kem/sike/sikep434"
	"github.com/cloudflare/circl/oprf"
	"github.com/cloudflare/circl/sign"
	"github.com/cloudflare/circl/sign/bls"
	signschemes "github.com/cloudflare/circl/sign/schemes"
	tssrsa "github.com/cloudflare/circl/tss/rsa"
	"github.com/cloudflare/circl/vdaf/prio3/count"
	"github.com/cloudflare/circl/verifsimrt"
)

type TaskOp struct {
	K string `json:"k"`
	A uint64 `json:"a,omitempty"`
}

type SwitchSpec struct {
	Task int    `json:"task"`
	Mode string `json:"mode"` // frac | early | pw
	Num  uint64 `json:"num"`
	To   int    `json:"to"`
}

type Plan struct {
	Fam      string       `json:"fam"`
	Seed     uint64       `json:"seed"`
	Tasks    [][]TaskOp   `json:"tasks"`
	Switches []SwitchSpec `json:"switches"`
}

// shared is one set of library objects of a family; ops maps op kinds to calls
// on them. Every op must be a deterministic function of the objects and A.
type shared struct {
	ops map[string]func(a uint64) []byte
}

type famDef struct {
	name  string
	kinds []string
	build func(seed uint64) *shared
	slow  bool
	// late: the expected values are computed AFTER the scheduled run, sequentially, on an
	// object set equal to the shared one (same per-run labels), so that work the library does
	// once per process and label is first done inside the scheduled tasks
	late bool
	// cold: no counting pass either (see coldFam); switch points are absolute
	cold bool
}

func b2(ok bool) []byte {
	if ok {
		return []byte{1}
	}
	return []byte{0}
}

// schedRand stands in for the process-wide entropy source while tasks are scheduled. The
// real crypto/rand.Reader may be read by any number of goroutines; this device is read by
// one task at a time (the scheduler runs one task at a time) but without any synchronisation
// the race detector could see, so its accesses are hidden from the detector. Which task draws
// which bytes depends on the schedule: no op's result may depend on them.
type schedRand struct{ s uint64 }

//go:norace
func (r *schedRand) Read(b []byte) (int, error) {
	for i := range b {
		r.s += 0x9e3779b97f4a7c15
		z := r.s
		z = (z ^ (z >> 30)) * 0xbf58476d1ce4e5b9
		z = (z ^ (z >> 27)) * 0x94d049bb133111eb
		b[i] = byte((z ^ (z >> 31)) >> 24)
	}
	return len(b), nil
}

func at(v [][][]byte, t, i int) []byte {
	if t < len(v) && i < len(v[t]) {
		return v[t][i]
	}
	return nil
}

func msgOf(a uint64) []byte { return []byte(fmt.Sprintf("message-%d", a%5)) }

func blsFam[K bls.KeyGroup](name string) famDef {
	return famDef{name: name, kinds: []string{"pub", "pub", "sign", "verify", "marshal"}, build: func(seed uint64) *shared {
		sk, err := bls.KeyGen[K](core.NewPRNG(seed).Bytes(32), nil, nil)
		if err != nil {
			panic("HARNESS: bls.KeyGen")
		}
		// a second key object restored from bytes so that nothing was precomputed during generation
		raw, _ := sk.MarshalBinary()
		var k bls.PrivateKey[K]
		if err := k.UnmarshalBinary(raw); err != nil {
			panic("HARNESS: bls unmarshal")
		}
		return &shared{ops: map[string]func(uint64) []byte{
			"pub":     func(uint64) []byte { b, _ := k.PublicKey().MarshalBinary(); return b },
			"sign":    func(a uint64) []byte { return bls.Sign(&k, msgOf(a)) },
			"verify":  func(a uint64) []byte { return b2(bls.Verify(k.PublicKey(), msgOf(a), bls.Sign(&k, msgOf(a)))) },
			"marshal": func(uint64) []byte { b, _ := k.MarshalBinary(); return b },
		}}
	}}
}

func hpkeFam(id hpke.KEM) famDef {
	s := id.Scheme()
	return famDef{name: "hpke/" + s.Name(), kinds: []string{"pub", "pub", "decap", "marshal", "setup", "session"}, slow: id == hpke.KEM_P521_HKDF_SHA512, build: func(seed uint64) *shared {
		r := core.NewPRNG(seed)
		_, sk0 := s.DeriveKeyPair(r.Bytes(s.SeedSize()))
		raw, _ := sk0.MarshalBinary()
		sk, err := s.UnmarshalBinaryPrivateKey(raw) // fresh object: the public half is not yet cached
		if err != nil {
			panic("HARNESS: hpke unmarshal")
		}
		pk0 := sk0.Public()
		ct, _, err := s.EncapsulateDeterministically(pk0, r.Bytes(s.EncapsulationSeedSize()))
		if err != nil {
			panic("HARNESS: hpke encap")
		}
		suite := hpke.NewSuite(id, hpke.KDF_HKDF_SHA256, hpke.AEAD_AES128GCM)
		return &shared{ops: map[string]func(uint64) []byte{
			"pub":     func(uint64) []byte { b, _ := sk.Public().MarshalBinary(); return b },
			"decap":   func(uint64) []byte { ss, _ := s.Decapsulate(sk, ct); return ss },
			"marshal": func(uint64) []byte { b, _ := sk.MarshalBinary(); return b },
			"setup": func(a uint64) []byte {
				rc, _ := suite.NewReceiver(sk, msgOf(a))
				o, err := rc.Setup(ct)
				if err != nil {
					return []byte("err")
				}
				return o.Export(nil, 16)
			},
			// a whole session on contexts of the task's own (only the keys and the suite are
			// shared): sender set-up from the task's entropy, two records sealed and opened
			"session": func(a uint64) []byte {
				snd, err := suite.NewSender(pk0, msgOf(a))
				if err != nil {
					return []byte("err")
				}
				enc, sealer, err := snd.Setup(core.NewStream(seed + 100 + a))
				if err != nil {
					return []byte("err:setup")
				}
				rc, _ := suite.NewReceiver(sk, msgOf(a))
				opener, err := rc.Setup(enc)
				if err != nil {
					return []byte("err:receiver")
				}
				out := append([]byte{}, enc[:8]...)
				for i := 0; i < 2; i++ {
					ct, err := sealer.Seal(msgOf(a+uint64(i)), []byte("aad"))
					if err != nil {
						return []byte("err:seal")
					}
					pt, err := opener.Open(ct, []byte("aad"))
					if err != nil {
						return append(out, []byte("|cannot-open")...)
					}
					out = append(append(out, ct[len(ct)-8:]...), pt...)
				}
				return out
			},
		}}
	}}
}

func oprfFam(su oprf.Suite) famDef {
	return famDef{name: "oprf/" + su.Identifier(), kinds: []string{"pub", "pub", "full", "eval"}, slow: su == oprf.SuiteP521, build: func(seed uint64) *shared {
		r := core.NewPRNG(seed)
		k0, err := oprf.DeriveKey(su, oprf.VerifiableMode, r.Bytes(32), nil)
		if err != nil {
			panic("HARNESS: oprf.DeriveKey")
		}
		raw, _ := k0.MarshalBinary()
		k := new(oprf.PrivateKey)
		if err := k.UnmarshalBinary(su, raw); err != nil {
			panic("HARNESS: oprf unmarshal")
		}
		srv := oprf.NewServer(su, k)
		g := su.Group()
		blind := g.HashToScalar([]byte("blind"), nil)
		return &shared{ops: map[string]func(uint64) []byte{
			"pub":  func(uint64) []byte { b, _ := k.Public().MarshalBinary(); return b },
			"full": func(a uint64) []byte { o, _ := srv.FullEvaluate(msgOf(a)); return o },
			"eval": func(a uint64) []byte {
				_, req, err := oprf.NewClient(su).DeterministicBlind([][]byte{msgOf(a)}, []oprf.Blind{blind.Copy()})
				if err != nil {
					return []byte("err")
				}
				ev, err := srv.Evaluate(req)
				if err != nil {
					return []byte("err")
				}
				b, _ := ev.Elements[0].MarshalBinaryCompress()
				return b
			},
		}}
	}}
}

func tssFam() famDef {
	return famDef{name: "tss/rsa", kinds: []string{"sign", "sign", "marshal"}, build: func(seed uint64) *shared {
		key := fixtures.RSAKey("std-1024-a")
		shares, err := tssrsa.Deal(core.NewStream(seed), 3, 2, key, false) // not cached: Sign fills the cache lazily
		if err != nil {
			panic("HARNESS: Deal")
		}
		ks := &shares[seed%3]
		digest := make([]byte, 128)
		digest[127] = 5
		return &shared{ops: map[string]func(uint64) []byte{
			"sign": func(a uint64) []byte {
				d := append([]byte{}, digest...)
				d[126] = byte(a % 3)
				ss, err := ks.Sign(nil, &key.PublicKey, d, false)
				if err != nil {
					return []byte("err")
				}
				b, _ := ss.MarshalBinary()
				return b
			},
			"marshal": func(uint64) []byte { b, _ := ks.MarshalBinary(); return b[:16] },
		}}
	}}
}

func kemFam(s kem.Scheme) famDef {
	return famDef{name: "kem/" + s.Name(), kinds: []string{"decap", "encap", "pub", "marshal", "own"}, build: func(seed uint64) *shared {
		r := core.NewPRNG(seed)
		pk0, sk0 := s.DeriveKeyPair(r.Bytes(s.SeedSize()))
		pb, _ := pk0.MarshalBinary()
		sb, _ := sk0.MarshalBinary()
		pk, err1 := s.UnmarshalBinaryPublicKey(pb)
		sk, err2 := s.UnmarshalBinaryPrivateKey(sb)
		if err1 != nil || err2 != nil {
			panic("HARNESS: kem unmarshal")
		}
		es := r.Bytes(s.EncapsulationSeedSize())
		ct, _, _ := s.EncapsulateDeterministically(pk0, es)
		return &shared{ops: map[string]func(uint64) []byte{
			"decap": func(uint64) []byte { ss, _ := s.Decapsulate(sk, ct); return ss },
			"encap": func(uint64) []byte {
				c, ss, _ := s.EncapsulateDeterministically(pk, es)
				return append(c[:16:16], ss...)
			},
			"pub":     func(uint64) []byte { b, _ := sk.Public().MarshalBinary(); return b[:32] },
			"marshal": func(uint64) []byte { b, _ := pk.MarshalBinary(); return b[:32] },
			// a key pair of the task's own (nothing is shared with the other tasks but the scheme
			// and whatever the package keeps globally): derive, encapsulate, decapsulate
			"own": func(a uint64) []byte {
				opk, osk := s.DeriveKeyPair(core.NewPRNG(seed + 1000 + a).Bytes(s.SeedSize()))
				c, ss1, err := s.EncapsulateDeterministically(opk, core.NewPRNG(seed+2000+a).Bytes(s.EncapsulationSeedSize()))
				if err != nil {
					return []byte("err")
				}
				ss2, err := s.Decapsulate(osk, c)
				if err != nil {
					return []byte("err2")
				}
				pb, _ := opk.MarshalBinary()
				return append(append(append(pb[:16:16], c[:16]...), ss1...), ss2...)
			},
		}}
	}}
}

func signFam(s sign.Scheme) famDef {
	return famDef{name: "sign/" + s.Name(), kinds: []string{"sign", "verify", "pub", "own"}, build: func(seed uint64) *shared {
		pk0, sk0 := s.DeriveKey(core.NewPRNG(seed).Bytes(s.SeedSize()))
		pb, _ := pk0.MarshalBinary()
		sb, _ := sk0.MarshalBinary()
		pk, err1 := s.UnmarshalBinaryPublicKey(pb)
		sk, err2 := s.UnmarshalBinaryPrivateKey(sb)
		if err1 != nil || err2 != nil {
			panic("HARNESS: sign unmarshal")
		}
		return &shared{ops: map[string]func(uint64) []byte{
			"sign":   func(a uint64) []byte { return s.Sign(sk, msgOf(a), nil) },
			"verify": func(a uint64) []byte { return b2(s.Verify(pk, msgOf(a), s.Sign(sk0, msgOf(a), nil), nil)) },
			"pub":    func(uint64) []byte { b, _ := sk.Public().(sign.PublicKey).MarshalBinary(); return b[:32] },
			"own": func(a uint64) []byte {
				opk, osk := s.DeriveKey(core.NewPRNG(seed + 1000 + a).Bytes(s.SeedSize()))
				sg := s.Sign(osk, msgOf(a), nil)
				return append(sg[:32:32], b2(s.Verify(opk, msgOf(a), sg, nil))...)
			},
		}}
	}}
}

func groupFam(g group.Group, name string) famDef {
	return famDef{name: "group/" + name, kinds: []string{"gen", "mulgen", "hash", "id", "add"}, build: func(seed uint64) *shared {
		k := g.HashToScalar(core.NewPRNG(seed).Bytes(8), nil)
		x := expander.NewExpanderMD(crypto.SHA256, []byte("shared-expander"))
		return &shared{ops: map[string]func(uint64) []byte{
			"gen":    func(uint64) []byte { b, _ := g.Generator().MarshalBinary(); return b },
			"mulgen": func(uint64) []byte { b, _ := g.NewElement().MulGen(k).MarshalBinary(); return b },
			"hash":   func(a uint64) []byte { b, _ := g.HashToElement(msgOf(a), []byte("dst")).MarshalBinary(); return b },
			"id":     func(uint64) []byte { b, _ := g.Identity().MarshalBinary(); return b },
			"add": func(uint64) []byte {
				e := g.NewElement().Add(g.Generator(), g.Generator()) // private receiver, shared constants as operands
				b, _ := e.MarshalBinary()
				return append(b, x.Expand([]byte("m"), 16)...)
			},
		}}
	}}
}

// registryFam: package-level lookup tables (scheme by name / OID / TLS id, suites by
// identifier), first used by several tasks at once. Under the race engine every run is a
// fresh process, so each run sees the tables cold.
func registryFam() famDef {
	var signNames, kemNames []string
	for _, s := range signschemes.All() {
		signNames = append(signNames, s.Name())
	}
	for _, s := range kemschemes.All() {
		kemNames = append(kemNames, s.Name())
	}
	return famDef{name: "registry", kinds: []string{"sign.byname", "kem.byname", "pki.bytls", "oprf.suite", "sign.byname"}, build: func(seed uint64) *shared {
		return &shared{ops: map[string]func(uint64) []byte{
			"sign.byname": func(a uint64) []byte {
				n := signNames[(a+seed)%uint64(len(signNames))]
				s := signschemes.ByName(n)
				if s == nil {
					return []byte("nil:" + n)
				}
				return []byte(s.Name())
			},
			"kem.byname": func(a uint64) []byte {
				n := kemNames[(a+seed)%uint64(len(kemNames))]
				s := kemschemes.ByName(n)
				if s == nil {
					return []byte("nil:" + n)
				}
				return []byte(s.Name())
			},
			"pki.bytls": func(a uint64) []byte {
				for _, s := range signschemes.All() {
					if t, ok := s.(interface{ TLSIdentifier() uint }); ok {
						if got := pki.SchemeByTLSID(t.TLSIdentifier()); got == nil || got.Name() != s.Name() {
							return []byte("mismatch:" + s.Name())
						}
					}
					if o, ok := s.(interface{ Oid() asn1.ObjectIdentifier }); ok {
						if got := pki.SchemeByOid(o.Oid()); got == nil || got.Name() != s.Name() {
							return []byte("mismatch-oid:" + s.Name())
						}
					}
				}
				return []byte("ok")
			},
			"oprf.suite": func(a uint64) []byte {
				id := []string{"ristretto255-SHA512", "P256-SHA256", "P384-SHA384", "P521-SHA512"}[a%4]
				su, err := oprf.GetSuite(id)
				if err != nil {
					return []byte("err:" + id)
				}
				return []byte(su.Identifier())
			},
		}}
	}}
}

// tknFam: one CP-ABE authority (public key, master secret, one attribute key) shared by
// encryptors, the key issuer and a decryptor. Attribute labels are drawn per run, so the
// library's per-label work is first done inside the scheduled tasks.
var tknAuth struct {
	pk  *tkn20.PublicKey
	msk *tkn20.SystemSecretKey
}

// buildCounter numbers the object sets built within one run (reference sets first, the
// shared set last); exec resets it.
var buildCounter int

func tknFam() famDef {
	return famDef{name: "tkn20", late: true, kinds: []string{"fresh", "encrypt", "fresh", "keygen", "decrypt", "could"}, build: func(seed uint64) *shared {
		if tknAuth.pk == nil {
			pk, msk, err := tkn20.Setup(core.NewStream(4242))
			if err != nil {
				panic("HARNESS: tkn20.Setup")
			}
			tknAuth.pk, tknAuth.msk = &pk, &msk
		}
		phase := buildCounter
		buildCounter++
		la, lb := fmt.Sprintf("l%016x", seed), fmt.Sprintf("m%016x", seed)
		var pol tkn20.Policy
		if pol.FromString(la+": x and not "+lb+": y") != nil {
			panic("HARNESS: policy")
		}
		var attrs tkn20.Attributes
		attrs.FromMap(map[string]string{la: "x", lb: "z"})
		ak, err := tknAuth.msk.KeyGen(core.NewStream(seed+1), attrs)
		if err != nil {
			panic("HARNESS: KeyGen")
		}
		ct0, err := tknAuth.pk.Encrypt(core.NewStream(seed+2), pol, []byte("message"))
		if err != nil {
			panic("HARNESS: Encrypt")
		}
		return &shared{ops: map[string]func(uint64) []byte{
			// a label nobody in this process has used yet (it differs between the reference
			// object sets and the shared one; what is returned does not depend on its name):
			// encrypt under it, issue a key for it, decrypt
			"fresh": func(a uint64) []byte {
				lf := fmt.Sprintf("f%016x%02x%02x", seed, a&0xff, phase&0xff)
				var pl tkn20.Policy
				if pl.FromString(lf+": v") != nil {
					return []byte("policy-err")
				}
				ct, err := tknAuth.pk.Encrypt(core.NewStream(seed+10+a), pl, msgOf(a))
				if err != nil {
					return []byte("err")
				}
				var at tkn20.Attributes
				at.FromMap(map[string]string{lf: "v"})
				k, err := tknAuth.msk.KeyGen(core.NewStream(seed+30+a), at)
				if err != nil {
					return []byte("keygen-err")
				}
				pt, err := k.Decrypt(ct)
				if err != nil {
					return []byte("undecryptable")
				}
				h := sha256.Sum256(ct)
				return append(h[:], pt...)
			},
			"encrypt": func(a uint64) []byte {
				ct, err := tknAuth.pk.Encrypt(core.NewStream(seed+10+a), pol, msgOf(a))
				if err != nil {
					return []byte("err")
				}
				pt, err := ak.Decrypt(ct)
				if err != nil {
					return []byte("undecryptable")
				}
				return append(ct[len(ct)-16:len(ct):len(ct)], pt...)
			},
			"keygen": func(a uint64) []byte {
				k, err := tknAuth.msk.KeyGen(core.NewStream(seed+20+a), attrs)
				if err != nil {
					return []byte("err")
				}
				pt, err := k.Decrypt(ct0)
				if err != nil {
					return []byte("unusable:" + err.Error())
				}
				return pt
			},
			"decrypt": func(uint64) []byte {
				pt, err := ak.Decrypt(ct0)
				if err != nil {
					return []byte("err:" + err.Error())
				}
				return pt
			},
			"could": func(uint64) []byte { return b2(attrs.CouldDecrypt(ct0)) },
		}}
	}}
}

func prioFam() famDef {
	return famDef{name: "prio3/count", kinds: []string{"shard", "shard", "params"}, build: func(seed uint64) *shared {
		c, err := count.New(2, []byte("ctx"))
		if err != nil {
			panic("HARNESS: count.New")
		}
		return &shared{ops: map[string]func(uint64) []byte{
			"shard": func(a uint64) []byte {
				var nonce count.Nonce
				nonce[0] = byte(a)
				par := c.Params()
				pub, in, err := c.Shard(a&1 == 1, &nonce, core.NewPRNG(a).Bytes(int(par.RandSize())))
				if err != nil {
					return []byte("err")
				}
				b, _ := pub.MarshalBinary()
				ib, _ := in[1].MarshalBinary()
				return append(b, ib...)
			},
			"params": func(uint64) []byte { p := c.Params(); return []byte(fmt.Sprint(p.Shares(), p.RandSize())) },
		}}
	}}
}

var fams = map[string]famDef{}
var famNames []string
var famWeights []int

func reg(f famDef, w int) {
	// experiments only (no registered command sets it): restrict the families to those whose
	// name starts with one of the comma-separated prefixes
	if only := os.Getenv("VERIF_FAMS"); only != "" {
		keep := false
		for _, pre := range strings.Split(only, ",") {
			if strings.HasPrefix(f.name, pre) {
				keep = true
			}
		}
		if !keep {
			return
		}
	}
	fams[f.name] = f
	famNames = append(famNames, f.name)
	if f.slow {
		w = 1
	}
	famWeights = append(famWeights, w)
}

func init() {
	reg(blsFam[bls.KeyG1SigG2]("bls/G1"), 10)
	reg(blsFam[bls.KeyG2SigG1]("bls/G2"), 6)
	for _, id := range []hpke.KEM{hpke.KEM_X25519_HKDF_SHA256, hpke.KEM_X448_HKDF_SHA512, hpke.KEM_P256_HKDF_SHA256, hpke.KEM_P384_HKDF_SHA384, hpke.KEM_X25519_KYBER768_DRAFT00, hpke.KEM_XWING} {
		reg(hpkeFam(id), 8)
	}
	for _, su := range []oprf.Suite{oprf.SuiteRistretto255, oprf.SuiteP256, oprf.SuiteP384} {
		reg(oprfFam(su), 8)
	}
	reg(tssFam(), 10)
	// the scheme tables are walked with All(): the by-name lookups themselves are first used
	// inside the scheduled tasks of the registry family, in a process that has not used them yet
	for _, n := range []string{"ML-KEM-768", "Kyber768", "X25519MLKEM768", "Kyber768-X25519", "P256Kyber768Draft00", "X-Wing", "ML-KEM-512", "FrodoKEM-640-SHAKE"} {
		for _, s := range kemschemes.All() {
			if s.Name() == n {
				reg(kemFam(s), 4)
			}
		}
	}
	for _, n := range []string{"Ed25519", "Ed448", "ML-DSA-65", "Dilithium3", "Ed25519-Dilithium2"} {
		for _, s := range signschemes.All() {
			if s.Name() == n {
				reg(signFam(s), 4)
			}
		}
	}
	reg(kemFam(sikep434.Scheme()), 2) // deprecated, not in kem/schemes, still shipped
	reg(registryFam(), 6)
	reg(tknFam(), 2)
	reg(coldFam(), 8)
	// the same tasks (objects of their own, nothing shared but package-level state) after a
	// sequential counting pass: the state is warm, but switch points are placed with measured
	// statement counts and at the shared-write sites, over the whole length of the calls
	own := coldFam()
	own.name, own.cold, own.late = "own", false, false
	reg(own, 8)
	reg(blindFam(), 4)
	reg(csidhFam(), 2)
	reg(decodersFam(), 12)
	reg(groupFam(group.P256, "P256"), 6)
	reg(groupFam(group.Ristretto255, "ristretto255"), 4)
	// a Prio3 instance keeps a mutable XOF state and is owned by one party: it is neither a
	// key, a scheme, a suite nor a table, so it is NOT run concurrently (an earlier version of
	// this harness did, and raised a false alarm)
	_ = prioFam
}

func gen(r *core.PRNG, tier string) any {
	f := fams[famNames[r.Pick(famWeights...)]]
	p := &Plan{Fam: f.name, Seed: r.Uint64()}
	nt := r.Range(2, 3)
	if r.Chance(1, 6) {
		nt = 4
	}
	for t := 0; t < nt; t++ {
		var ops []TaskOp
		for i, n := 0, r.Range(1, 3); i < n; i++ {
			ops = append(ops, TaskOp{K: f.kinds[r.Intn(len(f.kinds))], A: uint64(r.Intn(5))})
		}
		p.Tasks = append(p.Tasks, ops)
	}
	ns := r.Pick(1, 4, 4, 2)
	for i := 0; i < ns; i++ {
		s := SwitchSpec{Task: r.Intn(nt), To: r.Intn(nt)}
		switch r.Pick(3, 4, 4, 4) {
		case 3:
			s.Mode, s.Num = "sync", uint64(r.Intn(64))
		case 0:
			s.Mode, s.Num = "frac", uint64(r.Intn(1000000))
		case 1:
			s.Mode = "early"
			s.Num = uint64(1) << uint(r.Intn(12))
			s.Num += uint64(r.Intn(int(s.Num)))
		case 2:
			s.Mode, s.Num = "pw", uint64(r.Intn(64))
		}
		p.Switches = append(p.Switches, s)
	}
	return p
}

// directed: for every family, two tasks that both start with the "first use" op
// (pub / sign / gen) and a pre-emption of task 0 right after each of its first
// 24 shared writes and at each of its first 24 statements.
func directed(tier string) []any {
	// four groups, concatenated in this order so that a tier that runs only the first few
	// thousand plans has the cheap and sharp ones from every family: (a) every kind against
	// itself, (s) the own-objects family at its sync points, (c) first-use plans, (b) the grids
	var groupA, groupS, groupC, groupB []any
	out := &groupA
	race := os.Getenv("VERIF_RACE_BINARY") == "1"
	for _, n := range famNames {
		f := fams[n]
		if f.slow && tier != "thorough" {
			continue
		}
		// distinct op kinds in declaration order
		var kinds []string
		seen := map[string]bool{}
		for _, k := range f.kinds {
			if !seen[k] {
				seen[k] = true
				kinds = append(kinds, k)
			}
		}
		last := f.kinds[len(f.kinds)-1]
		pair := func(k string, seed uint64, sw SwitchSpec) {
			// the second task makes the same kind of call with another argument (another
			// message, other entropy): equal calls can hide a mix-up of their private data
			second := []TaskOp{{K: k, A: 1}, {K: last}}
			if (n == "own" || n == "cold") && !race {
				// nothing is shared but package-level state: what an interleaving leaves there
				// shows in a LATER call of the same kind, which the second task makes itself
				second = []TaskOp{{K: k, A: 1}, {K: k, A: 1}}
			}
			if race {
				// ThreadSanitizer drops a report when the earlier access has left the other
				// goroutine's bounded history: nothing long runs between the two calls
				second = second[:1]
			}
			first := []TaskOp{{K: k}}
			if (n == "own" || n == "cold") && !race {
				// ... and so does the first task, once it has been resumed and has finished
				first = []TaskOp{{K: k}, {K: k, A: 1}}
			}
			*out = append(*out, &Plan{Fam: n, Seed: seed, Tasks: [][]TaskOp{first, second}, Switches: []SwitchSpec{sw}})
		}
		// (a) every op kind against itself: two tasks make the same read-only call on the shared
		// objects (the race oracle needs no particular pre-emption point for these)
		for ki, k := range kinds {
			out = &groupA
			pair(k, uint64(100+ki), SwitchSpec{Task: 0, Mode: "pw", Num: 0, To: 1})
			if race && tier != "thorough" {
				continue // the race build is slower: one plan per kind so that every family is reached
			}
			// (b) a grid of pre-emption points spread over the whole first call, whatever its length
			grid := 8
			if tier == "thorough" {
				grid = 32
			}
			if n == "own" && k == "p384" {
				// a cheap call with many short windows (table entries used in place): a dense grid
				grid = 160
			} else if n == "own" && k != "tkn20" && grid < 24 {
				// package-level scratch and tables are touched in short windows (an entry changed
				// in place and restored): a denser grid for the calls that are cheap
				grid = 24
			}
			out = &groupB
			if n == "own" && k == "p384" {
				out = &groupS // with the sharp plans: it is cheap
			}
			for g := 0; g < grid; g++ {
				pair(k, uint64(100+ki), SwitchSpec{Task: 0, Mode: "frac", Num: uint64((2*g + 1) * 1000000 / (2 * grid)), To: 1})
			}
		}
		// (c) the first-use op: pre-emption right after each of its first shared writes, sync
		// operations and statements
		lim := 12
		if tier == "thorough" {
			lim = 48
		}
		if race && tier != "thorough" {
			lim = 1
		}
		out = &groupS
		if n == "own" {
			// every kind of the own-objects family, pre-empted right after each of its first
			// sync / atomic operations: the check-then-act windows of package-level memos and
			// caches that are guarded by a lock (or an atomic) but released in between
			for _, kd := range kinds {
				for j := 0; j < lim; j++ {
					pair(kd, uint64(200+j), SwitchSpec{Task: 0, Mode: "sync", Num: uint64(j), To: 1})
				}
			}
		}
		out = &groupC
		for k := 0; k < lim; k++ {
			for _, mode := range []string{"pw", "early", "sync"} {
				num := uint64(k)
				if mode == "early" {
					num = uint64(1 + k*3)
				}
				pair(kinds[0], uint64(k), SwitchSpec{Task: 0, Mode: mode, Num: num, To: 1})
			}
		}
	}
	return append(append(append(groupA, groupS...), groupC...), groupB...)
}

func exec(planJSON []byte, run *core.Run) {
	var p Plan
	if json.Unmarshal(planJSON, &p) != nil {
		run.Bad("json")
		return
	}
	f, ok := fams[p.Fam]
	if !ok || len(p.Tasks) < 1 || len(p.Tasks) > 4 {
		run.Bad("plan")
		return
	}
	for _, ops := range p.Tasks {
		if len(ops) > 6 {
			run.Bad("ops")
			return
		}
		for _, o := range ops {
			found := false
			for _, k := range f.kinds {
				if k == o.K {
					found = true
				}
			}
			if !found {
				run.Bad("op kind")
				return
			}
		}
	}
	rand.Reader = &schedRand{s: p.Seed + 3}
	comp := "sched[" + f.name + "]"
	run.T(f.name)
	nt := len(p.Tasks)
	// --- reference: every task alone, on its own fresh (equal) objects ---
	buildCounter = 0
	ref := make([][][]byte, nt)
	refObjs := make([]*shared, nt)
	for t := range p.Tasks {
		refObjs[t] = f.build(p.Seed)
	}
	bodies := make([]func(), nt)
	var refPanic string
	for t := range p.Tasks {
		t := t
		bodies[t] = func() {
			defer func() {
				if e := recover(); e != nil {
					refPanic = fmt.Sprint(e)
				}
			}()
			for _, o := range p.Tasks[t] {
				ref[t] = append(ref[t], refObjs[t].ops[o.K](o.A))
			}
		}
	}
	var count0 verifsimrt.Result
	if !f.cold {
		count0 = verifsimrt.Run(bodies, nil, true)
		if refPanic != "" {
			panic("HARNESS: reference run panicked: " + refPanic)
		}
		var total uint64
		for _, s := range count0.Steps {
			total += s
		}
		if total == 0 {
			panic("HARNESS: the library is not instrumented (0 statements counted)")
		}
	}
	// --- resolve the planned pre-emptions into absolute per-task step numbers ---
	var sw []verifsimrt.Switch
	for _, s := range p.Switches {
		if s.Task < 0 || s.Task >= nt || s.To < 0 || s.To >= nt || s.To == s.Task {
			continue
		}
		if f.cold {
			// nothing was counted: absolute statement numbers (logarithmic scale for the modes
			// that are relative to the length of the call) and sync-operation indices
			c := verifsimrt.Switch{Task: s.Task, To: s.To}
			switch s.Mode {
			case "frac":
				c.Step = 1 + uint64(math.Exp2(float64(s.Num%1000000)/1000000*23))
			case "early":
				c.Step = 1 + s.Num
			case "pw":
				c.Step = 2 + 5*(s.Num%64)
			case "sync":
				c.Sync = 1 + s.Num%24
				run.Probe("preempt-right-after-sync-operation")
			default:
				run.Bad("switch mode")
				return
			}
			sw = append(sw, c)
			continue
		}
		steps := count0.Steps[s.Task]
		var at uint64
		switch s.Mode {
		case "frac":
			at = 1 + steps*(s.Num%1000000)/1000000
		case "early":
			at = 1 + s.Num%(steps+1)
		case "pw":
			pws := count0.PWSteps[s.Task]
			if len(pws) == 0 {
				continue
			}
			at = pws[int(s.Num)%len(pws)] + 1 // the statement after the shared write
			run.Probe("preempt-right-after-shared-write")
		case "sync":
			pss := count0.PSSteps[s.Task]
			if len(pss) == 0 {
				continue
			}
			at = pss[int(s.Num)%len(pss)] + 1 // the statement after the one holding the sync / atomic call
			run.Probe("preempt-right-after-sync-operation")
		default:
			run.Bad("switch mode")
			return
		}
		sw = append(sw, verifsimrt.Switch{Task: s.Task, Step: at, To: s.To})
	}
	// --- scheduled run on one shared set of objects ---
	obj := f.build(p.Seed)
	out := make([][][]byte, nt)
	panics := make([]string, nt)
	for t := range p.Tasks {
		t := t
		bodies[t] = func() {
			defer func() {
				if e := recover(); e != nil {
					panics[t] = fmt.Sprint(e)
				}
			}()
			for _, o := range p.Tasks[t] {
				out[t] = append(out[t], obj.ops[o.K](o.A))
			}
		}
	}
	res := verifsimrt.Run(bodies, sw, false)
	run.Tick(int(res.Fired))
	if res.Fired > 0 {
		run.Fault("schedule:preemption")
		run.Faults["schedule:preemption"] += int(res.Fired) - 1
	}
	if f.cold {
		// what a cold run executes depends, by design, on what the process did before it (the
		// first use builds what later uses find): the statement counts are not part of the
		// event, only what the tasks returned is compared
		run.Event("sched", "run", nt)
	} else {
		run.Event("sched", "run", nt, res.Fired, res.Steps)
	}
	if f.late {
		buildCounter = nt // the same per-run labels as the shared set
		lateObj := f.build(p.Seed)
		for t := range p.Tasks {
			ref[t] = ref[t][:0]
			for _, o := range p.Tasks[t] {
				ref[t] = append(ref[t], lateObj.ops[o.K](o.A))
			}
		}
		run.Probe("expected-values-computed-after-the-scheduled-run")
	}
	// the tasks of the cold / own families run honest, self-contained protocols: a failure
	// marker ("!!FAILED: …") is a failure of the library whoever reports it — the scheduled task, or the
	// sequential reference of a LATER run in a process whose package-level state was left wrong
	for t := range p.Tasks {
		for i := range p.Tasks[t] {
			for _, o := range [][]byte{at(out, t, i), at(ref, t, i)} {
				// (the marker is long: outputs of other kinds are digests and keys, i.e. random bytes)
				if (f.name == "cold" || f.name == "own") && bytes.HasPrefix(o, []byte("!!FAILED: ")) {
					run.Violate(comp+"."+p.Tasks[t][i].K, "honest-self-contained-call-fails", "task %d op %d (%s) reports %q (schedule %v)", t, i, p.Tasks[t][i].K, o, sw)
					return
				}
			}
		}
	}
	for t := range p.Tasks {
		if panics[t] != "" {
			run.Violate(comp, "concurrent-call-panics", "task %d panicked under the schedule %v: %s", t, sw, panics[t])
			return
		}
		for i, o := range p.Tasks[t] {
			run.T(o.K)
			if i >= len(out[t]) || !bytes.Equal(out[t][i], ref[t][i]) {
				var got []byte
				if i < len(out[t]) {
					got = out[t][i]
				}
				run.Violate(comp+"."+o.K, "concurrent-call-differs-from-sequential", "task %d op %d (%s) on the shared object returned %s under the schedule %v; alone on an equal fresh object it returns %s", t, i, o.K, sh(got), sw, sh(ref[t][i]))
				return
			}
		}
	}
}

func sh(b []byte) string {
	if len(b) > 32 {
		return fmt.Sprintf("%x…(%d bytes)", b[:32], len(b))
	}
	return fmt.Sprintf("%x", b)
}

func main() {
	race := os.Getenv("VERIF_RACE_BINARY") == "1"
	runs := map[string]int{"quick": 3200, "thorough": 150000}
	if race {
		runs = map[string]int{"quick": 320, "thorough": 12000}
	}
	core.Main(&core.Property{
		ID:    "C11",
		Level: "exploration",
		Rule:  "schedules: per family (BLS keys in both groups, HPKE X25519/X448/P-256/P-384/hybrid/X-Wing private keys, OPRF keys, threshold-RSA key shares with a lazily filled cache, KEM and signature keys restored from bytes, group constants with a shared expander) 2..4 caller tasks run 1..3 read-only calls each on ONE shared object set under a seeded scheduler with 0..3 planned pre-emptions (uniform over the task's statements, right after entry, right after its k-th shared write, right after its k-th sync / atomic operation); directed: for every family, every op kind run by two tasks at once (the race oracle needs no particular pre-emption point for these) with a grid of pre-emption points spread over the whole first call, and pre-emption of the first user right after each of its first shared writes / sync operations / statements; oracle: every call returns what it returns when its task runs alone on equal fresh objects, and (race build) ThreadSanitizer reports nothing. non-trivial = at least one pre-emption fired; distinct = distinct (family, op kinds) trace",
		Assumptions: []string{
			"only operations whose contract is read-only are run concurrently; two tasks never mutate the same receiver",
			"the instrumented copy differs from the library only by calls spliced in front of statements (yieldgen); library-internal goroutines (tss/rsa parallel blinding) are not scheduled and are not used by the task programs",
			"ThreadSanitizer's bounded shadow history may miss an old access: a missed report loses detection, never soundness",
		},
		Components: map[string]string{
			"all circl packages (instrumented copies through go build -overlay)": "real",
			"goroutine scheduling of the caller tasks":                           "stub: seeded scheduler (verifsimrt), race-detector-invisible hand-off",
			"expected results": "model: the same task alone on equal fresh objects",
		},
		ProbeNames:  []string{"preempt-right-after-shared-write", "preempt-right-after-sync-operation"},
		Directed:    directed,
		Gen:         gen,
		Exec:        exec,
		ChildPerRun: race,
		Isolate:     !race,
		Runs:        runs,
		WallCap:     map[string]time.Duration{"quick": 80 * time.Second, "thorough": 12 * time.Minute},
		ChildEnv:    []string{"GORACE=halt_on_error=1 exitcode=66 history_size=7"},
	})
}
