package codec

import (
	"circlsim/core"

	"github.com/cloudflare/circl/ecc/bls12381/ff"
	"github.com/cloudflare/circl/vdaf/prio3/count"
	"github.com/cloudflare/circl/vdaf/prio3/histogram"
	prio3shim "github.com/cloudflare/circl/vdaf/prio3/verifshim"
)

type prioParams = prio3shim.Params

type prioMsg interface {
	MarshalBinary() ([]byte, error)
	UnmarshalBinary([]byte) error
}

// prioSession runs one honest report through a Prio3 instance and returns the
// marshalled protocol messages by name.
func prioMessages(kind string, seed uint64) (map[string][]byte, *prioParams) {
	r := core.NewPRNG(seed + 900)
	out := map[string][]byte{}
	put := func(n string, m prioMsg) {
		b, err := m.MarshalBinary()
		if err != nil {
			panic("HARNESS: prio3 marshal " + n + ": " + err.Error())
		}
		out[n] = b
	}
	if kind == "count" {
		c, err := count.New(2, []byte("ctx"))
		if err != nil {
			panic("HARNESS: count.New")
		}
		par := c.Params()
		var nonce count.Nonce
		var vk count.VerifyKey
		copy(nonce[:], r.Bytes(16))
		copy(vk[:], r.Bytes(32))
		pub, in, err := c.Shard(seed&1 == 1, &nonce, r.Bytes(int(par.RandSize())))
		if err != nil {
			panic("HARNESS: count.Shard")
		}
		put("PublicShare", &pub)
		put("InputShare(leader)", &in[0])
		put("InputShare(helper)", &in[1])
		var shares []count.PrepShare
		var states []*count.PrepState
		for i := 0; i < 2; i++ {
			st, sh, err := c.PrepInit(&vk, &nonce, uint8(i), pub, in[i])
			if err != nil {
				panic("HARNESS: count.PrepInit")
			}
			states, shares = append(states, st), append(shares, *sh)
		}
		put("PrepShare", &shares[0])
		put("PrepState", states[0])
		msg, err := c.PrepSharesToPrep(shares)
		if err != nil {
			panic("HARNESS: count.PrepSharesToPrep")
		}
		put("PrepMessage", msg)
		o, err := c.PrepNext(states[0], msg)
		if err != nil {
			panic("HARNESS: count.PrepNext")
		}
		put("OutShare", o)
		agg := c.AggregateInit()
		c.AggregateUpdate(&agg, o)
		put("AggShare", &agg)
		return out, &par
	}
	h, err := histogram.New(2, 5, 2, []byte("ctx"))
	if err != nil {
		panic("HARNESS: histogram.New")
	}
	par := h.Params()
	var nonce histogram.Nonce
	var vk histogram.VerifyKey
	copy(nonce[:], r.Bytes(16))
	copy(vk[:], r.Bytes(32))
	pub, in, err := h.Shard(seed%5, &nonce, r.Bytes(int(par.RandSize())))
	if err != nil {
		panic("HARNESS: histogram.Shard")
	}
	put("PublicShare", &pub)
	put("InputShare(leader)", &in[0])
	put("InputShare(helper)", &in[1])
	var shares []histogram.PrepShare
	var states []*histogram.PrepState
	for i := 0; i < 2; i++ {
		st, sh, err := h.PrepInit(&vk, &nonce, uint8(i), pub, in[i])
		if err != nil {
			panic("HARNESS: histogram.PrepInit")
		}
		states, shares = append(states, st), append(shares, *sh)
	}
	put("PrepShare", &shares[0])
	put("PrepState", states[0])
	msg, err := h.PrepSharesToPrep(shares)
	if err != nil {
		panic("HARNESS: histogram.PrepSharesToPrep")
	}
	put("PrepMessage", msg)
	o, err := h.PrepNext(states[0], msg)
	if err != nil {
		panic("HARNESS: histogram.PrepNext")
	}
	put("OutShare", o)
	agg := h.AggregateInit()
	h.AggregateUpdate(&agg, o)
	put("AggShare", &agg)
	return out, &par
}

func init() {
	type mk func(p *prioParams) prioMsg
	fresh := map[string]map[string]mk{
		"count": {
			"PublicShare":        func(p *prioParams) prioMsg { return new(count.PublicShare).New(p) },
			"InputShare(leader)": func(p *prioParams) prioMsg { return new(count.InputShare).New(p, 0) },
			"InputShare(helper)": func(p *prioParams) prioMsg { return new(count.InputShare).New(p, 1) },
			"PrepShare":          func(p *prioParams) prioMsg { return new(count.PrepShare).New(p) },
			"PrepState":          func(p *prioParams) prioMsg { return new(count.PrepState).New(p) },
			"PrepMessage":        func(p *prioParams) prioMsg { return new(count.PrepMessage).New(p) },
			"OutShare":           func(p *prioParams) prioMsg { return new(count.OutShare).New(p) },
			"AggShare":           func(p *prioParams) prioMsg { return new(count.AggShare).New(p) },
		},
		"histogram": {
			"PublicShare":        func(p *prioParams) prioMsg { return new(histogram.PublicShare).New(p) },
			"InputShare(leader)": func(p *prioParams) prioMsg { return new(histogram.InputShare).New(p, 0) },
			"InputShare(helper)": func(p *prioParams) prioMsg { return new(histogram.InputShare).New(p, 1) },
			"PrepShare":          func(p *prioParams) prioMsg { return new(histogram.PrepShare).New(p) },
			"PrepState":          func(p *prioParams) prioMsg { return new(histogram.PrepState).New(p) },
			"PrepMessage":        func(p *prioParams) prioMsg { return new(histogram.PrepMessage).New(p) },
			"OutShare":           func(p *prioParams) prioMsg { return new(histogram.OutShare).New(p) },
			"AggShare":           func(p *prioParams) prioMsg { return new(histogram.AggShare).New(p) },
		},
	}
	for _, kind := range []string{"count", "histogram"} {
		for name, f := range fresh[kind] {
			kind, name, f := kind, name, f
			var params *prioParams
			Register(&Entry{Name: "prio3[" + kind + "]." + name + ".UnmarshalBinary", Seeds: 3, Cost: 3,
				Valid: func(seed uint64) []byte {
					m, p := prioMessages(kind, seed)
					params = p
					return m[name]
				},
				Reuse: func() func(in []byte) Result {
					if params == nil {
						_, params = prioMessages(kind, 0)
					}
					m := f(params)
					return func(in []byte) Result {
						err := m.UnmarshalBinary(in)
						m.MarshalBinary()
						return Result{Accepted: err == nil}
					}
				},
				Call: func(in []byte) Result {
					if params == nil {
						_, params = prioMessages(kind, 0)
					}
					m := f(params)
					if m.UnmarshalBinary(in) != nil {
						return Result{}
					}
					m.MarshalBinary()
					return Result{Accepted: true}
				}})
		}
	}
	// remaining ff decoders
	Register(&Entry{Name: "bls12381/ff.Fp6.UnmarshalBinary", Cost: 2,
		Valid: func(seed uint64) []byte {
			var f ff.Fp6
			for j := 0; j < 3; j++ {
				for k := 0; k < 2; k++ {
					f[j][k].SetBytes(seedBytes(seed+uint64(j*2+k), 64))
				}
			}
			b, _ := f.MarshalBinary()
			return b
		},
		Call: func(in []byte) Result { var f ff.Fp6; return Result{Accepted: f.UnmarshalBinary(in) == nil} }})
	Register(&Entry{Name: "bls12381/ff.URoot.UnmarshalBinary", Cost: 2,
		Valid: func(seed uint64) []byte {
			var f ff.Fp12
			f.SetOne()
			b, _ := f.MarshalBinary()
			return b
		},
		Call: func(in []byte) Result { var u ff.URoot; return Result{Accepted: u.UnmarshalBinary(in) == nil} }})
}
