//go:build verif

// Package verifsimrt is the runtime of circlsim's seeded scheduler. It is mapped
// into the circl module by go build -overlay together with instrumented copies
// of the library sources that call P / PW in front of every statement; nothing
// of it is committed to /repo.
//
// Tasks are real goroutines, but only the task whose id equals `turn` runs; the
// others spin. All scheduler state is touched only inside //go:norace functions,
// so the hand-off is invisible to the race detector and creates no
// happens-before edge: in a -race build ThreadSanitizer still reports every pair
// of conflicting unsynchronised accesses on the explored interleaving.
package verifsimrt

import (
	"runtime"
	"sync"
	"time"
)

// Switch: when task Task has executed Step instrumented statements, hand the
// processor to task To (if it can run).
//
// With Sync > 0 the switch point is not a statement number but "right after the
// statement holding the task's Sync-th sync / atomic call" (resolved while the
// task runs: no earlier counting pass is needed, so the first use of package-level
// state can itself be scheduled).
type Switch struct {
	Task int
	Step uint64
	To   int
	Sync uint64
}

type taskState struct {
	steps    uint64
	pw       uint64   // shared-write-ish sites hit
	pwSteps  []uint64 // step numbers at which PW sites were hit (recorded in counting mode)
	psSteps  []uint64 // step numbers at which statements with a sync / atomic call were hit
	done     bool
	switches []Switch // sorted by Step
	next     int      // index into switches
	syncSw   []Switch // switches given by sync-operation index
	ps       uint64   // sync / atomic sites hit
	armStep  uint64   // statement number at which an armed sync switch is taken (0 = none)
	armTo    int
}

var (
	on       bool
	turn     int32 = -1
	tasks    []*taskState
	cur      int32
	recordPW bool
	depth    int32 // >0: inside a critical section, switches are deferred
	pending  int32 = -1
	hangs    uint64
	// Fired counts the switches that were actually taken.
	fired uint64
)

// P is called in front of every statement of the instrumented library.
func P(site int) {
	if !on {
		return
	}
	step(false)
}

// PW is called in front of statements that write through a selector / index or
// to a package-level variable.
func PW(site int) {
	if !on {
		return
	}
	step(true)
}

// PS is called in front of statements that contain a call on a sync or sync/atomic
// object (Load, Store, LoadOrStore, CompareAndSwap, Lock, Do, ...): the statement
// executed next is "right after the synchronisation operation", the classic place
// where a publish-then-fill or check-then-act window opens.
func PS(site int) {
	if !on {
		return
	}
	stepSync()
}

//go:norace
//go:noinline
func stepSync() {
	t := tasks[cur]
	if recordPW && len(t.psSteps) < 4096 {
		t.psSteps = append(t.psSteps, t.steps+1)
	}
	t.ps++
	for _, s := range t.syncSw {
		if s.Sync == t.ps && t.armStep == 0 {
			t.armStep, t.armTo = t.steps+2, s.To // the statement after this one
		}
	}
	step(true)
}

//go:norace
//go:noinline
func step(write bool) {
	t := tasks[cur]
	t.steps++
	if write {
		t.pw++
		if recordPW && len(t.pwSteps) < 4096 {
			t.pwSteps = append(t.pwSteps, t.steps)
		}
	}
	if t.armStep != 0 && t.steps >= t.armStep {
		to := t.armTo
		t.armStep = 0
		if depth > 0 {
			pending = int32(to)
			return
		}
		yieldTo(int32(to))
		return
	}
	if t.next < len(t.switches) && t.steps >= t.switches[t.next].Step {
		to := t.switches[t.next].To
		t.next++
		if depth > 0 {
			pending = int32(to)
			return
		}
		yieldTo(int32(to))
	}
}

//go:norace
//go:noinline
func yieldTo(to int32) {
	me := cur
	if to < 0 || int(to) >= len(tasks) || tasks[to].done || to == me {
		return
	}
	fired++
	cur = to
	turn = to
	waitTurn(me)
}

//go:norace
//go:noinline
func waitTurn(id int32) {
	n := 0
	for turn != id {
		runtime.Gosched()
		n++
		if n&63 == 0 {
			time.Sleep(5 * time.Microsecond)
		}
	}
	cur = id
}

//go:norace
//go:noinline
func finish(id int32) {
	tasks[id].done = true
	// hand over to the lowest-numbered task that is not done
	for i := range tasks {
		if !tasks[i].done {
			cur = int32(i)
			turn = int32(i)
			return
		}
	}
	turn = -2
}

// Enter / Exit bracket critical sections of the library (mutex, sync.Once): a
// switch point that falls inside is taken at the matching Exit, so that no task
// is parked while it holds a lock another task may block on.
//
//go:norace
//go:noinline
func Enter() {
	if on {
		depth++
	}
}

//go:norace
//go:noinline
func Exit() {
	if !on {
		return
	}
	depth--
	if depth == 0 && pending >= 0 {
		to := pending
		pending = -1
		yieldTo(to)
	}
}

// Result of one scheduled execution.
type Result struct {
	Steps   []uint64   // statements executed per task
	PW      []uint64   // shared-write-ish sites hit per task
	PWSteps [][]uint64 // per task: the step numbers of PW hits (counting mode only)
	PSSteps [][]uint64 // per task: the step numbers of statements with a sync / atomic call (counting mode only)
	Fired   uint64
}

//go:norace
func setup(n int, sw []Switch, rec bool) {
	tasks = make([]*taskState, n)
	for i := range tasks {
		tasks[i] = &taskState{}
	}
	for _, s := range sw {
		if s.Task >= 0 && s.Task < n {
			if s.Sync > 0 {
				tasks[s.Task].syncSw = append(tasks[s.Task].syncSw, s)
				continue
			}
			tasks[s.Task].switches = append(tasks[s.Task].switches, s)
		}
	}
	for _, t := range tasks {
		for i := 1; i < len(t.switches); i++ {
			for j := i; j > 0 && t.switches[j].Step < t.switches[j-1].Step; j-- {
				t.switches[j], t.switches[j-1] = t.switches[j-1], t.switches[j]
			}
		}
	}
	recordPW = rec
	depth, pending, fired = 0, -1, 0
	cur, turn = 0, 0
	on = true
}

//go:norace
func teardown() Result {
	on = false
	r := Result{Fired: fired}
	for _, t := range tasks {
		r.Steps = append(r.Steps, t.steps)
		r.PW = append(r.PW, t.pw)
		r.PWSteps = append(r.PWSteps, t.pwSteps)
		r.PSSteps = append(r.PSSteps, t.psSteps)
	}
	return r
}

// Run executes the task bodies as goroutines under the seeded schedule: task 0
// starts; a task runs until one of its planned switch points or its end. With no
// switches the tasks simply run one after the other (the sequential reference).
func Run(bodies []func(), switches []Switch, recordPWSteps bool) Result {
	setup(len(bodies), switches, recordPWSteps)
	var wg sync.WaitGroup
	for i := range bodies {
		wg.Add(1)
		go func(id int32, body func()) {
			defer wg.Done()
			waitTurn(id)
			defer finish(id)
			body()
		}(int32(i), bodies[i])
	}
	wg.Wait()
	return teardown()
}
