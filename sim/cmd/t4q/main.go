package main

import (
	"fmt"

	"circlsim/core"

	"github.com/cloudflare/circl/dh/curve4q"
	"github.com/cloudflare/circl/ecc/fourq"
)

func edgeBytes(seed uint64, n int) []byte {
	r := core.NewPRNG(seed)
	b := make([]byte, n)
	switch r.Intn(8) {
	case 0:
		for i := range b {
			b[i] = 0xff
		}
	case 1:
		limbs := []uint64{0, 1, 2, 18, 19, 20, 37, 38, 39, 1<<32 - 1, 1 << 32, 1 << 63, ^uint64(0) - 18, ^uint64(0) - 37, ^uint64(0) - 1, ^uint64(0)}
		for i := 0; i+8 <= n; i += 8 {
			v := limbs[r.Intn(len(limbs))]
			for j := 0; j < 8; j++ {
				b[i+j] = byte(v >> (8 * j))
			}
		}
	case 2:
		for i := range b {
			b[i] = 0xff
		}
		b[0] = byte(0xed - r.Intn(4) + r.Intn(8))
		if n == 32 {
			b[31] = 0x7f
		}
	case 3:
		b[0] = byte(r.Intn(3))
	default:
		r.Fill(b)
	}
	return b
}

func main() {
	var a, b uint64
	fmt.Sscan("16209", &a)
	_ = b
	for _, ab := range [][2]uint64{{16209113123659526315, 16084645818484414875}} {
		var sk, other, sh curve4q.Key
		copy(sk[:], edgeBytes(ab[0], 32))
		copy(other[:], edgeBytes(ab[1], 32))
		fmt.Printf("sk=%x other=%x\n", sk, other)
		var P, Q fourq.Point
		buf := [32]byte(other)
		ok := P.Unmarshal(&buf)
		fmt.Println("unmarshal", ok, P.IsOnCurve())
		ssk := [32]byte(sk)
		Q.ScalarMult(&ssk, &P)
		var out [32]byte
		Q.Marshal(&out)
		fmt.Printf("Q=%x id=%v oncurve=%v\n", out, Q.IsIdentity(), Q.IsOnCurve())
		fmt.Println(curve4q.Shared(&sh, &sk, &other), fmt.Sprintf("%x", sh))
	}
}
