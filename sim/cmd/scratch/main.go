package main

import (
	"fmt"

	"circlsim/refmodel/asconref"
	"circlsim/refmodel/h2c"
)

func main() {
	fmt.Println(h2c.Selftest("/verif/fixtures/rfc9380"))
	fmt.Println(asconref.Selftest("/verif/fixtures/ascon"))
}
