package core

import (
	"bytes"
	"encoding/json"
	"fmt"
	"os"
	"strconv"
	"sync"
	"time"
)

// Generic delta-debugging over the explicit JSON structure of a plan: drop
// array elements (halves, then singles), shrink integers towards 0, shorten hex
// strings, clear booleans. A candidate is kept only when a fresh child process
// reports the SAME violation key. Budget-capped.

type path []any // string (object key) or int (array index)

func decodeNum(b []byte) any {
	d := json.NewDecoder(bytes.NewReader(b))
	d.UseNumber()
	var v any
	if d.Decode(&v) != nil {
		return nil
	}
	return v
}

func clone(v any) any {
	switch x := v.(type) {
	case map[string]any:
		m := make(map[string]any, len(x))
		for k, e := range x {
			m[k] = clone(e)
		}
		return m
	case []any:
		a := make([]any, len(x))
		for i, e := range x {
			a[i] = clone(e)
		}
		return a
	}
	return v
}

func getAt(v any, p path) any {
	for _, s := range p {
		switch k := s.(type) {
		case string:
			v = v.(map[string]any)[k]
		case int:
			v = v.([]any)[k]
		}
	}
	return v
}

func setAt(root any, p path, nv any) any {
	if len(p) == 0 {
		return nv
	}
	parent := getAt(root, p[:len(p)-1])
	switch k := p[len(p)-1].(type) {
	case string:
		parent.(map[string]any)[k] = nv
	case int:
		parent.([]any)[k] = nv
	}
	return root
}

func walk(v any, p path, f func(p path, v any)) {
	f(p, v)
	switch x := v.(type) {
	case map[string]any:
		keys := make([]string, 0, len(x))
		for k := range x {
			keys = append(keys, k)
		}
		// deterministic order
		for i := 0; i < len(keys); i++ {
			for j := i + 1; j < len(keys); j++ {
				if keys[j] < keys[i] {
					keys[i], keys[j] = keys[j], keys[i]
				}
			}
		}
		for _, k := range keys {
			walk(x[k], append(append(path{}, p...), k), f)
		}
	case []any:
		for i, e := range x {
			walk(e, append(append(path{}, p...), i), f)
		}
	}
}

func isHex(s string) bool {
	if len(s) == 0 || len(s)%2 != 0 {
		return false
	}
	for _, c := range s {
		if !(c >= '0' && c <= '9' || c >= 'a' && c <= 'f') {
			return false
		}
	}
	return true
}

// candidates returns simpler variants of root, most aggressive first.
func candidates(root any) []any {
	var out []any
	add := func(p path, nv any) {
		c := clone(root)
		out = append(out, setAt(c, p, nv))
	}
	// pass 1: arrays
	walk(root, nil, func(p path, v any) {
		a, ok := v.([]any)
		if !ok || len(a) == 0 {
			return
		}
		if len(a) >= 4 {
			add(p, clone(a[:len(a)/2]))
			add(p, clone(a[len(a)/2:]))
		}
		if len(a) <= 24 {
			for i := range a {
				na := append(append([]any{}, a[:i]...), a[i+1:]...)
				add(p, clone(na))
			}
		} else {
			add(p, clone(a[:len(a)-1]))
			add(p, clone(a[1:]))
		}
	})
	// pass 2: scalars
	walk(root, nil, func(p path, v any) {
		switch x := v.(type) {
		case json.Number:
			if n, err := strconv.ParseInt(string(x), 10, 64); err == nil && n != 0 {
				add(p, json.Number("0"))
				if n/2 != 0 {
					add(p, json.Number(strconv.FormatInt(n/2, 10)))
				}
				if n > 1 {
					add(p, json.Number(strconv.FormatInt(n-1, 10)))
				}
			}
		case string:
			if isHex(x) {
				if len(x) > 2 {
					add(p, x[:(len(x)/4)*2])
				}
				add(p, "")
				allz := true
				for _, c := range x {
					if c != '0' {
						allz = false
					}
				}
				if !allz && len(x) <= 256 {
					z := make([]byte, len(x))
					for i := range z {
						z[i] = '0'
					}
					add(p, string(z))
				}
			}
		case bool:
			if x {
				add(p, false)
			}
		}
	})
	return out
}

func (p *Property) shrink(plan []byte, key string) ([]byte, string) {
	root := decodeNum(plan)
	if root == nil {
		return plan, "plan not decodable"
	}
	budget := 300
	if v := os.Getenv("VERIF_SHRINK_BUDGET"); v != "" {
		budget, _ = strconv.Atoi(v)
	}
	deadline := time.Now().Add(90 * time.Second)
	tried, kept := 0, 0
	startLen := len(plan)
	improved := true
	for improved && tried < budget && time.Now().Before(deadline) {
		improved = false
		cands := candidates(root)
		// evaluate in parallel batches, accept the first (in order) that reproduces
		const batch = 12
		for i := 0; i < len(cands) && tried < budget && time.Now().Before(deadline); i += batch {
			end := i + batch
			if end > len(cands) {
				end = len(cands)
			}
			ok := make([]bool, end-i)
			var wg sync.WaitGroup
			for j := i; j < end; j++ {
				wg.Add(1)
				go func(j int) {
					defer wg.Done()
					b, err := json.Marshal(cands[j])
					if err != nil {
						return
					}
					res, err := p.execInChild(b, false)
					if err != nil || res.Invalid {
						return
					}
					_, ok[j-i] = hasKey(res.Viol, key)
				}(j)
			}
			wg.Wait()
			tried += end - i
			for j := range ok {
				if ok[j] {
					root = cands[i+j]
					kept++
					improved = true
					break
				}
			}
			if improved {
				break
			}
		}
	}
	b, err := json.Marshal(root)
	if err != nil {
		return plan, "marshal failed"
	}
	return b, fmt.Sprintf("candidates tried=%d kept=%d bytes %d->%d", tried, kept, startLen, len(b))
}
