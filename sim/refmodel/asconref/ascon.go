// Package asconref is a reference model of Ascon-128, Ascon-128a and
// Ascon-80pq (Ascon v1.2 specification, section 2), written from the
// specification with the state as five 64-bit words.
package asconref

import (
	"bytes"
	"encoding/binary"
	"encoding/hex"
	"encoding/json"
	"errors"
	"fmt"
	"math/bits"
	"os"
)

type Variant int

const (
	V128 Variant = iota
	V128a
	V80pq
)

func (v Variant) params() (klen, rate, a, b int) {
	switch v {
	case V128:
		return 16, 8, 12, 6
	case V128a:
		return 16, 16, 12, 8
	default:
		return 20, 8, 12, 6
	}
}

func perm(s *[5]uint64, rounds int) {
	for r := 12 - rounds; r < 12; r++ {
		s[2] ^= uint64((0xf-r)<<4 | r)
		// substitution layer
		s[0] ^= s[4]
		s[4] ^= s[3]
		s[2] ^= s[1]
		t0 := ^s[0] & s[1]
		t1 := ^s[1] & s[2]
		t2 := ^s[2] & s[3]
		t3 := ^s[3] & s[4]
		t4 := ^s[4] & s[0]
		s[0] ^= t1
		s[1] ^= t2
		s[2] ^= t3
		s[3] ^= t4
		s[4] ^= t0
		s[1] ^= s[0]
		s[0] ^= s[4]
		s[3] ^= s[2]
		s[2] = ^s[2]
		// linear diffusion layer
		s[0] ^= bits.RotateLeft64(s[0], -19) ^ bits.RotateLeft64(s[0], -28)
		s[1] ^= bits.RotateLeft64(s[1], -61) ^ bits.RotateLeft64(s[1], -39)
		s[2] ^= bits.RotateLeft64(s[2], -1) ^ bits.RotateLeft64(s[2], -6)
		s[3] ^= bits.RotateLeft64(s[3], -10) ^ bits.RotateLeft64(s[3], -17)
		s[4] ^= bits.RotateLeft64(s[4], -7) ^ bits.RotateLeft64(s[4], -41)
	}
}

func toBytes(s *[5]uint64) []byte {
	b := make([]byte, 40)
	for i := 0; i < 5; i++ {
		binary.BigEndian.PutUint64(b[8*i:], s[i])
	}
	return b
}

func fromBytes(b []byte) (s [5]uint64) {
	for i := 0; i < 5; i++ {
		s[i] = binary.BigEndian.Uint64(b[8*i:])
	}
	return
}

func xorAt(s *[5]uint64, off int, data []byte) {
	b := toBytes(s)
	for i, x := range data {
		b[off+i] ^= x
	}
	*s = fromBytes(b)
}

func pad(data []byte, rate int) []byte {
	out := append(append([]byte{}, data...), 0x80)
	for len(out)%rate != 0 {
		out = append(out, 0)
	}
	return out
}

func process(v Variant, key, nonce, ad, in []byte, decrypt bool) (out, tag []byte) {
	klen, rate, a, b := v.params()
	if len(key) != klen || len(nonce) != 16 {
		panic("HARNESS: asconref: bad key/nonce length")
	}
	iv := []byte{byte(klen * 8), byte(rate * 8), byte(a), byte(b)}
	st := make([]byte, 40)
	copy(st, iv)
	copy(st[40-16-klen:], key)
	copy(st[24:], nonce)
	s := fromBytes(st)
	perm(&s, a)
	xorAt(&s, 40-klen, key)
	if len(ad) > 0 {
		p := pad(ad, rate)
		for i := 0; i < len(p); i += rate {
			xorAt(&s, 0, p[i:i+rate])
			perm(&s, b)
		}
	}
	s[4] ^= 1
	// text
	full := len(in) / rate * rate
	for i := 0; i < full; i += rate {
		blk := in[i : i+rate]
		sb := toBytes(&s)
		if !decrypt {
			xorAt(&s, 0, blk)
			out = append(out, toBytes(&s)[:rate]...)
		} else {
			pt := make([]byte, rate)
			for j := range pt {
				pt[j] = sb[j] ^ blk[j]
			}
			out = append(out, pt...)
			copy(sb, blk)
			s = fromBytes(sb)
		}
		perm(&s, b)
	}
	last := in[full:]
	sb := toBytes(&s)
	if !decrypt {
		xorAt(&s, 0, pad(last, rate)[:rate])
		out = append(out, toBytes(&s)[:len(last)]...)
	} else {
		pt := make([]byte, len(last))
		for j := range pt {
			pt[j] = sb[j] ^ last[j]
		}
		out = append(out, pt...)
		copy(sb, last)
		sb[len(last)] ^= 0x80
		s = fromBytes(sb)
	}
	// finalisation
	xorAt(&s, rate, key)
	perm(&s, a)
	fb := toBytes(&s)
	tag = make([]byte, 16)
	for i := 0; i < 16; i++ {
		tag[i] = fb[24+i] ^ key[klen-16+i]
	}
	return out, tag
}

// Seal returns ciphertext || tag.
func Seal(v Variant, key, nonce, ad, pt []byte) []byte {
	ct, tag := process(v, key, nonce, ad, pt, false)
	return append(ct, tag...)
}

var ErrOpen = errors.New("asconref: authentication failed")

func Open(v Variant, key, nonce, ad, ct []byte) ([]byte, error) {
	if len(ct) < 16 {
		return nil, ErrOpen
	}
	pt, tag := process(v, key, nonce, ad, ct[:len(ct)-16], true)
	if !bytes.Equal(tag, ct[len(ct)-16:]) {
		return nil, ErrOpen
	}
	return pt, nil
}

// Selftest runs the LWC known-answer files (dir holds Ascon128.json, …).
func Selftest(dir string) error {
	for v, name := range map[Variant]string{V128: "Ascon128.json", V128a: "Ascon128a.json", V80pq: "Ascon80pq.json"} {
		raw, err := os.ReadFile(dir + "/" + name)
		if err != nil {
			return err
		}
		var kats []struct{ Key, Nonce, PT, AD, CT string }
		if err := json.Unmarshal(raw, &kats); err != nil {
			return err
		}
		if len(kats) < 1000 {
			return fmt.Errorf("ascon model: only %d vectors in %s", len(kats), name)
		}
		for i, k := range kats {
			key, _ := hex.DecodeString(k.Key)
			nonce, _ := hex.DecodeString(k.Nonce)
			pt, _ := hex.DecodeString(k.PT)
			ad, _ := hex.DecodeString(k.AD)
			ct, _ := hex.DecodeString(k.CT)
			if !bytes.Equal(Seal(v, key, nonce, ad, pt), ct) {
				return fmt.Errorf("ascon model: %s vector %d seal mismatch", name, i+1)
			}
			got, err := Open(v, key, nonce, ad, ct)
			if err != nil || !bytes.Equal(got, pt) {
				return fmt.Errorf("ascon model: %s vector %d open mismatch", name, i+1)
			}
		}
	}
	return nil
}
