// Package hpkeref is a small reference model of RFC 9180 written from the RFC
// text (sections 4, 5, 7.1): DHKEM over P-256/P-384/P-521/X25519/X448, the
// labelled KDF functions, the key schedule, nonce = base_nonce XOR seq, and the
// secret export interface. Trusted parts: crypto/ecdh, crypto/aes+cipher,
// x/crypto/chacha20poly1305, x/crypto/hkdf; X448 is a big-integer Montgomery
// ladder (same generic code as the X25519 instance which is validated against
// crypto/ecdh).
package hpkeref

import (
	"crypto/aes"
	"crypto/cipher"
	"crypto/ecdh"
	"crypto/elliptic"
	"crypto/sha256"
	"crypto/sha512"
	"encoding/binary"
	"errors"
	"hash"
	"io"
	"math/big"

	"golang.org/x/crypto/chacha20poly1305"
	"golang.org/x/crypto/hkdf"
)

const (
	KEMP256   = 0x10
	KEMP384   = 0x11
	KEMP521   = 0x12
	KEMX25519 = 0x20
	KEMX448   = 0x21

	KDFSHA256 = 1
	KDFSHA384 = 2
	KDFSHA512 = 3

	AEADAES128 = 1
	AEADAES256 = 2
	AEADCHACHA = 3
)

type Suite struct{ KEM, KDF, AEAD uint16 }

func kdfHash(id uint16) func() hash.Hash {
	switch id {
	case KDFSHA256:
		return sha256.New
	case KDFSHA384:
		return sha512.New384
	case KDFSHA512:
		return sha512.New
	}
	return nil
}

func Nh(kdf uint16) int { return kdfHash(kdf)().Size() }

func kemHash(kem uint16) func() hash.Hash {
	switch kem {
	case KEMP256, KEMX25519:
		return sha256.New
	case KEMP384:
		return sha512.New384
	case KEMP521, KEMX448:
		return sha512.New
	}
	return nil
}

func Nk(aead uint16) int {
	switch aead {
	case AEADAES128:
		return 16
	case AEADAES256, AEADCHACHA:
		return 32
	}
	return 0
}

const Nn = 12

func i2osp(v, n int) []byte {
	b := make([]byte, n)
	for i := n - 1; i >= 0; i-- {
		b[i] = byte(v)
		v >>= 8
	}
	return b
}

func cat(parts ...[]byte) []byte {
	var out []byte
	for _, p := range parts {
		out = append(out, p...)
	}
	return out
}

func labeledExtract(h func() hash.Hash, suiteID, salt, label, ikm []byte) []byte {
	return hkdf.Extract(h, cat([]byte("HPKE-v1"), suiteID, label, ikm), salt)
}

func labeledExpand(h func() hash.Hash, suiteID, prk, label, info []byte, L int) []byte {
	li := cat(i2osp(L, 2), []byte("HPKE-v1"), suiteID, label, info)
	out := make([]byte, L)
	if L == 0 {
		return out
	}
	if _, err := io.ReadFull(hkdf.Expand(h, prk, li), out); err != nil {
		panic("HARNESS: hkdf expand: " + err.Error())
	}
	return out
}

func kemSuiteID(kem uint16) []byte { return cat([]byte("KEM"), i2osp(int(kem), 2)) }
func (s Suite) id() []byte {
	return cat([]byte("HPKE"), i2osp(int(s.KEM), 2), i2osp(int(s.KDF), 2), i2osp(int(s.AEAD), 2))
}

// ---- Montgomery ladder (RFC 7748) with big integers ----

type mont struct {
	p    *big.Int
	a24  *big.Int
	bits int
	n    int
}

var (
	p25519 = new(big.Int).Sub(new(big.Int).Lsh(big.NewInt(1), 255), big.NewInt(19))
	p448   = func() *big.Int {
		p := new(big.Int).Lsh(big.NewInt(1), 448)
		p.Sub(p, new(big.Int).Lsh(big.NewInt(1), 224))
		return p.Sub(p, big.NewInt(1))
	}()
	c25519 = mont{p25519, big.NewInt(121665), 255, 32}
	c448   = mont{p448, big.NewInt(39081), 448, 56}
)

func le2big(b []byte) *big.Int {
	r := make([]byte, len(b))
	for i := range b {
		r[len(b)-1-i] = b[i]
	}
	return new(big.Int).SetBytes(r)
}

func big2le(x *big.Int, n int) []byte {
	be := x.FillBytes(make([]byte, n))
	for i := 0; i < n/2; i++ {
		be[i], be[n-1-i] = be[n-1-i], be[i]
	}
	return be
}

// X computes the RFC 7748 function for scalar k and u-coordinate u.
func (c mont) X(k, u []byte) []byte {
	ks := append([]byte{}, k...)
	us := append([]byte{}, u...)
	if c.n == 32 {
		ks[0] &= 248
		ks[31] &= 127
		ks[31] |= 64
		us[31] &= 127
	} else {
		ks[0] &= 252
		ks[55] |= 128
	}
	kk := le2big(ks)
	x1 := le2big(us)
	x1.Mod(x1, c.p)
	x2, z2 := big.NewInt(1), big.NewInt(0)
	x3, z3 := new(big.Int).Set(x1), big.NewInt(1)
	swap := uint(0)
	mod := func(x *big.Int) *big.Int { return x.Mod(x, c.p) }
	for t := c.bits - 1; t >= 0; t-- {
		kt := kk.Bit(t)
		swap ^= kt
		if swap == 1 {
			x2, x3 = x3, x2
			z2, z3 = z3, z2
		}
		swap = kt
		A := mod(new(big.Int).Add(x2, z2))
		AA := mod(new(big.Int).Mul(A, A))
		B := mod(new(big.Int).Sub(x2, z2))
		BB := mod(new(big.Int).Mul(B, B))
		E := mod(new(big.Int).Sub(AA, BB))
		C := mod(new(big.Int).Add(x3, z3))
		D := mod(new(big.Int).Sub(x3, z3))
		DA := mod(new(big.Int).Mul(D, A))
		CB := mod(new(big.Int).Mul(C, B))
		x3 = mod(new(big.Int).Add(DA, CB))
		x3 = mod(x3.Mul(x3, x3))
		z3 = mod(new(big.Int).Sub(DA, CB))
		z3 = mod(z3.Mul(z3, z3))
		z3 = mod(z3.Mul(z3, x1))
		x2 = mod(new(big.Int).Mul(AA, BB))
		z2 = mod(new(big.Int).Mul(c.a24, E))
		z2 = mod(z2.Add(z2, AA))
		z2 = mod(z2.Mul(z2, E))
	}
	if swap == 1 {
		x2, x3 = x3, x2
		z2, z3 = z3, z2
	}
	zi := new(big.Int).Exp(z2, new(big.Int).Sub(c.p, big.NewInt(2)), c.p)
	r := mod(new(big.Int).Mul(x2, zi))
	return big2le(r, c.n)
}

func X25519(k, u []byte) []byte { return c25519.X(k, u) }
func X448(k, u []byte) []byte   { return c448.X(k, u) }

func base(n int) []byte {
	b := make([]byte, n)
	if n == 32 {
		b[0] = 9
	} else {
		b[0] = 5
	}
	return b
}

func allZero(b []byte) bool {
	v := byte(0)
	for _, x := range b {
		v |= x
	}
	return v == 0
}

// ---- DHKEM ----

func curve(kem uint16) ecdh.Curve {
	switch kem {
	case KEMP256:
		return ecdh.P256()
	case KEMP384:
		return ecdh.P384()
	case KEMP521:
		return ecdh.P521()
	}
	return nil
}

func order(kem uint16) *big.Int {
	switch kem {
	case KEMP256:
		return elliptic.P256().Params().N
	case KEMP384:
		return elliptic.P384().Params().N
	case KEMP521:
		return elliptic.P521().Params().N
	}
	return nil
}

func Nsk(kem uint16) int {
	switch kem {
	case KEMP256, KEMX25519:
		return 32
	case KEMP384:
		return 48
	case KEMP521:
		return 66
	case KEMX448:
		return 56
	}
	return 0
}

func Npk(kem uint16) int {
	switch kem {
	case KEMP256:
		return 65
	case KEMP384:
		return 97
	case KEMP521:
		return 133
	case KEMX25519:
		return 32
	case KEMX448:
		return 56
	}
	return 0
}

func IsDHKEM(kem uint16) bool { return Nsk(kem) != 0 }

// PublicFromPrivate computes Serialize(pk(sk)).
func PublicFromPrivate(kem uint16, sk []byte) ([]byte, error) {
	switch kem {
	case KEMX25519:
		return X25519(sk, base(32)), nil
	case KEMX448:
		return X448(sk, base(56)), nil
	}
	k, err := curve(kem).NewPrivateKey(sk)
	if err != nil {
		return nil, err
	}
	return k.PublicKey().Bytes(), nil
}

// DeriveKeyPair implements RFC 9180 section 7.1.3.
func DeriveKeyPair(kem uint16, ikm []byte) (sk, pk []byte, err error) {
	h := kemHash(kem)
	sid := kemSuiteID(kem)
	prk := labeledExtract(h, sid, nil, []byte("dkp_prk"), ikm)
	switch kem {
	case KEMX25519, KEMX448:
		sk = labeledExpand(h, sid, prk, []byte("sk"), nil, Nsk(kem))
	default:
		mask := byte(0xff)
		if kem == KEMP521 {
			mask = 0x01
		}
		n := order(kem)
		found := false
		for counter := 0; counter < 256; counter++ {
			b := labeledExpand(h, sid, prk, []byte("candidate"), i2osp(counter, 1), Nsk(kem))
			b[0] &= mask
			v := new(big.Int).SetBytes(b)
			if v.Sign() != 0 && v.Cmp(n) < 0 {
				sk = b
				found = true
				break
			}
		}
		if !found {
			return nil, nil, errors.New("DeriveKeyPairError")
		}
	}
	pk, err = PublicFromPrivate(kem, sk)
	return
}

// DH computes the Diffie-Hellman value; error on invalid / all-zero result.
func DH(kem uint16, sk, pk []byte) ([]byte, error) {
	switch kem {
	case KEMX25519, KEMX448:
		if len(pk) != Npk(kem) || len(sk) != Nsk(kem) {
			return nil, errors.New("bad length")
		}
		var r []byte
		if kem == KEMX25519 {
			r = X25519(sk, pk)
		} else {
			r = X448(sk, pk)
		}
		if allZero(r) {
			return nil, errors.New("all-zero DH value")
		}
		return r, nil
	}
	c := curve(kem)
	k, err := c.NewPrivateKey(sk)
	if err != nil {
		return nil, err
	}
	p, err := c.NewPublicKey(pk)
	if err != nil {
		return nil, err
	}
	return k.ECDH(p)
}

func extractAndExpand(kem uint16, dh, kemCtx []byte) []byte {
	h := kemHash(kem)
	sid := kemSuiteID(kem)
	prk := labeledExtract(h, sid, nil, []byte("eae_prk"), dh)
	return labeledExpand(h, sid, prk, []byte("shared_secret"), kemCtx, h().Size())
}

// Encap with the ephemeral key pair derived from ikmE (the derandomised form used by test vectors).
func Encap(kem uint16, pkR, ikmE []byte) (enc, ss []byte, err error) {
	skE, pkE, err := DeriveKeyPair(kem, ikmE)
	if err != nil {
		return nil, nil, err
	}
	dh, err := DH(kem, skE, pkR)
	if err != nil {
		return nil, nil, err
	}
	return pkE, extractAndExpand(kem, dh, cat(pkE, pkR)), nil
}

func Decap(kem uint16, enc, skR []byte) ([]byte, error) {
	dh, err := DH(kem, skR, enc)
	if err != nil {
		return nil, err
	}
	pkR, err := PublicFromPrivate(kem, skR)
	if err != nil {
		return nil, err
	}
	return extractAndExpand(kem, dh, cat(enc, pkR)), nil
}

func AuthEncap(kem uint16, pkR, skS, ikmE []byte) (enc, ss []byte, err error) {
	skE, pkE, err := DeriveKeyPair(kem, ikmE)
	if err != nil {
		return nil, nil, err
	}
	dh1, err := DH(kem, skE, pkR)
	if err != nil {
		return nil, nil, err
	}
	dh2, err := DH(kem, skS, pkR)
	if err != nil {
		return nil, nil, err
	}
	pkS, err := PublicFromPrivate(kem, skS)
	if err != nil {
		return nil, nil, err
	}
	return pkE, extractAndExpand(kem, cat(dh1, dh2), cat(pkE, pkR, pkS)), nil
}

func AuthDecap(kem uint16, enc, skR, pkS []byte) ([]byte, error) {
	dh1, err := DH(kem, skR, enc)
	if err != nil {
		return nil, err
	}
	dh2, err := DH(kem, skR, pkS)
	if err != nil {
		return nil, err
	}
	pkR, err := PublicFromPrivate(kem, skR)
	if err != nil {
		return nil, err
	}
	return extractAndExpand(kem, cat(dh1, dh2), cat(enc, pkR, pkS)), nil
}

// ---- key schedule, contexts ----

const (
	ModeBase    = 0
	ModePSK     = 1
	ModeAuth    = 2
	ModeAuthPSK = 3
)

type Ctx struct {
	Suite          Suite
	Key            []byte
	BaseNonce      []byte
	ExporterSecret []byte
	aead           cipher.AEAD
}

// VerifyPSKInputs implements RFC 9180 section 5.1 (VerifyPSKInputs) with
// "present" meaning non-empty (default values are the empty string).
func VerifyPSKInputs(mode byte, psk, pskID []byte) error {
	gotPSK := len(psk) != 0
	gotID := len(pskID) != 0
	if gotPSK != gotID {
		return errors.New("Inconsistent PSK inputs")
	}
	if gotPSK && (mode == ModeBase || mode == ModeAuth) {
		return errors.New("PSK input provided when not needed")
	}
	if !gotPSK && (mode == ModePSK || mode == ModeAuthPSK) {
		return errors.New("Missing required PSK input")
	}
	return nil
}

func NewAEAD(id uint16, key []byte) (cipher.AEAD, error) {
	switch id {
	case AEADAES128, AEADAES256:
		b, err := aes.NewCipher(key)
		if err != nil {
			return nil, err
		}
		return cipher.NewGCM(b)
	case AEADCHACHA:
		return chacha20poly1305.New(key)
	}
	return nil, errors.New("unknown aead")
}

func KeySchedule(s Suite, mode byte, ss, info, psk, pskID []byte) (*Ctx, error) {
	if err := VerifyPSKInputs(mode, psk, pskID); err != nil {
		return nil, err
	}
	h := kdfHash(s.KDF)
	sid := s.id()
	pskIDHash := labeledExtract(h, sid, nil, []byte("psk_id_hash"), pskID)
	infoHash := labeledExtract(h, sid, nil, []byte("info_hash"), info)
	ksc := cat([]byte{mode}, pskIDHash, infoHash)
	secret := labeledExtract(h, sid, ss, []byte("secret"), psk)
	c := &Ctx{Suite: s}
	c.Key = labeledExpand(h, sid, secret, []byte("key"), ksc, Nk(s.AEAD))
	c.BaseNonce = labeledExpand(h, sid, secret, []byte("base_nonce"), ksc, Nn)
	c.ExporterSecret = labeledExpand(h, sid, secret, []byte("exp"), ksc, h().Size())
	var err error
	c.aead, err = NewAEAD(s.AEAD, c.Key)
	return c, err
}

// FromParts builds a context from explicit key material (used with contexts
// read back from circl's documented marshalled form).
func FromParts(s Suite, key, baseNonce, exporter []byte) (*Ctx, error) {
	c := &Ctx{Suite: s, Key: key, BaseNonce: baseNonce, ExporterSecret: exporter}
	var err error
	c.aead, err = NewAEAD(s.AEAD, key)
	return c, err
}

// Nonce = base_nonce XOR I2OSP(seq, Nn); seq is a 12-byte big-endian counter.
func (c *Ctx) Nonce(seq []byte) []byte {
	n := make([]byte, Nn)
	for i := range n {
		n[i] = c.BaseNonce[i] ^ seq[i]
	}
	return n
}

func (c *Ctx) Seal(seq, pt, aad []byte) []byte { return c.aead.Seal(nil, c.Nonce(seq), pt, aad) }
func (c *Ctx) Open(seq, ct, aad []byte) ([]byte, error) {
	return c.aead.Open(nil, c.Nonce(seq), ct, aad)
}

func (c *Ctx) Export(ctx []byte, L int) []byte {
	return labeledExpand(kdfHash(c.Suite.KDF), c.Suite.id(), c.ExporterSecret, []byte("sec"), ctx, L)
}

// SeqBytes renders a counter value as the Nn-byte big-endian string.
func SeqBytes(v *big.Int) []byte { return v.FillBytes(make([]byte, Nn)) }

func SeqFromUint64(v uint64) []byte {
	b := make([]byte, Nn)
	binary.BigEndian.PutUint64(b[4:], v)
	return b
}

// IncSeq returns seq+1 and whether it overflowed 2^96-1.
func IncSeq(seq []byte) ([]byte, bool) {
	out := append([]byte{}, seq...)
	for i := len(out) - 1; i >= 0; i-- {
		out[i]++
		if out[i] != 0 {
			return out, false
		}
	}
	return out, true
}

// Marshalled is circl's documented (non-standard) context serialisation, see the
// doc comment of hpke.Sealer MarshalBinary: role, kem, kdf, aead, then four
// one-byte-length-prefixed fields.
type Marshalled struct {
	Role                      byte
	KEM, KDF, AEAD            uint16
	Exporter, Key, Nonce, Seq []byte
}

func ParseMarshalled(raw []byte) (*Marshalled, error) {
	if len(raw) < 7 {
		return nil, errors.New("short")
	}
	m := &Marshalled{Role: raw[0]}
	m.KEM = binary.BigEndian.Uint16(raw[1:])
	m.KDF = binary.BigEndian.Uint16(raw[3:])
	m.AEAD = binary.BigEndian.Uint16(raw[5:])
	rest := raw[7:]
	fields := []*[]byte{&m.Exporter, &m.Key, &m.Nonce, &m.Seq}
	for _, f := range fields {
		if len(rest) < 1 || len(rest) < 1+int(rest[0]) {
			return nil, errors.New("short field")
		}
		*f = append([]byte{}, rest[1:1+int(rest[0])]...)
		rest = rest[1+int(rest[0]):]
	}
	if len(rest) != 0 {
		return nil, errors.New("trailing bytes")
	}
	return m, nil
}

func (m *Marshalled) Bytes() []byte {
	out := []byte{m.Role}
	out = append(out, i2osp(int(m.KEM), 2)...)
	out = append(out, i2osp(int(m.KDF), 2)...)
	out = append(out, i2osp(int(m.AEAD), 2)...)
	for _, f := range [][]byte{m.Exporter, m.Key, m.Nonce, m.Seq} {
		out = append(out, byte(len(f)))
		out = append(out, f...)
	}
	return out
}
