#!/usr/bin/env python3
"""Regenerates /verif/MANIFEST.json from the table below (single source of truth)."""
import json, os
V = os.path.dirname(os.path.dirname(os.path.abspath(__file__)))

CLAIMED = {
 "C08": dict(engine="netsim", level="exploration", ref="DESIGN.md §3 C08",
   technique="deterministic simulation: seeded sealer/opener nodes over a faulty simulated transport and disk (loss, duplication, reordering, corruption, migration), checked per event against a two-counter reference model",
   text="Seeded search over histories of one sealing and one opening context (seal, in/out-of-order/duplicate/corrupted delivery, garbage and foreign records, marshal-unmarshal migration of either side, export, heal phase) from sequence numbers at every carry boundary up to 2^96-1; after every event the contexts' marshalled sequence numbers, every ciphertext (= stdlib AEAD under base_nonce XOR i), every open verdict and every export are compared with a reference model. Evidence, not proof: sampled histories.",
   note="Trusts crypto/aes+GCM, x/crypto chacha20poly1305 and hkdf; reads key material through circl's documented marshalled context format."),
 "C07": dict(engine="netsim", level="exploration", ref="DESIGN.md §3 C07",
   technique="deterministic simulation: circl sender/receiver nodes against an RFC 9180 reference-model peer; faults = receiver misconfiguration, corrupted enc in flight, entropy-device failure, object reuse across setups",
   text="Seeded search over suite x mode x keys x info/psk/psk_id x traffic; every run compares enc, key, base nonce, exporter secret, every ciphertext and every export with a reference model written from RFC 9180 (validated at start-up against the RFC's base-mode vectors), lets each side open what the other seals, and injects one fault: a receiver differing in skR/info/psk/psk_id/mode/pkS must fail setup or fail every open and export different secrets; RFC 9180 5.1 PSK rule cases must be refused; an entropy error must not yield a context.",
   note="Trusts crypto/ecdh, x/crypto hkdf/chacha20poly1305, stdlib AES-GCM; model's PSK/auth paths have no published vector in this sandbox (base mode has); inner KEM of the two hybrid KEMs is circl's own."),
 "C10": dict(engine="codecsim", level="fault_enumeration", ref="DESIGN.md §3 C10",
   technique="deterministic fault injection on encodings: encode -> faulty medium (tear, extend, bit flip, length-field rewrite, splice) -> decode, with enumeration of fault families per entry point and a recover/watchdog oracle; receiver-object reuse histories (a refused or accepted input must not make the receiver panic or decode the next input differently)",
   text="Every registered decoding / verifying / decapsulating / opening entry point (list in the evidence file) receives valid encodings corrupted by an enumerated family of storage/transport faults: every truncation length, nil/empty/1 byte, sizes +-1/+-2/+-16, appended bytes, all-zero/all-0xFF, every 16/32-bit length-field rewrite at every offset, format-aware faults, single-bit flips (all when affordable), plus seeded random batches and splices. Oracle: no panic, no hang (watchdog), library-made encodings are accepted. Enumerates faults of sampled encodings, not all byte strings.",
   note="Documented fixed-length panics are avoided by driving the error-returning scheme-level API; entry points that cannot report failure are out of scope; uncovered syntactic candidates are listed in the evidence."),
 "C09": dict(engine="codecsim", level="fault_enumeration", ref="DESIGN.md §3 C09",
   technique="deterministic fault injection on encodings with a canonical-form and independent group-membership oracle; all single-bit flips and format-aware faults enumerated per sampled valid encoding; receiver-object reuse (faulted input then the valid encoding into one long-lived receiver must decode as into a fresh one)",
   text="For each decoder of group elements / keys named in the property: every single-bit flip and every format-aware fault (coordinate+p, x=p-1/p/p+1, flag bits, infinity with payload, unused bits, ML-KEM coefficients >= q) of sampled valid encodings (incl. identities reached by arithmetic) is decoded; acceptance requires byte-identical re-serialisation in the same format and an independent membership test ((r-1)P+P=O for BLS12-381, crypto/elliptic for NIST curves, on-curve for Goldilocks/FourQ, order check after curve4q cofactor clearing); library-made encodings must be accepted.",
   note="Decoders whose tests pin prefix parsing (bls12381 SetBytes) are judged on the parsed prefix; BLS12-381 membership uses the library's own group law (C13 assumed)."),
 "C15": dict(engine="histsim", level="exploration", ref="DESIGN.md §3 C15",
   technique="deterministic simulation of object histories: seeded Write/Read/Sum/Clone/Reset sequences under a chunking adversary (short writes/reads at rate and 8192-byte boundaries, lanes 1/2/4) checked op by op against one-shot reference models; Ascon objects reused with dst prefixes, in-place calls and tamper faults",
   text="Long-lived SHA-3/SHAKE/TurboSHAKE states, xof.XOF objects, K12 states (lanes 1, 2, 4; customisation strings), reused expander objects, 2-/4-way Keccak states and reused Ascon ciphers are driven through seeded histories; every output byte range is compared with a plain one-shot reference model of the specification (pinned to published vectors at start-up), clones must agree and be independent, Reset must forget, lanes must not matter; Ascon Seal = model, Open inverts (also in place / after a dst prefix) and any single-bit change of key, nonce, AD, ciphertext or tag, or truncation, returns an error and no plaintext.",
   note="Models trusted after their fixture checks (x/crypto/sha3, RFC 9861 / K12 I-D, RFC 9380, LWC Ascon KATs); internal/sha3 and the K12 lane knob are reached through build-time overlay shims, nothing is committed to /repo."),
 "C01": dict(engine="netsim", level="exploration", ref="DESIGN.md §3 C01",
   technique="deterministic simulation: responder/initiator/auditor nodes over a faulty transport (bit flips, edits, fills, misdelivery, length faults), a simulated disk (responder restart from its marshalled key) and an entropy device with short reads; oracles on agreement, purity, tamper safety, implicit rejection and restart equivalence; every buffer handed to an unmarshaler is recycled by its owner as soon as the call returns; rejection-value dependence (ML-KEM / Kyber z, FrodoKEM s)",
   text="Seeded sessions against every KEM scheme (kem/schemes, the HPKE hybrid and HPKE X-Wing): keys, ciphertexts and secrets are re-derived by an auditor and must be identical; sizes equal the advertised ones; the responder decapsulates with its original key and with a key restarted from disk and must agree; intact ciphertexts give the encapsulated secret; altered ciphertexts never do unless the alteration is confined to a raw X25519/X448 share that decodes to the same u (computed from the TLS drafts' layout with big integers); ML-KEM/Kyber/FrodoKEM return no error and a secret that changes with the ciphertext and with z.",
   note="Secrets are compared for inequality (2^-128); HPKE hybrid Encapsulate (documented not-implemented) is only driven deterministically."),
 "C02": dict(engine="netsim", level="exploration", ref="DESIGN.md §3 C02",
   technique="deterministic simulation: signer (restartable, stored key can be corrupted) -> faulty transport -> verifier, BLS signers with an aggregator, entropy device behind hedged signing; per-field faults plus enumeration of every single-bit flip and truncation length of one signature per scheme; a verifier node that reloads received keys into one long-lived key object; every context position altered in turn; independent oracles: byte-for-byte comparison with crypto/ed25519 (pure, ctx, ph) and ML-DSA Verify_internal / Sign_internal over the FIPS 204 message representative built by the harness (overlay exports)",
   text="For all sign/schemes plus Ed25519ctx/ph, Ed448ph and BLS in both groups: honest signatures verify, have the advertised size and are byte-identical from the original and the restarted signer; then exactly one fault hits (pk, msg, ctx, mode or sig): bit flip, truncation, appended bytes, S+L, zeros, another session's signature, another signer's key, altered/over-long context, another mode (incl. pure/ctx verification of the prehash), a bit flipped in the public half of the signer's stored key, dropped/duplicated/mis-attributed aggregate shares, entropy faults; verification must return false and never panic. Directed part enumerates all single-bit flips and all truncation lengths of one signature per kind.",
   note="Appended bytes to public keys are no-panic only (documented prefix parsing); sampled, not exhaustive."),
 "C17": dict(engine="netsim", level="exploration", ref="DESIGN.md §3 C17",
   technique="deterministic simulation: dealer, share holders / players and combiner; crash faults choose the alive subset, the transport shuffles, duplicates and corrupts shares, holders restart from marshalled shares; enumeration of all subsets for small (l,k); key rotation (new shares loaded into objects that still hold the previous deal), share objects that already signed, recycled buffers",
   text="Shamir/Feldman over four groups and Shoup threshold RSA over fixture keys: every dealt share verifies against the commitment and an altered one does not; any alive set of at least t+1 (resp. k) distinct intact shares, in any arrival order, recovers exactly the secret (resp. yields a signature crypto/rsa verifies under PKCS#1 v1.5 and PSS); smaller sets are refused. Directed part enumerates all subsets for l<=4 (thorough l<=6); seeded part samples l up to 30, blinded/unblinded, cached/uncached, restarts and corruption.",
   note="Combiner removes duplicates first; crypto/rsa is the signature oracle; keys are fixtures."),
 "C16": dict(engine="netsim", level="exploration", ref="DESIGN.md §3 C16",
   technique="deterministic simulation: OPRF client/server and prover/verifier nodes whose every message is marshalled, re-parsed and hit by single-component alteration, swap, replacement and degenerate-field faults (incl. an adversarial prover forging with collapsed commitments); history faults on reused finalisation data; simot three-round exchange",
   text="OPRF over 4 suites x 3 modes: with intact delivery the client's outputs equal the server's FullEvaluate (so they do not depend on blinds or batch position) and VerifyFinalize holds, also when finalising twice or sharing a blind object; in verifiable modes any altered evaluated element, proof scalar, public key, info or blinded element makes Finalize fail. zk/dleq (single, batch), zk/dl and zk/qndleq: honest proofs verify; every altered component / statement / context and every false statement with degenerate values (zero challenge or response, identity elements, non-unit statement elements, prover-chosen SecParam) is rejected. simot: the receiver obtains exactly the chosen message and cannot open the other.",
   note="One recorded known finding (Qn-DLEQ prover-supplied SecParam). Alterations are judged at the level of decoded components (ristretto255 scalar decoding is lenient by tested design). RFC 9497 byte vectors are left to the repository's own test."),
 "C18": dict(engine="netsim", level="exploration", ref="DESIGN.md §3 C18",
   technique="deterministic simulation: client / signer / verifier nodes with reference verifiers (crypto/rsa, big-exponent RFC 8017 model); blinded messages, blind signatures and signatures cross a faulty transport; split entropy streams fix salt and preparation while the blind varies; entropy errors; reuse of finalisation state; second representatives s+N / z+N; metadata slices with live spare capacity; protocol objects reused with a refilled metadata buffer; tripwire on the process-wide entropy source during calls that take a reader",
   text="Blind, blind-sign, finalise over fixture keys (1024..4096 bits, 8k+1-bit moduli, safe primes) for the four RSABSSA variants and the partially blind variant: the final signature verifies under the library, under crypto/rsa.VerifyPSS and under an RFC 8017 reference with the derived exponent; equal salt and preparation randomness with different blinds give identical signatures; altered / trivial / mis-sized blind signatures make Finalize fail (also after retransmission and after a prior success); the signer refuses inputs of wrong length or not below the modulus; on every delivered (message, signature) pair, corrupted or not, the library verifier agrees with the reference.",
   note="pssref is validated against crypto/rsa at start-up; the derived exponent follows the draft's DerivePublicKey text."),
 "C19": dict(engine="netsim", level="exploration", ref="DESIGN.md §3 C19",
   technique="deterministic simulation: clients, 2..255 aggregator nodes and a collector; every protocol message is marshalled and re-parsed on its link; per-link corruption / replacement / truncation, a nonce altered for one aggregator, malicious share perturbation, report loss, aggregator restart between preparation rounds; plain-integer aggregate as reference; client-side measurements outside the valid set, a client that refills its randomness buffer while a report is queued, prep messages stripped of their seed, circuits on both sides of the NTT threshold (63..200 gadget calls)",
   text="For Count, Sum, SumVec, Histogram and MultihotCountVec with generated parameters and 2..16 (thorough: up to 255) aggregators: intact reports are accepted by every aggregator and the unsharded aggregate equals the plain aggregate of exactly the accepted reports (also when unsharded twice and when an aggregator restarts from its marshalled preparation state); a report hit by one fault (input share flip/truncate/swap, public share flip, per-link nonce change, prep share flip/duplication, prep message flip, malicious perturbation of a share) is rejected during preparation and contributes nothing; all messages round-trip through marshalling; constructors return an error, without panicking, for fewer than two aggregators, zero chunk lengths and a Sum bound that does not fit the field.",
   note="Rejection is asserted only for faults the VDAF guarantees to detect (see assumptions in the evidence); FLP soundness error ignored."),
 "C20": dict(engine="netsim", level="exploration", ref="DESIGN.md §3 C20",
   technique="deterministic simulation: authority, encryptor and key-holder nodes; keys, ciphertexts and policies marshalled / printed and re-parsed on every hop; ciphertext corruption (incl. enumerated single-bit flips), truncation, extension, delivery to unqualified holders, holder restart, entropy short reads; policy-semantics evaluator as reference model; policy-only histories (one policy object observed repeatedly: Satisfaction rounds interleaved with printing, up to 12 leaves)",
   text="Generated policy formulas (and/or/not, nesting, repeated labels, single leaves; up to 7 leaves over a 3x3 alphabet) are printed in several styles, parsed, used to encrypt, extracted again from the ciphertext and printed/re-parsed; for every holder (attribute maps incl. missing labels) Decrypt returns exactly the message iff the evaluator of the stated semantics says the attributes satisfy the policy, and Satisfaction / CouldDecrypt agree with it without the key; a corrupted, truncated or extended ciphertext never decrypts to a different message; keys survive marshalling.",
   note="Formula x assignment space is sampled by the generator; the simulator contributes the parties, serialisation on every hop and the corruption faults. Pairing arithmetic is trusted (C13 not claimed)."),
 "C14": dict(engine="confsim", level="exploration", ref="DESIGN.md §3 C14",
   technique="deterministic replay across configurations: the seeded plans (with their injected faults) of the protocol simulations and of an edge-biased primitive transcript are executed in separate processes under {default, purego, cpu.avx2=off, cpu.bmi2=off, cpu.adx=off, all off}; event-log digests are diffed and a difference is bisected to the first differing event",
   text="The simulator's replay-equality check applied across build / CPU configurations: every plan of workloads c14prim (fp25519, fp448, x25519, x448, ed25519, ed448, goldilocks, fourq, curve4q, p384, csidh, sidh, sike, ML-KEM, Kyber, Dilithium, ML-DSA, SHAKE, K12, keccakf1600 x2/x4, Frodo, X-Wing with edge-biased operands) and C01, C02, C07, C08, C15, C16 (faults steer execution into rejection paths) must give the same event-log digest in all six configurations. A difference is reproduced, checked for self-determinism of both configurations, bisected to the first differing event and reported with the plan as replay file.",
   note="Field results are compared in canonical form; arm64 back-ends cannot run here; tkn20 excluded (unordered map iteration); GODEBUG feature switches honoured by x/sys/cpu on this machine."),
 "C11": dict(engine="histsim+schedsim", level="exploration", ref="DESIGN.md §2.4, §3 C11",
   technique="deterministic simulation: (a) seeded object histories with deliberate aliasing / reuse / decode-into-used-object against a value model; (b) seeded scheduler over source-instrumented copies of the library (pre-emption at any statement, biased to just after shared writes) with a sequential-equivalence oracle; (c) the same schedules in a -race build with ThreadSanitizer as oracle (hand-off invisible to the race detector); pre-emption right after the k-th sync / atomic operation of a task (publish-then-fill windows); first-use families (scheme registries in a cold process, CP-ABE with per-run labels and a late reference); readers family: every call that takes a randomness source runs with a tripwire on crypto/rand.Reader",
   text="Histories: pools of long-lived group / curve / key / polynomial / sharing objects are driven through aliasing-heavy operation sequences; after each step the receiver equals the value-model prediction computed on fresh objects, no other object changed, decoding into a used object equals decoding into a fresh one, and Generator/Identity/Order/Params still return their original bytes even after returned objects were mutated. Schedules: 2..4 caller tasks perform read-only calls (public-key derivation, sign, verify, encapsulate, decapsulate, HPKE setup, OPRF evaluation, threshold signing, group constants) on one shared object set while the seeded scheduler pre-empts them at planned statements; every call must return what it returns alone, and the race detector must report nothing.",
   note="Instrumentation is generated at check time by yieldgen (go build -overlay), nothing is committed to /repo; library-internal goroutines (tss/rsa parallel blinding) are not scheduled; Prio3 instances are single-owner by design and not run concurrently."),
}

NA = {
 "C03": "pure function of its inputs (bit-exact FIPS 203 / Kyber r3 conformance): no schedule, fault, history or party influences it (DESIGN.md §1.3)",
 "C04": "pure function of its inputs (bit-exact FIPS 204 / Dilithium 3.1 conformance) (DESIGN.md §1.3)",
 "C05": "pure function of its inputs (bit-exact RFC 8032 conformance); the non-canonical-key clause is covered under C09/C02 but not claimed here (DESIGN.md §1.3)",
 "C06": "pure function of its inputs (RFC 7748 on every scalar/u); back-end agreement is C14's subject (DESIGN.md §1.3)",
 "C12": "field arithmetic for all operands: stateless, no fault/schedule/history dimension (DESIGN.md §1.3)",
 "C13": "group law / scalar multiplication / pairing algebra for all operands: stateless (DESIGN.md §1.3)",
}
PENDING = {}  # id -> reason, for claimed-in-design properties whose check is not built yet
for i in ["C01","C02","C07","C09","C10","C11","C14","C15","C16","C17","C18","C19","C20"]:
    if i not in CLAIMED:
        PENDING[i] = "check not built yet in this session (planned in DESIGN.md §3); not claimed until it runs end to end"

checks = []
for pid in sorted(CLAIMED):
    c = CLAIMED[pid]
    checks.append({
        "property_id": pid,
        "quick_cmd": f"bin/check {pid} quick",
        "thorough_cmd": f"bin/check {pid} thorough",
        "evidence_file": f"/verif/evidence/{pid}.json",
        "replay_cmd_template": f"bin/check {pid} replay {{path}}",
        "engine": c["engine"],
        "level_claimed": {"category": c["level"], "text": c["text"], "design_ref": c["ref"]},
        "level_note": c["note"],
        "technique": c["technique"],
    })
na = [{"property_id": k, "reason": v} for k, v in sorted({**NA, **PENDING}.items())]
m = {
 "version": 1,
 "setup_cmd": "bin/setup",
 "hooks": {
   "guard": "verif",
   "enable": "no hook is committed to /repo: checks build the harness module /verif/sim with `replace github.com/cloudflare/circl => /repo` and `-tags verif -overlay <generated at check time>` (bin/mkoverlay: add-only shim packages from /verif/shim; for C11 additionally yieldgen's statement-instrumented copies of the library sources)",
   "baseline_off_cmd": "cd /repo && GOFLAGS=-mod=mod GOPROXY=off GOSUMDB=off GOTOOLCHAIN=local go test -vet=off -count=1 -timeout 25m ./...",
   "source_commits": [],
   "add_only": True,
 },
 "engines": [
   {"name": "codecsim", "path": "sim/codec", "serves_properties": ["C09", "C10"], "kind_free_text": "encode -> fault-injecting medium -> decode, enumerated fault families per entry point"},
   {"name": "schedsim", "path": "sim/cmd/yieldgen + shim/verifsimrt + sim/props/c11sched", "serves_properties": ["C11"], "kind_free_text": "seeded scheduler over statement-instrumented library sources; equivalence and race-detector oracles"},
   {"name": "histsim", "path": "sim/props/c15, sim/props/c11hist", "serves_properties": ["C11", "C15"], "kind_free_text": "single-owner object histories against value / one-shot reference models"},
   {"name": "confsim", "path": "sim/props/c14 + c14prim", "serves_properties": ["C14"], "kind_free_text": "multi-process replay of the same seeded plans under each build / CPU configuration with event-log diff"},
   {"name": "netsim", "path": "sim/core + sim/props/*", "serves_properties": sorted(p for p in CLAIMED if CLAIMED[p]["engine"].startswith("netsim")), "kind_free_text": "seeded protocol simulation: nodes are real circl calls, the simulator owns transport, disk, entropy and crashes"},
 ],
 "checks": checks,
 "not_applicable": na,
 "notes": "One integer (VERIF_SEED) decides every plan; plans are explicit JSON; violations are shrunk and written to /verif/replays; known findings live in /verif/known_findings.jsonl.",
}
json.dump(m, open(os.path.join(V, "MANIFEST.json"), "w"), indent=1)
print("claimed", sorted(CLAIMED), "n/a", len(na))
