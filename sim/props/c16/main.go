// C16 — OPRF, DLEQ / Schnorr proofs and OT are complete and reject tampering.
// netsim: OPRF client and server nodes (3 modes x 4 suites) whose messages cross
// the transport in marshalled form and may be altered, swapped or replaced;
// prover / verifier nodes for zk/dleq, zk/dl and zk/qndleq with single-component
// alterations and degenerate-field faults; the three simot rounds.
package main

import (
	"bytes"
	"crypto"
	"crypto/rand"
	_ "crypto/sha256"
	_ "crypto/sha512"
	"encoding/json"
	"fmt"
	"math/big"
	"strings"
	"time"

	"circlsim/core"
	"circlsim/fixtures"
	"circlsim/refmodel/keccak"

	"github.com/cloudflare/circl/group"
	"github.com/cloudflare/circl/oprf"
	"github.com/cloudflare/circl/ot/simot"
	"github.com/cloudflare/circl/zk/dl"
	"github.com/cloudflare/circl/zk/dleq"
	"github.com/cloudflare/circl/zk/qndleq"
)

type Plan struct {
	Kind   string `json:"kind"` // oprf | dleq | dl | qndleq | ot
	Seed   uint64 `json:"seed"`
	Suite  int    `json:"suite"`           // 0..3
	Mode   int    `json:"mode"`            // oprf: 0 base, 1 verifiable, 2 partial-oblivious
	Batch  []int  `json:"batch,omitempty"` // input lengths
	Info   int    `json:"info,omitempty"`  // info length
	Fault  string `json:"fault,omitempty"`
	Pos    int    `json:"pos,omitempty"`
	Twice  bool   `json:"twice,omitempty"`  // finalise the same data twice
	Share  bool   `json:"share,omitempty"`  // the same blind scalar object is used for two inputs
	Same   bool   `json:"same,omitempty"`   // the second input of the batch equals the first (with Share: one blinded element twice)
	Choice int    `json:"choice,omitempty"` // ot
	MLen   int    `json:"mlen,omitempty"`
}

var suites = []oprf.Suite{oprf.SuiteRistretto255, oprf.SuiteP256, oprf.SuiteP384, oprf.SuiteP521}
var zkGroups = []group.Group{group.Ristretto255, group.P256, group.P384, group.P521}

var oprfFaults = []string{"", "", "eval-replace", "eval-flip", "eval-swap", "proof-c", "proof-s", "pk-other", "info-alter", "blinded-alter", "eval-identity", "server-forge-identity", "server-forge-replace", "server-reproof-honest", "proof-missing"}
var dleqFaults = []string{"", "proof-c", "proof-s", "proof-flip", "stmt-a", "stmt-ka", "stmt-b", "stmt-kb", "dst", "batch-swap", "batch-alter", "batch-short", "batch-long", "zero-c", "zero-s", "false-statement", "identity-statement", "prove-b-identity", "prove-kb-other", "prove-kb-identity"}
var dlFaults = []string{"", "V-alter", "R-alter", "kG-alter", "G-alter", "userid", "otherinfo", "V-identity-R-zero", "false-statement"}
var qnFaults = []string{"", "forge-hx-zero", "forge-gx-zero", "forge-h-zero", "Z-alter", "C-alter", "g-alter", "gx-alter", "h-alter", "hx-alter", "N-alter", "degenerate-secparam0", "zero-Z", "false-statement"}

func gen(r *core.PRNG, tier string) any {
	p := &Plan{Seed: r.Uint64(), Suite: r.Pick(10, 8, 3, 1), Pos: r.Intn(1 << 16)}
	switch r.Pick(50, 20, 12, 10, 8) {
	case 0:
		p.Kind = "oprf"
		p.Mode = r.Intn(3)
		for i, n := 0, r.Range(1, 5); i < n; i++ {
			p.Batch = append(p.Batch, r.EdgeLen(70, 0, 1, 32))
		}
		p.Info = r.EdgeLen(40, 0, 1)
		p.Fault = oprfFaults[r.Intn(len(oprfFaults))]
		p.Twice = r.Chance(1, 4)
		p.Share = r.Chance(1, 6)
		p.Same = r.Chance(1, 3) && (p.Share || r.Chance(1, 3))
	case 1:
		p.Kind = "dleq"
		for i, n := 0, r.Range(1, 4); i < n; i++ {
			p.Batch = append(p.Batch, 1)
		}
		p.Fault = dleqFaults[r.Intn(len(dleqFaults))]
	case 2:
		p.Kind = "dl"
		p.Fault = dlFaults[r.Intn(len(dlFaults))]
	case 3:
		p.Kind = "qndleq"
		p.Fault = qnFaults[r.Intn(len(qnFaults))]
	case 4:
		p.Kind = "ot"
		p.Choice = r.Intn(2)
		p.MLen = r.EdgeLen(64, 0, 1, 16, 32)
		p.Fault = []string{"", "open-other"}[r.Intn(2)]
	}
	return p
}

func directed(tier string) []any {
	var out []any
	for s := 0; s < 4; s++ {
		for m := 0; m < 3; m++ {
			for _, f := range oprfFaults[1:] {
				out = append(out, &Plan{Kind: "oprf", Seed: uint64(s*10 + m), Suite: s, Mode: m, Batch: []int{3, 0, 17}, Info: 4, Fault: f, Pos: 9, Twice: true})
				// a batch that carries one blinded element twice; the fault lands on the second occurrence
				out = append(out, &Plan{Kind: "oprf", Seed: uint64(s*10 + m + 100), Suite: s, Mode: m, Batch: []int{5, 5, 9}, Info: 4, Fault: f, Pos: 10, Share: true, Same: true})
			}
		}
		for _, f := range dleqFaults {
			out = append(out, &Plan{Kind: "dleq", Seed: uint64(s), Suite: s, Batch: []int{1, 1, 1}, Fault: f, Pos: 5})
		}
		for _, f := range dlFaults {
			out = append(out, &Plan{Kind: "dl", Seed: uint64(s), Suite: s, Fault: f, Pos: 5})
		}
	}
	for _, f := range qnFaults {
		out = append(out, &Plan{Kind: "qndleq", Seed: 1, Fault: f, Pos: 3})
	}
	for c := 0; c < 2; c++ {
		for _, f := range []string{"", "open-other"} {
			out = append(out, &Plan{Kind: "ot", Seed: 1, Suite: 1, Choice: c, MLen: 16, Fault: f})
		}
	}
	return out
}

// otherElement returns a valid element different from e.
func otherElement(g group.Group, e group.Element, k int) group.Element {
	o := g.NewElement().Add(e, g.NewElement().MulGen(g.NewScalar().SetUint64(uint64(k%7+1))))
	return o
}

func wire(e group.Element) []byte { b, _ := e.MarshalBinaryCompress(); return b }

func execOPRF(p *Plan, run *core.Run) {
	if p.Suite < 0 || p.Suite > 3 || p.Mode < 0 || p.Mode > 2 || len(p.Batch) == 0 || len(p.Batch) > 8 {
		run.Bad("params")
		return
	}
	suite := suites[p.Suite]
	g := suite.Group()
	mode := []oprf.Mode{oprf.BaseMode, oprf.VerifiableMode, oprf.PartialObliviousMode}[p.Mode]
	comp := fmt.Sprintf("oprf[%s,mode%d]", suite.Identifier(), p.Mode)
	run.T(comp)
	data := core.NewPRNG(p.Seed)
	sk, err := oprf.DeriveKey(suite, mode, data.Bytes(32), data.Bytes(5))
	if err != nil {
		run.Violate(comp+".DeriveKey", "error", "%v", err)
		return
	}
	skOther, _ := oprf.DeriveKey(suite, mode, data.Bytes(32), nil)
	pkBytes, _ := sk.Public().MarshalBinary()
	// the key is exported for backup and the export buffers are wiped afterwards
	if skb, err := sk.MarshalBinary(); err == nil {
		keep := append([]byte{}, skb...)
		core.Recycle(skb)
		pkb := append([]byte{}, pkBytes...)
		core.Recycle(pkBytes)
		pkBytes = pkb
		again, _ := sk.MarshalBinary()
		pagain, _ := sk.Public().MarshalBinary()
		if !bytes.Equal(again, keep) || !bytes.Equal(pagain, pkBytes) {
			run.Violate(comp+".PrivateKey.MarshalBinary", "returned-bytes-share-memory-with-the-key", "wiping the exported encoding changed the key (private equal: %v, public equal: %v)", bytes.Equal(again, keep), bytes.Equal(pagain, pkBytes))
			return
		}
		run.Fault("disk:exported-key-buffers-wiped")
	}
	var inputs [][]byte
	for _, l := range p.Batch {
		if l < 0 || l > 500 {
			run.Bad("input length")
			return
		}
		inputs = append(inputs, data.Bytes(l))
	}
	if p.Same && len(inputs) > 1 {
		inputs[1] = append([]byte{}, inputs[0]...)
		run.Fault("history:same-input-twice-in-one-batch")
	}
	info := data.Bytes(p.Info)
	// an empty info string is an empty info string, whether the caller spells it nil or []byte{}
	clientInfo := info
	if len(info) == 0 {
		if p.Seed%2 == 0 {
			info, clientInfo = []byte{}, nil
		} else {
			info, clientInfo = nil, []byte{}
		}
		run.Fault("misconfig:empty-info-spelled-nil-on-one-side")
	}
	// the public key reaches the client in marshalled form
	pkUse := pkBytes
	if p.Fault == "pk-other" && mode != oprf.BaseMode {
		pkUse, _ = skOther.Public().MarshalBinary()
	}
	var pkC oprf.PublicKey
	if err := pkC.UnmarshalBinary(suite, pkUse); err != nil {
		run.Violate(comp+".PublicKey.UnmarshalBinary", "rejects-own-encoding", "%v", err)
		return
	}
	blinds := make([]oprf.Blind, len(inputs))
	bstream := core.NewStream(p.Seed + 1)
	for i := range blinds {
		blinds[i] = g.RandomNonZeroScalar(bstream)
	}
	if p.Share && len(blinds) > 1 {
		blinds[1] = blinds[0] // the caller passes the same scalar object twice
		run.Fault("history:blind-object-shared")
	}
	blindBytes := make([][]byte, len(blinds))
	for i := range blinds {
		blindBytes[i], _ = blinds[i].MarshalBinary()
	}

	var fin *oprf.FinalizeData
	var req *oprf.EvaluationRequest
	base := oprf.NewClient(suite)
	vcl := oprf.NewVerifiableClient(suite, &pkC)
	pcl := oprf.NewPartialObliviousClient(suite, &pkC)
	// the inputs reach Blind in read buffers that the caller refills (a line scanner does) and
	// the blinds in scalar objects it reuses for the next request, both while this request's
	// finalisation data is still pending
	inBufs := make([][]byte, len(inputs))
	blObjs := make([]oprf.Blind, len(blinds))
	for i := range inputs {
		inBufs[i] = append([]byte{}, inputs[i]...)
	}
	for i := range blinds {
		blObjs[i] = blinds[i]
		if p.Seed%2 == 0 && !(p.Share && i == 1) {
			blObjs[i] = blinds[i].Copy()
		}
	}
	if p.Share && len(blObjs) > 1 {
		blObjs[1] = blObjs[0]
	}
	switch mode {
	case oprf.BaseMode:
		fin, req, err = base.DeterministicBlind(inBufs, blObjs)
	case oprf.VerifiableMode:
		fin, req, err = vcl.DeterministicBlind(inBufs, blObjs)
	default:
		fin, req, err = pcl.DeterministicBlind(inBufs, blObjs)
	}
	if err != nil {
		run.Violate(comp+".Blind", "error", "%v", err)
		return
	}
	if p.Seed%2 == 0 {
		for i := range inBufs {
			core.Recycle(inBufs[i])
		}
		for i := range blObjs {
			blObjs[i].SetUint64(uint64(12345 + i)) // the scalar object now holds the next request's blind
		}
		run.Fault("history:input-buffers-and-blind-objects-reused-while-finalisation-pending")
	}
	// request crosses the transport
	sreq := &oprf.EvaluationRequest{}
	for i, e := range req.Elements {
		b := wire(e)
		ne := g.NewElement()
		if err := ne.UnmarshalBinary(b); err != nil {
			run.Violate(comp+".Element.UnmarshalBinary", "rejects-own-encoding", "%v", err)
			return
		}
		if p.Fault == "blinded-alter" && i == p.Pos%len(req.Elements) {
			ne = otherElement(g, ne, p.Pos)
		}
		sreq.Elements = append(sreq.Elements, ne)
	}
	run.Event("client", "blind", len(inputs), wire(req.Elements[0]))
	run.Tick(1)
	// server
	var ev *oprf.Evaluation
	sinfo := info
	if mode == oprf.PartialObliviousMode && p.Seed%2 == 1 && len(info) > 0 {
		// history: the server keeps its info in one buffer; an earlier epoch used the same key
		// object with other content in that buffer, which was then refilled in place
		ibuf := make([]byte, len(info))
		for i := range ibuf {
			ibuf[i] = ^info[i]
		}
		warm := oprf.NewPartialObliviousServer(suite, sk)
		if _, err := warm.Evaluate(sreq, ibuf); err != nil {
			run.Violate(comp+".Evaluate", "error", "%v", err)
			return
		}
		warm.FullEvaluate(inputs[0], ibuf)
		copy(ibuf, info)
		sinfo = ibuf
		run.Fault("history:server-info-buffer-refilled-between-epochs")
	}
	switch mode {
	case oprf.BaseMode:
		ev, err = oprf.NewServer(suite, sk).Evaluate(sreq)
	case oprf.VerifiableMode:
		ev, err = oprf.NewVerifiableServer(suite, sk).Evaluate(sreq)
	default:
		ev, err = oprf.NewPartialObliviousServer(suite, sk).Evaluate(sreq, sinfo)
	}
	if err != nil {
		run.Violate(comp+".Evaluate", "error", "%v", err)
		return
	}
	// evaluation crosses the transport: elements and proof marshalled
	cev := &oprf.Evaluation{}
	for _, e := range ev.Elements {
		ne := g.NewElement()
		if ne.UnmarshalBinary(wire(e)) != nil {
			run.Violate(comp+".Element.UnmarshalBinary", "rejects-own-encoding", "evaluated element")
			return
		}
		cev.Elements = append(cev.Elements, ne)
	}
	if ev.Proof != nil {
		pb, err := ev.Proof.MarshalBinary()
		if err != nil {
			run.Violate(comp+".Proof.MarshalBinary", "error", "%v", err)
			return
		}
		sl := len(pb) / 2
		switch p.Fault {
		case "proof-c":
			pb[sl-1] ^= 1
		case "proof-s":
			pb[2*sl-1] ^= 1
		}
		cev.Proof = new(dleq.Proof)
		if err := cev.Proof.UnmarshalBinary(g, pb); err != nil {
			if p.Fault == "proof-c" || p.Fault == "proof-s" {
				return // the altered proof does not even parse
			}
			run.Violate(comp+".Proof.UnmarshalBinary", "rejects-own-encoding", "%v", err)
			return
		}
		if p.Fault == "proof-c" || p.Fault == "proof-s" {
			orig, _ := ev.Proof.MarshalBinary()
			if re, _ := cev.Proof.MarshalBinary(); bytes.Equal(re, orig) {
				return // same proof components after decoding: not an alteration
			}
		}
	}
	faulted := false
	n := len(cev.Elements)
	switch p.Fault {
	case "eval-replace":
		cev.Elements[p.Pos%n] = otherElement(g, cev.Elements[p.Pos%n], p.Pos)
		faulted = true
	case "eval-flip":
		b := wire(cev.Elements[p.Pos%n])
		b[len(b)-1] ^= 1 << (p.Pos % 8)
		ne := g.NewElement()
		if ne.UnmarshalBinary(b) != nil {
			return // not a group element any more: the transport dropped it
		}
		cev.Elements[p.Pos%n] = ne
		faulted = true
	case "eval-identity":
		cev.Elements[p.Pos%n] = g.Identity()
		faulted = true
	case "eval-swap":
		if n >= 2 && !bytes.Equal(wire(cev.Elements[0]), wire(cev.Elements[1])) {
			cev.Elements[0], cev.Elements[1] = cev.Elements[1], cev.Elements[0]
			faulted = true
		}
	case "server-forge-identity", "server-forge-replace", "server-reproof-honest":
		// a malicious server: it alters one evaluated element and then runs the honest
		// proof algorithm with its real key over the altered batch (RFC 9497 GenerateProof:
		// VOPRF proves (G, pkS, blinded, evaluated) with skS; POPRF proves
		// (G, G*t, evaluated, blinded) with t = skS + HashToScalar("Info" || len || info))
		if mode == oprf.BaseMode {
			break
		}
		ctxStr := append(append([]byte("OPRFV1-"), byte(p.Mode), '-'), suite.Identifier()...)
		skb, _ := sk.MarshalBinary()
		key := g.NewScalar()
		if key.UnmarshalBinary(skb) != nil {
			panic("HARNESS: private key scalar")
		}
		evals := append([]group.Element{}, cev.Elements...)
		j := p.Pos % n
		switch p.Fault {
		case "server-forge-identity":
			evals[j] = g.Identity()
		case "server-forge-replace":
			evals[j] = otherElement(g, evals[j], p.Pos)
		}
		bi, kbi := sreq.Elements, evals
		if mode == oprf.PartialObliviousMode {
			framed := append(append([]byte("Info"), byte(len(info)>>8), byte(len(info))), info...)
			m := g.HashToScalar(framed, append([]byte("HashToScalar-"), ctxStr...))
			key = g.NewScalar().Add(key, m)
			bi, kbi = evals, sreq.Elements
		}
		forged, perr := dleq.Prover{Params: dleq.Params{G: g, H: suite.Hash(), DST: ctxStr}}.ProveBatchWithRandomness(
			key, g.Generator(), g.NewElement().MulGen(key), bi, kbi, g.RandomNonZeroScalar(core.NewStream(p.Seed+9)))
		if perr != nil {
			return // the prover itself refuses: nothing reaches the client
		}
		cev.Elements, cev.Proof = evals, forged
		faulted = p.Fault != "server-reproof-honest"
		if !faulted {
			run.Probe("reproof-with-rfc-parameters-accepted-path")
		}
	case "proof-c", "proof-s":
		faulted = cev.Proof != nil
	case "proof-missing":
		// the server answers as a base-mode server: evaluated elements, no proof
		faulted = cev.Proof != nil
		cev.Proof = nil
	case "pk-other":
		faulted = mode != oprf.BaseMode
	case "blinded-alter":
		faulted = true
	case "info-alter":
		faulted = mode == oprf.PartialObliviousMode
	case "":
	default:
		run.Bad("fault")
		return
	}
	cinfo := clientInfo
	if p.Fault == "info-alter" {
		cinfo = append(append([]byte{}, info...), 1)
	}
	if faulted {
		run.Fault("transport:" + p.Fault)
	}
	finalize := func() ([][]byte, error) {
		switch mode {
		case oprf.BaseMode:
			return base.Finalize(fin, cev)
		case oprf.VerifiableMode:
			return vcl.Finalize(fin, cev)
		default:
			return pcl.Finalize(fin, cev, cinfo)
		}
	}
	var outs [][]byte
	pan, v, st := core.Try(func() { outs, err = finalize() })
	if pan {
		run.Violate(comp+".Finalize", core.PanicClass(v), "fault %q: %s at %s", p.Fault, v, st)
		return
	}
	run.Event("client", "finalize", p.Fault, err)
	run.T(p.Fault, fmt.Sprint(err != nil))
	// the caller's blinds must not have been touched
	for i := range blinds {
		if b, _ := blinds[i].MarshalBinary(); !bytes.Equal(b, blindBytes[i]) {
			run.Violate(comp+".Finalize", "modifies-the-callers-blinds", "blind %d changed from %x to %x", i, blindBytes[i], b)
			return
		}
	}
	full := func(in []byte) []byte {
		var o []byte
		var e error
		switch mode {
		case oprf.BaseMode:
			o, e = oprf.NewServer(suite, sk).FullEvaluate(in)
		case oprf.VerifiableMode:
			o, e = oprf.NewVerifiableServer(suite, sk).FullEvaluate(in)
		default:
			o, e = oprf.NewPartialObliviousServer(suite, sk).FullEvaluate(in, sinfo)
		}
		if e != nil {
			panic("HARNESS: FullEvaluate: " + e.Error())
		}
		return o
	}
	if !faulted {
		if err != nil {
			run.Violate(comp+".Finalize", "error-on-honest-run", "%v", err)
			return
		}
		for i := range inputs {
			want := full(inputs[i])
			if !bytes.Equal(outs[i], want) {
				run.Violate(comp+".Finalize", "output-differs-from-FullEvaluate", "input %d of the batch: client %x, server %x", i, outs[i], want)
				return
			}
			ok := false
			switch mode {
			case oprf.BaseMode:
				ok = oprf.NewServer(suite, sk).VerifyFinalize(inputs[i], outs[i])
			case oprf.VerifiableMode:
				ok = oprf.NewVerifiableServer(suite, sk).VerifyFinalize(inputs[i], outs[i])
			default:
				ok = oprf.NewPartialObliviousServer(suite, sk).VerifyFinalize(inputs[i], sinfo, outs[i])
			}
			if !ok {
				run.Violate(comp+".VerifyFinalize", "rejects-honest-output", "input %d", i)
				return
			}
		}
		if p.Twice {
			run.Fault("history:finalize-twice")
			outs2, err2 := finalize()
			if err2 != nil {
				run.Violate(comp+".Finalize", "second-finalize-fails", "%v", err2)
				return
			}
			for i := range outs {
				if !bytes.Equal(outs[i], outs2[i]) {
					run.Violate(comp+".Finalize", "second-finalize-differs", "finalising the same data twice gives %x then %x", outs[i], outs2[i])
					return
				}
			}
		}
		// key rotation: the application keeps ONE public-key object, loads the server's new key
		// into it and goes on with the clients it built around that object; same info as before
		if mode != oprf.BaseMode && p.Seed%3 != 0 {
			run.Fault("history:server-key-rotated-into-the-clients-key-object")
			pk2, _ := skOther.Public().MarshalBinary()
			if err := pkC.UnmarshalBinary(suite, pk2); err != nil {
				run.Violate(comp+".PublicKey.UnmarshalBinary", "rejects-own-encoding", "%v", err)
				return
			}
			epoch := func(server *oprf.PrivateKey) error {
				var f2 *oprf.FinalizeData
				var r2 *oprf.EvaluationRequest
				var e2 *oprf.Evaluation
				var err error
				if mode == oprf.VerifiableMode {
					if f2, r2, err = vcl.Blind(inputs); err != nil {
						return err
					}
					if e2, err = oprf.NewVerifiableServer(suite, server).Evaluate(r2); err != nil {
						return err
					}
					_, err = vcl.Finalize(f2, e2)
					return err
				}
				if f2, r2, err = pcl.Blind(inputs); err != nil {
					return err
				}
				if e2, err = oprf.NewPartialObliviousServer(suite, server).Evaluate(r2, sinfo); err != nil {
					return err
				}
				_, err = pcl.Finalize(f2, e2, cinfo)
				return err
			}
			if err := epoch(skOther); err != nil {
				run.Violate(comp+".Finalize", "honest-server-rejected-after-key-rotation", "the client's public-key object was loaded with the server's new key; the new server's evaluation is refused: %v", err)
				return
			}
			if err := epoch(sk); err == nil {
				run.Violate(comp+".Finalize", "accepts-pk-other", "after the client's public-key object was loaded with a new key, an evaluation under the OLD key still finalises")
				return
			}
		}
		return
	}
	// faulted
	if mode == oprf.BaseMode {
		// no proof in base mode: the client cannot detect; outputs must simply differ for altered entries
		if err == nil && (p.Fault == "eval-replace" || p.Fault == "eval-flip") {
			i := p.Pos % n
			if bytes.Equal(outs[i], full(inputs[i])) {
				run.Violate(comp+".Finalize", "altered-evaluation-gives-honest-output", "entry %d", i)
			}
		}
		return
	}
	if err == nil {
		run.Violate(comp+".Finalize", "accepts-"+p.Fault, "verifiable mode: finalisation succeeded although %s was altered (pos %d)", p.Fault, p.Pos)
	}
}

func execDLEQ(p *Plan, run *core.Run) {
	if p.Suite < 0 || p.Suite > 3 || len(p.Batch) == 0 || len(p.Batch) > 6 {
		run.Bad("params")
		return
	}
	g := zkGroups[p.Suite]
	comp := fmt.Sprintf("zk/dleq[%v]", g)
	run.T(comp, p.Fault)
	params := dleq.Params{G: g, H: crypto.SHA256, DST: []byte("circlsim-dleq")}
	if p.Suite >= 2 {
		params.H = crypto.SHA512
	}
	data := core.NewStream(p.Seed)
	k := g.RandomNonZeroScalar(data)
	a := g.Generator()
	ka := g.NewElement().Mul(a, k)
	var bi, kbi []group.Element
	for i := range p.Batch {
		b := g.HashToElement([]byte{byte(i), byte(p.Seed)}, []byte("b"))
		bi = append(bi, b)
		kbi = append(kbi, g.NewElement().Mul(b, k))
	}
	// a prover that knows k runs the honest algorithm over a false statement
	switch p.Fault {
	case "prove-b-identity":
		bi[p.Pos%len(bi)] = g.Identity()
	case "prove-kb-other":
		kbi[p.Pos%len(bi)] = otherElement(g, kbi[p.Pos%len(bi)], p.Pos)
	case "prove-kb-identity":
		kbi[p.Pos%len(bi)] = g.Identity()
	}
	proof, err := dleq.Prover{Params: params}.ProveBatchWithRandomness(k, a, ka, bi, kbi, g.RandomNonZeroScalar(data))
	if err != nil {
		if strings.HasPrefix(p.Fault, "prove-") {
			return // refusing to prove a false statement is fine
		}
		run.Violate(comp+".Prove", "error", "%v", err)
		return
	}
	pb, _ := proof.MarshalBinary()
	sl := len(pb) / 2
	vparams := params
	faulted := true
	n := len(bi)
	switch p.Fault {
	case "":
		faulted = false
	case "proof-c":
		pb[sl-1] ^= 1
	case "proof-s":
		pb[2*sl-1] ^= 1
	case "proof-flip":
		pb[p.Pos%len(pb)] ^= 1 << (p.Pos % 7)
	case "zero-c":
		for i := 0; i < sl; i++ {
			pb[i] = 0
		}
	case "zero-s":
		for i := sl; i < 2*sl; i++ {
			pb[i] = 0
		}
	case "prove-b-identity", "prove-kb-other", "prove-kb-identity":
	case "stmt-a":
		a = otherElement(g, a, p.Pos)
	case "stmt-ka":
		ka = otherElement(g, ka, p.Pos)
	case "stmt-b":
		bi[p.Pos%n] = otherElement(g, bi[p.Pos%n], p.Pos)
	case "stmt-kb":
		kbi[p.Pos%n] = otherElement(g, kbi[p.Pos%n], p.Pos)
	case "dst":
		vparams.DST = []byte("circlsim-dleQ")
	case "batch-swap":
		if n < 2 {
			faulted = false
		} else {
			kbi[0], kbi[1] = kbi[1], kbi[0]
		}
	case "batch-alter":
		// keep the first entry intact, alter a later one (composites must depend on all of them)
		if n < 2 {
			faulted = false
		} else {
			kbi[n-1] = otherElement(g, kbi[n-1], p.Pos)
		}
	case "batch-short":
		// the evaluated list reaches the verifier one element short (or long): not the statement
		// that was proved, refused without a crash
		kbi = kbi[:n-1]
	case "batch-long":
		kbi = append(kbi, g.Generator())
	case "false-statement":
		// honest-looking proof for kb != k*b assembled with zero challenge and response
		kbi[0] = otherElement(g, kbi[0], 1)
		for i := range pb {
			pb[i] = 0
		}
	case "identity-statement":
		// everything is the identity: k*O = O holds for every k, which is a true but
		// degenerate statement; alter kb so that it is false
		a, ka = g.Identity(), g.Identity()
		bi[0] = g.Identity()
		kbi[0] = g.Generator()
	default:
		run.Bad("fault")
		return
	}
	var vp dleq.Proof
	if err := vp.UnmarshalBinary(g, pb); err != nil {
		if faulted {
			return
		}
		run.Violate(comp+".Proof.UnmarshalBinary", "rejects-own-encoding", "%v", err)
		return
	}
	if strings.HasPrefix(p.Fault, "proof-") || strings.HasPrefix(p.Fault, "zero-") {
		// the property speaks of altered proof *components*: ristretto255 scalar decoding is
		// lenient by (tested) design, so an altered encoding may decode to the same scalars
		orig, _ := proof.MarshalBinary()
		if re, _ := vp.MarshalBinary(); bytes.Equal(re, orig) {
			run.Probe("altered-encoding-same-component")
			return
		}
	}
	if faulted {
		run.Fault("transport:" + p.Fault)
	}
	ok := false
	pan, v, st := core.Try(func() {
		if len(bi) == 1 && len(kbi) == 1 {
			ok = dleq.Verifier{Params: vparams}.Verify(a, ka, bi[0], kbi[0], &vp)
		} else {
			ok = dleq.Verifier{Params: vparams}.VerifyBatch(a, ka, bi, kbi, &vp)
		}
	})
	if pan {
		run.Violate(comp+".Verify", core.PanicClass(v), "fault %q: %s at %s", p.Fault, v, st)
		return
	}
	run.Event("verifier", "dleq", p.Fault, ok)
	run.Tick(1)
	if !faulted && !ok {
		run.Violate(comp+".Verify", "rejects-honest-proof", "batch of %d", n)
	}
	if faulted && ok {
		run.Violate(comp+".Verify", "accepts-"+p.Fault, "batch of %d, pos %d", n, p.Pos)
	}
}

func execDL(p *Plan, run *core.Run) {
	if p.Suite < 0 || p.Suite > 3 {
		run.Bad("params")
		return
	}
	g := zkGroups[p.Suite]
	comp := fmt.Sprintf("zk/dl[%v]", g)
	run.T(comp, p.Fault)
	data := core.NewStream(p.Seed)
	k := g.RandomNonZeroScalar(data)
	G := g.HashToElement([]byte{byte(p.Seed)}, []byte("G"))
	kG := g.NewElement().Mul(G, k)
	// the prover's context strings lie in one frame, other-info || user-id || next field (as
	// they do when they are parsed out of a message): each is a sub-slice whose capacity
	// runs on over what follows it. The verifier is another party with copies of its own.
	frame := []byte("other-infouser-idnext-field-of-the-message")
	frame0 := append([]byte{}, frame...)
	pOther, pUID := frame[:10], frame[10:17]
	proof := dl.Prove(g, G, kG, k, pUID, pOther, data)
	if !bytes.Equal(frame, frame0) {
		run.Violate(comp+".Prove", "modifies-memory-behind-its-input", "the frame holding the context strings was %q before Prove and is %q after it", frame0, frame)
		return
	}
	run.Fault("aliasing:context-strings-share-a-frame")
	if p.Seed%2 == 1 {
		// history: a second proof made from the same frame is the one that is sent
		proof = dl.Prove(g, G, kG, k, pUID, pOther, data)
		run.Fault("history:second-proof-from-the-same-context-buffer")
	}
	uid, other := []byte("user-id"), []byte("other-info")
	faulted := true
	switch p.Fault {
	case "":
		faulted = false
	case "V-alter":
		proof.V = otherElement(g, proof.V, p.Pos)
	case "R-alter":
		proof.R = g.NewScalar().Add(proof.R, g.NewScalar().SetUint64(1))
	case "kG-alter":
		kG = otherElement(g, kG, p.Pos)
	case "G-alter":
		G = otherElement(g, G, p.Pos)
	case "userid":
		uid = []byte("user-iD")
	case "otherinfo":
		other = []byte("other-infO")
	case "V-identity-R-zero":
		kG = otherElement(g, kG, 1)
		proof.V, proof.R = g.Identity(), g.NewScalar()
	case "false-statement":
		kG = otherElement(g, kG, 2)
	default:
		run.Bad("fault")
		return
	}
	if faulted {
		run.Fault("transport:" + p.Fault)
	}
	ok := false
	vframe := append(append(append([]byte{}, other...), uid...), "tail"...)
	vframe0 := append([]byte{}, vframe...)
	vOther, vUID := vframe[:len(other)], vframe[len(other):len(other)+len(uid)]
	pan, v, st := core.Try(func() { ok = dl.Verify(g, G, kG, proof, vUID, vOther) })
	if pan {
		run.Violate(comp+".Verify", core.PanicClass(v), "%s at %s", v, st)
		return
	}
	if !bytes.Equal(vframe, vframe0) {
		run.Violate(comp+".Verify", "modifies-memory-behind-its-input", "the frame holding the verifier's context strings was %q before Verify and is %q after it", vframe0, vframe)
		return
	}
	run.Event("verifier", "dl", p.Fault, ok)
	run.Tick(1)
	if !faulted && !ok {
		run.Violate(comp+".Verify", "rejects-honest-proof", "")
	}
	if faulted && ok {
		run.Violate(comp+".Verify", "accepts-"+p.Fault, "pos %d", p.Pos)
	}
}

func execQN(p *Plan, run *core.Run) {
	comp := "zk/qndleq"
	run.T(comp, p.Fault)
	N := new(big.Int).Set(fixtures.RSAKey("safe-1024-a").N)
	data := core.NewStream(p.Seed)
	x, _ := rand.Int(data, N)
	g, err := qndleq.SampleQn(data, N)
	if err != nil {
		panic("HARNESS: SampleQn")
	}
	h, _ := qndleq.SampleQn(data, N)
	gx := new(big.Int).Exp(g, x, N)
	hx := new(big.Int).Exp(h, x, N)
	const sec = 128
	proof, err := qndleq.Prove(data, x, g, gx, h, hx, N, sec)
	if err != nil {
		run.Violate(comp+".Prove", "error", "%v", err)
		return
	}
	one := big.NewInt(1)
	faulted := true
	switch p.Fault {
	case "":
		faulted = false
	case "Z-alter":
		proof.Z = new(big.Int).Add(proof.Z, one)
	case "C-alter":
		proof.C = new(big.Int).Add(proof.C, one)
	case "g-alter":
		g = new(big.Int).Mul(g, g)
		g.Mod(g, N)
	case "gx-alter":
		gx = new(big.Int).Mul(gx, g)
		gx.Mod(gx, N)
	case "h-alter":
		h = new(big.Int).Mul(h, h)
		h.Mod(h, N)
	case "hx-alter":
		hx = new(big.Int).Mul(hx, h)
		hx.Mod(hx, N)
	case "N-alter":
		N = new(big.Int).Add(N, big.NewInt(2))
	case "degenerate-secparam0":
		// a false statement with a proof assembled from prover-chosen parameters:
		// zero-length challenge (SecParam = 0), C = 0, arbitrary Z
		hx = new(big.Int).Mul(hx, h)
		hx.Mod(hx, N)
		proof = &qndleq.Proof{Z: big.NewInt(int64(7 + p.Pos%100)), C: big.NewInt(0), SecParam: 0}
	case "forge-hx-zero", "forge-gx-zero", "forge-h-zero":
		// an adversarial prover sets one statement element to the non-unit 0 (a false / ill-formed
		// statement) and assembles the proof with the corresponding commitment equal to 0, using
		// the public Fiat-Shamir hash of the scheme (SHAKE256 over the six padded values)
		zero := big.NewInt(0)
		r, _ := rand.Int(data, N)
		gP, hP := new(big.Int).Exp(g, r, N), new(big.Int).Exp(h, r, N)
		switch p.Fault {
		case "forge-hx-zero":
			hx, hP = zero, zero
		case "forge-gx-zero":
			gx, gP = zero, zero
		case "forge-h-zero":
			h, hx, hP = zero, new(big.Int).Set(hx), zero
		}
		nb := (N.BitLen() + 7) / 8
		var in []byte
		for _, v := range []*big.Int{g, h, gx, hx, gP, hP} {
			in = append(in, v.FillBytes(make([]byte, nb))...)
		}
		c := new(big.Int).SetBytes(keccak.SHAKE256(in, sec/8))
		z := new(big.Int).Mul(c, x)
		z.Add(z, r)
		proof = &qndleq.Proof{Z: z, C: c, SecParam: sec}
	case "zero-Z":
		hx = new(big.Int).Mul(hx, h)
		hx.Mod(hx, N)
		proof = &qndleq.Proof{Z: big.NewInt(0), C: big.NewInt(0), SecParam: sec}
	case "false-statement":
		hx = new(big.Int).Mul(hx, h)
		hx.Mod(hx, N)
	default:
		run.Bad("fault")
		return
	}
	if faulted {
		run.Fault("transport:" + p.Fault)
	}
	ok := false
	pan, v, st := core.Try(func() { ok = proof.Verify(g, gx, h, hx, N) })
	if pan {
		run.Violate(comp+".Verify", core.PanicClass(v), "%s at %s", v, st)
		return
	}
	run.Event("verifier", "qndleq", p.Fault, ok)
	run.Tick(1)
	if !faulted && !ok {
		run.Violate(comp+".Verify", "rejects-honest-proof", "")
	}
	if faulted && ok {
		run.Violate(comp+".Verify", "accepts-"+p.Fault, "a proof verifies although %s", p.Fault)
	}
}

func execOT(p *Plan, run *core.Run) {
	if p.Suite < 0 || p.Suite > 3 || p.Choice < 0 || p.Choice > 1 || p.MLen < 0 || p.MLen > 1000 {
		run.Bad("params")
		return
	}
	g := zkGroups[p.Suite]
	comp := fmt.Sprintf("ot/simot[%v]", g)
	run.T(comp, p.Fault, fmt.Sprint(p.Choice))
	data := core.NewPRNG(p.Seed)
	m0, m1 := data.Bytes(p.MLen), data.Bytes(p.MLen)
	var s simot.Sender
	var r simot.Receiver
	A := s.InitSender(g, append([]byte{}, m0...), append([]byte{}, m1...), 0)
	// messages cross the transport marshalled
	Ab, _ := A.MarshalBinary()
	A2 := g.NewElement()
	if A2.UnmarshalBinary(Ab) != nil {
		run.Violate(comp, "element-does-not-survive-marshalling", "A")
		return
	}
	B := r.Round1Receiver(g, p.Choice, 0, A2)
	Bb, _ := B.MarshalBinary()
	B2 := g.NewElement()
	if B2.UnmarshalBinary(Bb) != nil {
		run.Violate(comp, "element-does-not-survive-marshalling", "B")
		return
	}
	e0, e1 := s.Round2Sender(B2)
	run.Tick(3)
	if p.Fault == "open-other" {
		run.Fault("adversary:receiver-opens-other-ciphertext")
		err := r.Round3Receiver(e0, e1, 1-p.Choice)
		other := m1
		if p.Choice == 1 {
			other = m0
		}
		run.Event("receiver", "round3-other", err)
		if err == nil && bytes.Equal(r.Returnmc(), other) && !bytes.Equal(m0, m1) {
			run.Violate(comp+".Round3Receiver", "receiver-decrypts-the-other-message", "choice %d", p.Choice)
		}
		return
	}
	err := r.Round3Receiver(e0, e1, p.Choice)
	run.Event("receiver", "round3", err)
	want := m0
	if p.Choice == 1 {
		want = m1
	}
	if err != nil || !bytes.Equal(r.Returnmc(), want) {
		run.Violate(comp+".Round3Receiver", "receiver-does-not-get-chosen-message", "choice %d, |m|=%d: err=%v", p.Choice, p.MLen, err)
	}
}

func exec(planJSON []byte, run *core.Run) {
	var p Plan
	if json.Unmarshal(planJSON, &p) != nil {
		run.Bad("json")
		return
	}
	rand.Reader = core.NewStream(p.Seed + 77)
	switch p.Kind {
	case "oprf":
		execOPRF(&p, run)
	case "dleq":
		execDLEQ(&p, run)
	case "dl":
		execDL(&p, run)
	case "qndleq":
		execQN(&p, run)
	case "ot":
		execOT(&p, run)
	default:
		run.Bad("kind")
	}
}

func main() {
	core.Main(&core.Property{
		ID:    "C16",
		Level: "exploration",
		Rule: "seeded plans: OPRF (4 suites x 3 modes x derived keys x batches of 1..5 inputs of lengths 0..70 x info x blinds from the entropy device) with one transport fault {evaluated element replaced / bit-flipped / identity / two entries swapped, proof c or s altered, another public key, altered info, blinded element altered on the way to the server} and history faults (finalise twice, one blind object for two inputs, one input twice in a batch - with the shared blind: one blinded element twice); zk/dleq single and batch, zk/dl, zk/qndleq with every single-component alteration and degenerate-field faults (zero c/s, identity elements, SecParam=0 with C=0); simot three rounds for both choices and the attempt to open the other ciphertext; directed: every suite x mode x fault; " +
			"non-trivial = a fault fired; distinct = distinct abstract trace",
		Assumptions: []string{
			"byte-equality with the RFC 9497 vectors is a pure-function clause left to the repository's own vector test",
			"in base mode (no proof) an altered evaluation cannot be detected by the client; only 'does not yield the honest output' is asserted",
			"the Qn-DLEQ modulus is the fixture safe-prime RSA modulus",
		},
		Components: map[string]string{
			"oprf client/server (all modes), zk/dleq, zk/dl, zk/qndleq, ot/simot, group": "real",
			"messages between client and server / prover and verifier":                   "stub: simulated transport, every element and proof marshalled and re-parsed, with alteration faults",
			"blinds, proof randomness, crypto/rand.Reader":                               "stub: deterministic entropy device",
		},
		Directed: directed,
		Gen:      gen,
		Exec:     exec,
		Runs:     map[string]int{"quick": 5000, "thorough": 300000},
		WallCap:  map[string]time.Duration{"quick": 100 * time.Second, "thorough": 14 * time.Minute},
	})
}
