// C08 — an HPKE context never reuses a nonce and stays in lock-step through any
// history. netsim: a sealing node and an opening node joined by a faulty
// transport (loss, duplication, reordering, corruption, foreign records), a
// faulty "disk" (either node is migrated through MarshalBinary/Unmarshal at any
// event), judged after every event against a two-counter reference model whose
// AEAD is the standard library's.
package main

import (
	"bytes"
	"encoding/json"
	"fmt"
	"time"

	"circlsim/core"
	"circlsim/refmodel/hpkeref"

	"github.com/cloudflare/circl/hpke"
)

type Op struct {
	K    string `json:"k"`             // seal | deliver | garbage | foreign | maxrec | migrate | export
	Pt   string `json:"pt,omitempty"`  // seal
	Aad  string `json:"aad,omitempty"` // seal
	Rec  int    `json:"rec,omitempty"` // deliver / foreign: record index
	F    string `json:"f,omitempty"`   // deliver fault: "" | flip | trunc | extend | aad
	Pos  int    `json:"pos,omitempty"` // fault position (bit index / new length / extra bytes)
	Side string `json:"side,omitempty"`
	Data string `json:"data,omitempty"` // garbage / export context
	Len  int    `json:"len,omitempty"`  // export length
}

type Plan struct {
	KDF   int    `json:"kdf"`
	AEAD  int    `json:"aead"`
	Seed  uint64 `json:"seed"`
	Info  string `json:"info"`
	Start string `json:"start"` // hex 12-byte starting sequence number; "" = use contexts as set up (0)
	Ops   []Op   `json:"ops"`
	Heal  bool   `json:"heal"`
}

var startPoints = []string{
	"", "000000000000000000000000", "000000000000000000000001",
	"0000000000000000000000fe", "0000000000000000000000ff",
	"00000000000000000000fffe", "00000000000000000000ffff", "000000000000000000fffffe",
	"0000000000000000fffffffe", "0000000000000000ffffffff",
	"00000000fffffffffffffffe", "00000000ffffffffffffffff", "000000fffffffffffffffffe",
	"fffffffffffffffffffffffc", "fffffffffffffffffffffffd", "fffffffffffffffffffffffe", "ffffffffffffffffffffffff",
	"00ffffffffffffffffffffff", "7fffffffffffffffffffffff", "0000ffffffffffffffffffff",
}

func gen(r *core.PRNG, tier string) any {
	p := &Plan{KDF: r.Range(1, 3), AEAD: r.Range(1, 3), Seed: r.Uint64(), Info: r.Hex(r.Intn(20)), Heal: true}
	if r.Chance(3, 4) {
		p.Start = startPoints[r.Intn(len(startPoints))]
	} else if r.Chance(1, 2) {
		// a random point whose low bytes are 0xff… so that a carry chain runs
		b := r.Bytes(12)
		k := r.Range(1, 11)
		for i := 12 - k; i < 12; i++ {
			b[i] = 0xff
		}
		b[11] = byte(0xfd + r.Intn(3))
		p.Start = core.X(b)
	}
	n := r.Range(3, 40)
	if tier == "thorough" && r.Chance(1, 10) {
		n = r.Range(200, 600) // long runs cross byte boundaries from 0 by themselves
	}
	// swarm: per-run enabled fault kinds
	enable := map[string]bool{}
	for _, k := range []string{"drop", "dup", "reorder", "flip", "trunc", "extend", "aad", "garbage", "foreign", "maxrec", "migrate", "export"} {
		enable[k] = r.Chance(1, 2)
	}
	sealed := 0
	for i := 0; i < n; i++ {
		switch r.Pick(40, 35, 5, 4, 3, 8, 5) {
		case 0:
			p.Ops = append(p.Ops, Op{K: "seal", Pt: r.Hex(r.EdgeLen(48, 0, 16)), Aad: r.Hex(r.EdgeLen(24, 0))})
			sealed++
			// usually deliver right away (most runs must make progress); faults perturb that
			if r.Chance(3, 4) || !enable["drop"] {
				d := Op{K: "deliver", Rec: sealed - 1}
				p.Ops = append(p.Ops, d)
			}
		case 1:
			if sealed == 0 {
				continue
			}
			d := Op{K: "deliver", Rec: r.Intn(sealed)}
			if r.Chance(1, 2) {
				d.Rec = sealed - 1 - r.Intn(min(sealed, 3))
			}
			fk := []string{"", "flip", "trunc", "extend", "aad"}[r.Pick(3, 3, 2, 1, 2)]
			if fk != "" && !enable[fk] {
				fk = ""
			}
			if fk == "" && !enable["dup"] && !enable["reorder"] {
				continue
			}
			d.F = fk
			d.Pos = r.Intn(1 << 12)
			p.Ops = append(p.Ops, d)
		case 2:
			if enable["garbage"] {
				p.Ops = append(p.Ops, Op{K: "garbage", Data: r.Hex(r.EdgeLen(40, 0, 15, 16, 17))})
			}
		case 3:
			if enable["foreign"] && sealed > 0 {
				p.Ops = append(p.Ops, Op{K: "foreign", Rec: r.Intn(sealed)})
			}
		case 4:
			if enable["maxrec"] {
				p.Ops = append(p.Ops, Op{K: "maxrec"})
			}
		case 5:
			if enable["migrate"] {
				p.Ops = append(p.Ops, Op{K: "migrate", Side: []string{"s", "r"}[r.Intn(2)]})
			}
		case 6:
			if enable["export"] {
				p.Ops = append(p.Ops, Op{K: "export", Side: []string{"s", "r"}[r.Intn(2)], Data: r.Hex(r.Intn(12)), Len: r.EdgeLen(255*32, 0, 32, 64)})
			}
		}
	}
	return p
}

func min(a, b int) int {
	if a < b {
		return a
	}
	return b
}

// directed: every start point x every AEAD with a fixed small history that
// seals across the boundary, delivers out of order, fails opens and migrates.
func directed(tier string) []any {
	var out []any
	for _, sp := range startPoints {
		for aead := 1; aead <= 3; aead++ {
			p := &Plan{KDF: 1, AEAD: aead, Seed: uint64(aead), Start: sp, Heal: true}
			for i := 0; i < 5; i++ {
				p.Ops = append(p.Ops, Op{K: "seal", Pt: "aa55", Aad: "01"})
			}
			p.Ops = append(p.Ops,
				Op{K: "deliver", Rec: 1}, Op{K: "deliver", Rec: 0, F: "flip", Pos: 3}, Op{K: "deliver", Rec: 0},
				Op{K: "migrate", Side: "r"}, Op{K: "deliver", Rec: 0}, Op{K: "deliver", Rec: 1},
				Op{K: "migrate", Side: "s"}, Op{K: "seal", Pt: "00", Aad: ""}, Op{K: "maxrec"},
				Op{K: "export", Side: "s", Data: "01", Len: 32}, Op{K: "export", Side: "r", Data: "01", Len: 32})
			out = append(out, p)
		}
	}
	return out
}

type record struct {
	seq, ct, pt, aad []byte
}

func allOnes(b []byte) bool {
	for _, x := range b {
		if x != 0xff {
			return false
		}
	}
	return true
}

func exec(planJSON []byte, run *core.Run) {
	var p Plan
	if err := json.Unmarshal(planJSON, &p); err != nil {
		run.Bad("json")
		return
	}
	if p.KDF < 1 || p.KDF > 3 || p.AEAD < 1 || p.AEAD > 3 {
		run.Bad("suite")
		return
	}
	suite := hpke.NewSuite(hpke.KEM_X25519_HKDF_SHA256, hpke.KDF(p.KDF), hpke.AEAD(p.AEAD))
	ent := core.NewStream(p.Seed)
	seedR := make([]byte, 32)
	ent.Read(seedR)
	pkR, skR := hpke.KEM_X25519_HKDF_SHA256.Scheme().DeriveKeyPair(seedR)
	info := core.H(p.Info)
	snd, err := suite.NewSender(pkR, info)
	if err != nil {
		panic("HARNESS: NewSender: " + err.Error())
	}
	enc, sealer, err := snd.Setup(ent)
	if err != nil {
		run.Violate("hpke.Sender.Setup", "error-on-honest-setup", "%v", err)
		return
	}
	rcv, _ := suite.NewReceiver(skR, info)
	opener, err := rcv.Setup(enc)
	if err != nil {
		run.Violate("hpke.Receiver.Setup", "error-on-honest-setup", "%v", err)
		return
	}
	run.Event("setup", "contexts", p.KDF, p.AEAD, enc)

	// read key material from the documented marshalled form
	rawS, err := sealer.MarshalBinary()
	if err != nil {
		run.Violate("hpke.Sealer.MarshalBinary", "error", "%v", err)
		return
	}
	ms, err := hpkeref.ParseMarshalled(rawS)
	if err != nil || len(ms.Seq) != 12 || len(ms.Nonce) != 12 {
		run.Violate("hpke.Sealer.MarshalBinary", "format", "marshalled sealer does not follow the documented format: %v", err)
		return
	}
	rawR, _ := opener.MarshalBinary()
	mr, err := hpkeref.ParseMarshalled(rawR)
	if err != nil {
		run.Violate("hpke.Opener.MarshalBinary", "format", "marshalled opener does not follow the documented format: %v", err)
		return
	}
	if !bytes.Equal(ms.Key, mr.Key) || !bytes.Equal(ms.Nonce, mr.Nonce) || !bytes.Equal(ms.Exporter, mr.Exporter) {
		run.Violate("hpke.Setup", "sides-disagree", "sealer and opener hold different key material")
		return
	}
	model, err := hpkeref.FromParts(hpkeref.Suite{KEM: hpkeref.KEMX25519, KDF: uint16(p.KDF), AEAD: uint16(p.AEAD)}, ms.Key, ms.Nonce, ms.Exporter)
	if err != nil {
		panic("HARNESS: model aead: " + err.Error())
	}
	// foreign context: same suite, different key
	fkey := append([]byte{}, ms.Key...)
	fkey[0] ^= 1
	foreign, _ := hpkeref.FromParts(model.Suite, fkey, ms.Nonce, ms.Exporter)

	is := make([]byte, 12) // model: sender counter
	ir := make([]byte, 12) // model: receiver counter
	if p.Start != "" {
		st := core.H(p.Start)
		if len(st) != 12 {
			run.Bad("start")
			return
		}
		ms.Seq = append([]byte{}, st...)
		mr.Seq = append([]byte{}, st...)
		s2, err := hpke.UnmarshalSealer(ms.Bytes())
		if err != nil {
			run.Violate("hpke.UnmarshalSealer", "rejects-valid-context", "%v", err)
			return
		}
		o2, err := hpke.UnmarshalOpener(mr.Bytes())
		if err != nil {
			run.Violate("hpke.UnmarshalOpener", "rejects-valid-context", "%v", err)
			return
		}
		sealer, opener = s2, o2
		copy(is, st)
		copy(ir, st)
		run.Event("disk", "craft", st)
	}
	startSeq := append([]byte{}, is...)

	var recs []record
	opened := map[int]bool{}
	nonces := map[string]bool{}

	checkState := func(where string) bool {
		rs, err := sealer.MarshalBinary()
		if err != nil {
			run.Violate("hpke.Sealer.MarshalBinary", "error", "%v", err)
			return false
		}
		m1, err := hpkeref.ParseMarshalled(rs)
		if err != nil || !bytes.Equal(m1.Seq, is) {
			got := []byte(nil)
			if m1 != nil {
				got = m1.Seq
			}
			run.Violate("hpke.Sealer", "sequence-number-diverged", "after %s the sealer's sequence number is %x, the model's %x", where, got, is)
			return false
		}
		if !bytes.Equal(m1.Key, ms.Key) || !bytes.Equal(m1.Nonce, ms.Nonce) || !bytes.Equal(m1.Exporter, ms.Exporter) {
			run.Violate("hpke.Sealer", "secrets-changed", "after %s the sealer's key material changed", where)
			return false
		}
		ro, err := opener.MarshalBinary()
		if err != nil {
			run.Violate("hpke.Opener.MarshalBinary", "error", "%v", err)
			return false
		}
		m2, err := hpkeref.ParseMarshalled(ro)
		if err != nil || !bytes.Equal(m2.Seq, ir) {
			got := []byte(nil)
			if m2 != nil {
				got = m2.Seq
			}
			run.Violate("hpke.Opener", "sequence-number-diverged", "after %s the opener's sequence number is %x, the model's %x", where, got, ir)
			return false
		}
		if !bytes.Equal(m2.Key, ms.Key) || !bytes.Equal(m2.Nonce, ms.Nonce) || !bytes.Equal(m2.Exporter, ms.Exporter) {
			run.Violate("hpke.Opener", "secrets-changed", "after %s the opener's key material changed", where)
			return false
		}
		return true
	}

	// deliver presents (ct, aad) to the opener; want != nil means the model says it must open to want.
	deliver := func(what string, ct, aad, want []byte, mustOpen bool) bool {
		run.Tick(1)
		// the record sits in a receive buffer of the transport: Open may not change it (the same
		// bytes are retransmitted later), and the buffer is reused as soon as Open has returned
		rbuf, abuf := append([]byte{}, ct...), append([]byte{}, aad...)
		pt, err := opener.Open(rbuf, abuf)
		run.Event("receiver", "open:"+what, ct, err)
		if !bytes.Equal(rbuf, ct) || !bytes.Equal(abuf, aad) {
			run.Violate("hpke.Opener.Open", "modifies-its-input", "%s (err=%v): the ciphertext / aad buffer handed to Open changed", what, err)
			return false
		}
		core.Recycle(rbuf)
		core.Recycle(abuf)
		if mustOpen {
			if err != nil {
				run.Violate("hpke.Opener.Open", "rejects-in-order-record", "%s: the record for sequence number %x did not open: %v", what, ir, err)
				return false
			}
			if !bytes.Equal(pt, want) {
				run.Violate("hpke.Opener.Open", "wrong-plaintext", "%s: opened to %x, sealed %x", what, pt, want)
				return false
			}
			return true
		}
		if err == nil {
			run.Violate("hpke.Opener.Open", "opens-what-it-must-not", "%s: opened (to %x) although the model refuses it at sequence number %x", what, pt, ir)
			return false
		}
		if len(pt) != 0 {
			run.Violate("hpke.Opener.Open", "releases-plaintext-on-failure", "%s: error returned together with %d plaintext bytes", what, len(pt))
			return false
		}
		return true
	}

	step := func(i int, op Op) bool {
		switch op.K {
		case "seal":
			pt, aad := core.H(op.Pt), core.H(op.Aad)
			run.Tick(1)
			ct, err := sealer.Seal(pt, aad)
			run.Event("sender", "seal", ct, err)
			if allOnes(is) {
				run.Probe("overflow-reached-seal")
				run.T("seal", "overflow")
				if err == nil {
					run.Violate("hpke.Sealer.Seal", "seals-at-maximum-sequence-number", "seal succeeded at sequence number %x", is)
					return false
				}
				if len(ct) != 0 {
					run.Violate("hpke.Sealer.Seal", "releases-ciphertext-on-overflow", "error returned together with %d ciphertext bytes", len(ct))
					return false
				}
				return true
			}
			if err != nil {
				run.Violate("hpke.Sealer.Seal", "error-below-maximum", "seal failed at sequence number %x: %v", is, err)
				return false
			}
			want := model.Seal(is, pt, aad)
			if !bytes.Equal(ct, want) {
				run.Violate("hpke.Sealer.Seal", "nonce-not-base-xor-seq", "successful seal number %x does not equal AEAD(key, base_nonce XOR seq): got %x want %x", is, ct, want)
				return false
			}
			nk := string(model.Nonce(is))
			if nonces[nk] {
				run.Violate("hpke.Sealer.Seal", "nonce-reuse", "nonce %x used twice", nk)
				return false
			}
			nonces[nk] = true
			recs = append(recs, record{append([]byte{}, is...), ct, pt, aad})
			ni, _ := hpkeref.IncSeq(is)
			for b := 11; b >= 1; b-- {
				if is[b] == 0xff && ni[b] == 0 {
					run.Probe(fmt.Sprintf("carry-across-byte-%d", 12-b))
				} else {
					break
				}
			}
			is = ni
			run.T("seal", "ok")
		case "deliver":
			if op.Rec < 0 || op.Rec >= len(recs) {
				return true // record does not exist (yet): nothing on the wire
			}
			rc := recs[op.Rec]
			ct, aad := append([]byte{}, rc.ct...), append([]byte{}, rc.aad...)
			fault := op.F
			switch op.F {
			case "flip":
				b := op.Pos % (len(ct) * 8)
				ct[b/8] ^= 1 << (b % 8)
			case "trunc":
				ct = ct[:op.Pos%len(ct)]
			case "extend":
				ct = append(ct, byte(op.Pos), byte(op.Pos>>8))
			case "aad":
				if len(aad) == 0 {
					aad = []byte{byte(op.Pos)}
				} else {
					aad[op.Pos%len(aad)] ^= 0x80
				}
			case "":
			default:
				run.Bad("fault kind")
				return false
			}
			inOrder := bytes.Equal(rc.seq, ir)
			if fault != "" {
				run.Fault("transport:" + fault)
				if inOrder {
					run.Probe("corrupted-record-at-expected-position")
				}
				run.T("deliver", fault)
				return deliver("corrupt:"+fault, ct, aad, nil, false)
			}
			if inOrder {
				if !deliver("in-order", ct, aad, rc.pt, true) {
					return false
				}
				if opened[op.Rec] {
					panic("HARNESS: model opened a record twice")
				}
				opened[op.Rec] = true
				ir, _ = hpkeref.IncSeq(ir)
				run.T("deliver", "ok")
				return true
			}
			if opened[op.Rec] {
				run.Fault("transport:duplicate")
				run.T("deliver", "dup")
			} else {
				run.Fault("transport:reorder")
				run.T("deliver", "early")
			}
			return deliver("out-of-order", ct, aad, nil, false)
		case "garbage":
			run.Fault("transport:garbage")
			run.T("garbage")
			return deliver("garbage", core.H(op.Data), nil, nil, false)
		case "foreign":
			if op.Rec < 0 || op.Rec >= len(recs) {
				return true
			}
			rc := recs[op.Rec]
			run.Fault("transport:foreign-context")
			run.T("foreign")
			return deliver("foreign", foreign.Seal(ir, rc.pt, rc.aad), rc.aad, nil, false)
		case "maxrec":
			// a well-formed record for the opener's current position, made by the model.
			// At the maximum sequence number it must be refused; below it, it is
			// simply the in-order record of a sender the model impersonates — skipped
			// unless the receiver is at the maximum, to keep lock-step bookkeeping simple.
			if !allOnes(ir) {
				return true
			}
			run.Probe("overflow-reached-open")
			run.T("maxrec")
			return deliver("record-at-maximum", model.Seal(ir, []byte("x"), nil), nil, nil, false)
		case "migrate":
			run.Tick(1)
			if op.Side == "s" {
				raw, err := sealer.MarshalBinary()
				if err != nil {
					run.Violate("hpke.Sealer.MarshalBinary", "error", "%v", err)
					return false
				}
				s2, err := hpke.UnmarshalSealer(raw)
				if err != nil {
					run.Violate("hpke.UnmarshalSealer", "rejects-own-output", "%v", err)
					return false
				}
				sealer = s2
				for i := range raw { // the disk buffer is reused by the caller
					raw[i] = 0xa5
				}
				run.Fault("disk:migrate-sealer")
				if len(recs) > len(opened) {
					run.Probe("migrate-between-seal-and-open")
				}
			} else if op.Side == "r" {
				raw, err := opener.MarshalBinary()
				if err != nil {
					run.Violate("hpke.Opener.MarshalBinary", "error", "%v", err)
					return false
				}
				o2, err := hpke.UnmarshalOpener(raw)
				if err != nil {
					run.Violate("hpke.UnmarshalOpener", "rejects-own-output", "%v", err)
					return false
				}
				opener = o2
				for i := range raw { // the disk buffer is reused by the caller
					raw[i] = 0xa5
				}
				run.Fault("disk:migrate-opener")
				if len(recs) > len(opened) {
					run.Probe("migrate-between-seal-and-open")
				}
			} else {
				run.Bad("side")
				return false
			}
			run.Event("disk", "migrate", op.Side)
			run.T("migrate", op.Side)
		case "export":
			if op.Len < 0 || op.Len > 255*hpkeref.Nh(uint16(p.KDF)) {
				return true // documented panic beyond 255*Nh: not part of this property
			}
			var c hpke.Context = sealer
			if op.Side == "r" {
				c = opener
			}
			got := c.Export(core.H(op.Data), uint(op.Len))
			want := model.Export(core.H(op.Data), op.Len)
			run.Event("export", op.Side, got)
			run.T("export")
			if !bytes.Equal(got, want) {
				run.Violate("hpke.Context.Export", "export-differs", "export(%x,%d) on side %q = %x, model %x", core.H(op.Data), op.Len, op.Side, got, want)
				return false
			}
		default:
			run.Bad("op kind " + op.K)
			return false
		}
		return true
	}

	for i, op := range p.Ops {
		if !step(i, op) || run.Invalid {
			return
		}
		if !checkState(fmt.Sprintf("op %d (%s)", i, op.K)) {
			return
		}
	}
	_ = startSeq
	// heal phase: faults stop, lost records are retransmitted in order; every
	// record the sender sealed must be opened within (number of pending records) events.
	if p.Heal {
		pending := 0
		for j := range recs {
			if !opened[j] {
				pending++
			}
		}
		events := 0
		for j := range recs {
			if opened[j] {
				continue
			}
			events++
			run.Fault("transport:loss-then-retransmit")
			if !step(-1, Op{K: "deliver", Rec: j}) {
				return
			}
			if !opened[j] {
				run.Violate("hpke.Opener.Open", "liveness-after-heal", "record %d was not opened after faults stopped", j)
				return
			}
		}
		if events != pending {
			panic("HARNESS: heal bookkeeping")
		}
		if !checkState("heal") {
			return
		}
		if pending > 0 {
			run.Probe("heal-retransmitted")
		}
		// history: the receiver is asked for a context for the same encapsulated key once more
		// (a restarted worker, a second reader). It starts at sequence number zero and shares
		// nothing with the first opener.
		if len(recs) > 0 && p.Start == "" && bytes.Equal(recs[0].seq, make([]byte, 12)) {
			op2, err := rcv.Setup(append([]byte{}, enc...))
			if err != nil {
				run.Violate("hpke.Receiver.Setup", "error-on-second-setup", "%v", err)
				return
			}
			run.Fault("history:second-opener-from-the-same-receiver")
			pt, err := op2.Open(append([]byte{}, recs[0].ct...), append([]byte{}, recs[0].aad...))
			if err != nil || !bytes.Equal(pt, recs[0].pt) {
				run.Violate("hpke.Receiver.Setup", "second-opener-not-fresh", "a second opener set up from the same receiver and encapsulated key does not open the first record: err=%v", err)
				return
			}
			if !checkState("a second opener was set up and used") {
				return
			}
		}
	}
}

func main() {
	core.Main(&core.Property{
		ID:    "C08",
		Level: "exploration",
		Rule: "seeded plans: AEAD x KDF x start sequence number (0, 1, 2^8-2.., 2^16-2.., 2^32-2.., 2^64-2.., 2^96-4..2^96-1, random carry chains) x " +
			"3..40 (thorough: up to 600) events {seal, deliver in/out of order/duplicate, corrupt (flip/trunc/extend/aad), garbage, foreign-context record, record at the maximum, migrate either side through Marshal/Unmarshal, export}, then a heal phase; " +
			"non-trivial = at least one transport/disk fault fired; distinct = distinct abstract trace (op kind, fault kind, outcome)",
		Assumptions: []string{
			"crypto/aes, crypto/cipher GCM and x/crypto/chacha20poly1305 are the reference AEADs",
			"key, base nonce, exporter secret and sequence number are read from circl's documented marshalled context format",
			"Export lengths above 255*Nh (documented panic) are not exercised",
		},
		Components: map[string]string{
			"hpke.Sealer/Opener/Marshal/Unmarshal/Export (circl)": "real",
			"transport between sealer and opener":                 "stub: seeded simulated transport (loss, duplication, reordering, corruption)",
			"persistence of contexts":                             "stub: simulated disk = MarshalBinary bytes, object discarded",
			"entropy for Sender.Setup":                            "stub: deterministic entropy device",
			"AEAD/nonce/counter oracle":                           "model: hpkeref (RFC 9180 section 5.2) over stdlib AEADs",
		},
		ProbeNames: []string{"overflow-reached-seal", "overflow-reached-open", "carry-across-byte-1", "carry-across-byte-2", "carry-across-byte-4", "carry-across-byte-8",
			"migrate-between-seal-and-open", "corrupted-record-at-expected-position", "heal-retransmitted"},
		Selftest: func() error { return hpkeref.Selftest(core.VerifDir() + "/fixtures/rfc9180.json") },
		Directed: directed,
		Gen:      gen,
		Exec:     exec,
		Runs:     map[string]int{"quick": 120000, "thorough": 4000000},
		WallCap:  map[string]time.Duration{"quick": 100 * time.Second, "thorough": 12 * time.Minute},
	})
}
