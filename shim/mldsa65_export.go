//go:build verif

package mldsa65

// VerifVerifyInternal / VerifSignInternal expose ML-DSA.Verify_internal and
// ML-DSA.Sign_internal (FIPS 204, Algorithms 7 and 8) to the simulator, which builds
// the message representative M' itself. Mapped into sign/mldsa/mldsa65 by
// go build -overlay; never committed to /repo.
func VerifVerifyInternal(pk *PublicKey, mprime, sig []byte) bool {
	return unsafeVerifyInternal(pk, mprime, sig)
}

func VerifSignInternal(sk *PrivateKey, mprime []byte, rnd [32]byte) []byte {
	return sk.unsafeSignInternal(mprime, rnd)
}
