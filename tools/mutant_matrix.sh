#!/bin/bash
# usage: tools/mutant_matrix.sh [name-regexp]  — runs every seeded change under /verif/seeded (or those whose
# directory name matches the regexp) against the quick check of the property it was written for and the checks
# named in its also_checks file, in a scratch worktree of /repo (the working tree of /repo and /verif/evidence are
# not touched). Writes /verif/seeded/RESULTS.md; with a regexp the rows of the matching changes are replaced.
set -u
V=/verif
OUT=/var/tmp/mm.$$; mkdir -p "$OUT"
RES="$V/seeded/RESULTS.md"
TMP="$RES.tmp.$$"   # per invocation: several filtered runs may go in parallel
echo "| seeded change | property | check run | result | first violation reported |" > "$TMP"
echo "|---|---|---|---|---|" >> "$TMP"
FILTER="${1:-.}"
for d in $V/seeded/*/; do
  echo "$(basename $d)" | grep -Eq "$FILTER" || continue
  n=$(basename "$d"); id=${n%%-*}
  [ -f "$d/patch.diff" ] || continue
  if [ -f "$d/neutralised" ]; then echo "| $n | $id | - | $(cat $d/neutralised) | |" >> "$TMP"; continue; fi
  checks="$id"
  [ -f "$d/also_checks" ] && checks="$checks $(cat $d/also_checks)"
  for c in $checks; do
    WT=/tmp/mm.$$.$n; rm -rf "$WT"; git -C /repo worktree prune
    git -C /repo worktree add -q --detach "$WT" HEAD || continue
    if ! git -C "$WT" apply "$d/patch.diff" 2>/dev/null && ! git -C "$WT" apply --3way "$d/patch.diff" 2>/dev/null; then
      echo "| $n | $id | $c | patch no longer applies | |" >> "$TMP"
      git -C /repo worktree remove --force "$WT"; continue
    fi
    mkdir -p "$OUT/$n"
    VERIF_REPO="$WT" VERIF_OUT_DIR="$OUT/$n" "$V/bin/check" "$c" quick > "$OUT/$n/$c.log" 2>&1; rc=$?
    first=$(grep -m1 "^\[$id\].* — \|^\[C[0-9]*\] C[0-9]*|" "$OUT/$n/$c.log" | sed 's/|/\\|/g' | cut -c1-220)
    case $rc in 0) r="MISSED";; 1) r="caught";; *) r="harness trouble ($rc)";; esac
    echo "| $n | $id | $c | $r | $first |" >> "$TMP"
    git -C /repo worktree remove --force "$WT"
  done
done
exec 9>"$V/seeded/.results.lock"; flock 9
if [ "$FILTER" != "." ] && [ -f "$RES" ]; then
  python3 - "$RES" "$TMP" <<'PY'
import sys,re
old=open(sys.argv[1]).read().split('\n'); new=open(sys.argv[2]).read().split('\n')
names={l.split('|')[1].strip() for l in new[2:] if l.startswith('|')}
rows=[l for l in old[2:] if l.startswith('|') and l.split('|')[1].strip() not in names]+[l for l in new[2:] if l.startswith('|')]
key=lambda l:(l.split('|')[1].strip().split('-')[0], int(l.split('|')[1].strip().split('-m')[1]), l.split('|')[3].strip())
open(sys.argv[2],'w').write('\n'.join(old[:2]+sorted(rows,key=key))+'\n')
PY
fi
mv "$TMP" "$RES"; rm -rf "$OUT"
cat "$RES"
