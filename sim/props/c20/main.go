// C20 — CP-ABE decryption succeeds exactly when the attributes satisfy the
// policy. netsim: an authority (Setup, KeyGen), encryptors and 1..3 key holders;
// public keys, attribute keys, ciphertexts and policies travel marshalled /
// printed and are re-parsed on arrival; ciphertexts are corrupted, truncated or
// delivered to the wrong holder; the entropy device serves short reads. Judged
// against a small evaluator of the policy language's stated semantics.
package main

import (
	"bytes"
	"crypto/rand"
	"encoding/json"
	"fmt"
	"reflect"
	"sort"
	"time"

	"circlsim/core"

	"github.com/cloudflare/circl/abe/cpabe/tkn20"
)

// Node is a policy AST.
type Node struct {
	Op    string `json:"op"` // and | or | not | leaf
	L     *Node  `json:"l,omitempty"`
	R     *Node  `json:"r,omitempty"`
	Label string `json:"label,omitempty"`
	Value string `json:"value,omitempty"`
}

type Holder struct {
	Attrs   map[string]string `json:"attrs"`
	Restart bool              `json:"restart,omitempty"`
}

type Plan struct {
	Seed    uint64   `json:"seed"`
	Sys     int      `json:"sys"` // which cached authority (0..2)
	Policy  *Node    `json:"policy"`
	Holders []Holder `json:"holders"`
	MsgLen  int      `json:"msg_len"`
	Chunk   int      `json:"chunk,omitempty"` // entropy short reads
	Fault   string   `json:"fault,omitempty"` // "" | flip | trunc | extend | allflips
	Pos     int      `json:"pos,omitempty"`
	From    int      `json:"from,omitempty"`
	To      int      `json:"to,omitempty"`
	Spaces  int      `json:"spaces,omitempty"` // printing style
	// PolicyOnly: no cryptography; the policy object is parsed once and then observed many
	// times (Satisfaction, String, ExtractAttributeValuePairs) in an order drawn from Seed
	PolicyOnly bool `json:"policy_only,omitempty"`
}

var labels = []string{"a", "b", "c"}
var values = []string{"x", "y", "z"}

func genNode(r *core.PRNG, leaves int) *Node {
	if leaves <= 1 {
		n := &Node{Op: "leaf", Label: labels[r.Intn(3)], Value: values[r.Intn(3)]}
		if r.Chance(1, 4) {
			return negations(r, n)
		}
		return n
	}
	l := r.Range(1, leaves-1)
	n := &Node{Op: []string{"and", "or"}[r.Intn(2)], L: genNode(r, l), R: genNode(r, leaves-l)}
	if r.Chance(1, 5) {
		return negations(r, n)
	}
	return n
}

// negations wraps n in one negation, sometimes in a chain of two or three (a negation whose
// operand is itself a negation: printed with and without parentheses, see print).
func negations(r *core.PRNG, n *Node) *Node {
	k := 1
	if r.Chance(1, 3) {
		k = r.Range(2, 3)
	}
	for ; k > 0; k-- {
		n = &Node{Op: "not", L: n}
	}
	return n
}

func gen(r *core.PRNG, tier string) any {
	if r.Chance(2, 5) {
		p := &Plan{Seed: r.Uint64(), Policy: genNode(r, r.Range(1, 12)), Spaces: r.Intn(5), PolicyOnly: true}
		for i, n := 0, r.Range(2, 8); i < n; i++ {
			h := Holder{Attrs: map[string]string{}}
			for _, l := range labels {
				if r.Chance(3, 4) {
					h.Attrs[l] = values[r.Intn(3)]
				}
			}
			p.Holders = append(p.Holders, h)
		}
		return p
	}
	p := &Plan{Seed: r.Uint64(), Sys: r.Intn(3), Policy: genNode(r, r.Range(1, 7)), MsgLen: r.EdgeLen(120, 0, 1, 16, 32), Spaces: r.Intn(5), Pos: r.Intn(1 << 20)}
	if r.Chance(1, 4) {
		p.Chunk = r.Range(1, 7)
	}
	for i, n := 0, r.Range(1, 3); i < n; i++ {
		h := Holder{Attrs: map[string]string{}, Restart: r.Chance(1, 3)}
		for _, l := range labels {
			if r.Chance(3, 4) {
				h.Attrs[l] = values[r.Intn(3)]
			}
		}
		p.Holders = append(p.Holders, h)
	}
	p.Fault = []string{"", "", "flip", "flip", "trunc", "extend"}[r.Intn(6)]
	return p
}

func directed(tier string) []any {
	var out []any
	// single leaves and negated single leaves with present / equal / different / missing labels
	leaf := &Node{Op: "leaf", Label: "a", Value: "x"}
	pols := []*Node{leaf, {Op: "not", L: leaf}, {Op: "not", L: &Node{Op: "not", L: leaf}},
		{Op: "not", L: &Node{Op: "and", L: leaf, R: &Node{Op: "leaf", Label: "b", Value: "y"}}},
		{Op: "and", L: leaf, R: &Node{Op: "not", L: &Node{Op: "not", L: &Node{Op: "leaf", Label: "b", Value: "y"}}}},
		{Op: "or", L: &Node{Op: "not", L: &Node{Op: "not", L: &Node{Op: "not", L: &Node{Op: "leaf", Label: "b", Value: "y"}}}}, R: leaf},
		{Op: "or", L: &Node{Op: "and", L: leaf, R: &Node{Op: "leaf", Label: "a", Value: "y"}}, R: &Node{Op: "not", L: &Node{Op: "leaf", Label: "a", Value: "x"}}}}
	holders := []Holder{{Attrs: map[string]string{"a": "x"}}, {Attrs: map[string]string{"a": "y"}}, {Attrs: map[string]string{"b": "y"}}, {Attrs: map[string]string{}}, {Attrs: map[string]string{"a": "x", "b": "y"}}}
	for i, pol := range pols {
		for j := 0; j < len(holders); j += 3 {
			end := j + 3
			if end > len(holders) {
				end = len(holders)
			}
			for _, sp := range []int{0, 2} {
				out = append(out, &Plan{Seed: uint64(i*10 + j), Policy: pol, Holders: holders[j:end], MsgLen: []int{0, 5, 33}[i%3], Spaces: sp})
			}
		}
	}
	// every single-bit flip of one ciphertext, in windows
	win := 1024
	if tier == "thorough" {
		win = 256
	}
	pol := &Node{Op: "and", L: leaf, R: &Node{Op: "not", L: &Node{Op: "leaf", Label: "b", Value: "z"}}}
	// both tiers enumerate every bit of the ciphertext (about 24 000 decryptions, a few
	// milliseconds each: three flips among them made Decrypt panic on the pinned tree, and
	// evenly spaced samples had missed all three); the thorough tier uses smaller windows and
	// repeats the enumeration for generated policies
	total := 3100 * 8
	step := win
	for from := 0; from < total; from += step {
		out = append(out, &Plan{Seed: 99, Policy: pol, Holders: []Holder{{Attrs: map[string]string{"a": "x", "b": "y"}}}, MsgLen: 20, Fault: "allflips", From: from, To: from + win})
	}
	return out
}

func (n *Node) print(sp int) string {
	colon := ":"
	if sp > 0 && sp != 3 {
		colon = ": "
	}
	switch n.Op {
	case "leaf":
		return n.Label + colon + n.Value
	case "not":
		// the operand of not needs no parentheses of its own: a leaf, another negation
		// ("not not a:x") and a parenthesised group all follow the keyword directly
		if sp == 2 || sp == 4 || (sp == 1 && n.L.Op != "leaf") {
			return "not " + n.L.print(sp)
		}
		return "not (" + n.L.print(sp) + ")"
	default:
		if sp >= 3 {
			// flat chains: a child with the same operator needs no parentheses (and / or are
			// associative), and the outermost pair is dropped by printTop
			side := func(c *Node) string {
				if c.Op == n.Op {
					t := c.print(sp)
					return t[1 : len(t)-1]
				}
				return c.print(sp)
			}
			return "(" + side(n.L) + " " + n.Op + " " + side(n.R) + ")"
		}
		return "(" + n.L.print(sp) + " " + n.Op + " " + n.R.print(sp) + ")"
	}
}

// printTop prints the whole policy; in the flat styles the outermost parentheses are dropped.
func (n *Node) printTop(sp int) string {
	t := n.print(sp)
	if sp >= 3 && (n.Op == "and" || n.Op == "or") {
		return t[1 : len(t)-1]
	}
	return t
}

// eval: the semantics stated by the property — negations pushed to the leaves; a
// positive leaf holds iff the label is present with an equal value, a negated
// leaf iff the label is present with a different value.
func (n *Node) eval(attrs map[string]string, neg bool) bool {
	switch n.Op {
	case "leaf":
		v, ok := attrs[n.Label]
		if !ok {
			return false
		}
		if neg {
			return v != n.Value
		}
		return v == n.Value
	case "not":
		return n.L.eval(attrs, !neg)
	case "and":
		if neg {
			return n.L.eval(attrs, true) || n.R.eval(attrs, true)
		}
		return n.L.eval(attrs, false) && n.R.eval(attrs, false)
	case "or":
		if neg {
			return n.L.eval(attrs, true) && n.R.eval(attrs, true)
		}
		return n.L.eval(attrs, false) || n.R.eval(attrs, false)
	}
	panic("HARNESS: bad node")
}

func (n *Node) valid(depth int) bool {
	if n == nil || depth > 40 {
		return false
	}
	switch n.Op {
	case "leaf":
		return n.Label != "" && n.Value != "" && isIdent(n.Label) && isIdent(n.Value)
	case "not":
		return n.L.valid(depth + 1)
	case "and", "or":
		return n.L.valid(depth+1) && n.R.valid(depth+1)
	}
	return false
}

func isIdent(s string) bool {
	for _, c := range s {
		if !(c >= 'a' && c <= 'z' || c >= '0' && c <= '9') {
			return false
		}
	}
	return s != "and" && s != "or" && s != "not"
}

type authority struct {
	pkBytes, mskBytes []byte
}

var authorities = map[int]*authority{}

func getAuthority(i int) *authority {
	if a, ok := authorities[i]; ok {
		return a
	}
	pk, msk, err := tkn20.Setup(core.NewStream(uint64(4000 + i)))
	if err != nil {
		panic("HARNESS: Setup: " + err.Error())
	}
	pb, _ := pk.MarshalBinary()
	mb, _ := msk.MarshalBinary()
	a := &authority{pb, mb}
	authorities[i] = a
	return a
}

func exec(planJSON []byte, run *core.Run) {
	var p Plan
	if json.Unmarshal(planJSON, &p) != nil {
		run.Bad("json")
		return
	}
	if !p.Policy.valid(0) || len(p.Holders) == 0 || (len(p.Holders) > 4 && !p.PolicyOnly) || len(p.Holders) > 12 || p.MsgLen < 0 || p.MsgLen > 2000 || p.Sys < 0 || p.Sys > 2 {
		run.Bad("plan")
		return
	}
	comp := "tkn20"
	ent := core.NewStream(p.Seed)
	if p.Chunk > 0 {
		ent.MaxChunk = p.Chunk
	}
	if p.PolicyOnly {
		execPolicyOnly(&p, run, comp)
		return
	}
	rand.Reader = core.NewStream(p.Seed + 5)
	auth := getAuthority(p.Sys)
	// keys reach the parties in marshalled form
	var pk tkn20.PublicKey
	pkBuf, mskBuf := append([]byte{}, auth.pkBytes...), append([]byte{}, auth.mskBytes...)
	defer func() { core.Recycle(pkBuf); core.Recycle(mskBuf) }()
	if err := pk.UnmarshalBinary(pkBuf); err != nil {
		run.Violate(comp+".PublicKey.UnmarshalBinary", "rejects-own-encoding", "%v", err)
		return
	}
	var msk tkn20.SystemSecretKey
	core.Recycle(pkBuf) // buffers are reused as soon as the keys are loaded
	pkBuf = nil
	if err := msk.UnmarshalBinary(mskBuf); err != nil {
		run.Violate(comp+".SystemSecretKey.UnmarshalBinary", "rejects-own-encoding", "%v", err)
		return
	}
	core.Recycle(mskBuf)
	if now, err := msk.MarshalBinary(); err != nil || !bytes.Equal(now, auth.mskBytes) {
		run.Violate(comp+".SystemSecretKey.UnmarshalBinary", "retains-the-callers-buffer", "the master secret key marshals differently once the buffer it was loaded from is reused (err=%v)", err)
		return
	}
	// policy: printed, parsed
	src := p.Policy.printTop(p.Spaces)
	var pol tkn20.Policy
	if err := pol.FromString(src); err != nil {
		run.Violate(comp+".Policy.FromString", "rejects-valid-policy", "%q: %v", src, err)
		return
	}
	run.T("policy", abstract(p.Policy))
	// print / parse round trip
	var pol2 tkn20.Policy
	printed := pol.String()
	if err := pol2.FromString(printed); err != nil {
		run.Violate(comp+".Policy.String", "printed-policy-does-not-parse", "%q printed as %q: %v", src, printed, err)
		return
	}
	msg := core.NewPRNG(p.Seed + 1).Bytes(p.MsgLen)
	ct, err := pk.Encrypt(ent, pol, msg)
	if err != nil {
		run.Violate(comp+".Encrypt", "error", "%q: %v", src, err)
		return
	}
	if ent.ShortHits > 0 {
		run.Fault("entropy:short-reads")
	}
	run.Event("encryptor", "encrypt", src, len(ct))
	run.Tick(1)
	// policy extracted from the ciphertext
	var polX tkn20.Policy
	if err := polX.ExtractFromCiphertext(ct); err != nil {
		run.Violate(comp+".Policy.ExtractFromCiphertext", "error-on-honest-ciphertext", "%v", err)
		return
	}

	var attrsObj tkn20.Attributes // one object, refilled for every holder (when the plan says so)
	// history: the policy taken out of the ciphertext is used, as it is, to encrypt a reply
	msg2 := core.NewPRNG(p.Seed + 2).Bytes(1 + p.MsgLen%40)
	var ct2 []byte
	pan2, v2, st2 := core.Try(func() { ct2, err = pk.Encrypt(core.NewStream(p.Seed+6), polX, msg2) })
	if pan2 {
		run.Violate(comp+".Encrypt", core.PanicClass(v2), "encrypting under the policy extracted from a ciphertext: %s at %s", v2, st2)
		return
	}
	if err != nil {
		run.Violate(comp+".Encrypt", "error", "under the policy extracted from a ciphertext of %q: %v", src, err)
		return
	}
	run.Fault("history:reply-encrypted-under-extracted-policy")
	if again := polX.String(); again != pol.String() {
		run.Violate(comp+".Policy.ExtractFromCiphertext", "extracted-policy-changes-with-use", "the policy extracted from the ciphertext prints as %q after it was used to encrypt; the original prints as %q", again, pol.String())
		return
	}
	for hi, h := range p.Holders {
		want := p.Policy.eval(h.Attrs, false)
		var attrs tkn20.Attributes
		if p.Seed%2 == 1 {
			attrsObj.FromMap(h.Attrs)
			attrs = attrsObj
			if hi > 0 {
				run.Fault("history:attributes-object-refilled")
			}
		} else {
			attrs.FromMap(h.Attrs)
		}
		for name, pl := range map[string]*tkn20.Policy{"parsed": &pol, "printed-and-reparsed": &pol2, "extracted-from-ciphertext": &polX} {
			if got := pl.Satisfaction(attrs); got != want {
				run.Violate(comp+".Policy.Satisfaction", "differs-from-policy-semantics", "policy %q (%s), attributes %v: Satisfaction=%v, the stated semantics give %v", src, name, h.Attrs, got, want)
				return
			}
		}
		if got := attrs.CouldDecrypt(ct); got != want {
			run.Violate(comp+".Attributes.CouldDecrypt", "differs-from-policy-semantics", "policy %q, attributes %v: CouldDecrypt=%v, semantics %v", src, h.Attrs, got, want)
			return
		}
		key, err := msk.KeyGen(core.NewStream(p.Seed+uint64(10+hi)), attrs)
		if err != nil {
			run.Violate(comp+".KeyGen", "error", "attributes %v: %v", h.Attrs, err)
			return
		}
		if h.Restart {
			kb, err := key.MarshalBinary()
			if err != nil {
				run.Violate(comp+".AttributeKey.MarshalBinary", "error", "%v", err)
				return
			}
			var k2 tkn20.AttributeKey
			if err := k2.UnmarshalBinary(kb); err != nil {
				run.Violate(comp+".AttributeKey.UnmarshalBinary", "rejects-own-encoding", "%v", err)
				return
			}
			core.Recycle(kb)
			if !k2.Equal(&key) {
				run.Violate(comp+".AttributeKey", "key-does-not-survive-marshalling", "attributes %v", h.Attrs)
				return
			}
			key = k2
			run.Fault("disk:holder-restart")
		}
		decrypt := func(c []byte) ([]byte, error, bool) {
			var pt []byte
			var err error
			pan, v, st := core.Try(func() { pt, err = key.Decrypt(c) })
			if pan {
				run.Violate(comp+".AttributeKey.Decrypt", core.PanicClass(v), "policy %q attributes %v, ciphertext of %d bytes: %s at %s", src, h.Attrs, len(c), v, st)
				return nil, nil, false
			}
			return pt, err, true
		}
		pt, err, ok := decrypt(ct)
		if !ok {
			return
		}
		run.Event("holder", "decrypt", hi, want, err)
		run.Tick(1)
		run.T("holder", fmt.Sprint(want))
		if want {
			run.Probe("holder-satisfies")
			if err != nil || !bytes.Equal(pt, msg) {
				run.Violate(comp+".AttributeKey.Decrypt", "qualified-holder-cannot-decrypt", "policy %q, attributes %v, |msg|=%d: err=%v", src, h.Attrs, len(msg), err)
				return
			}
			// the seam of the adversarial holder is the real decryption when nothing is weakened
			if am, aok, aerr := key.VerifDecryptWeakened(ct, 0); aerr != nil || !aok || !bytes.Equal(am, msg) {
				panic(fmt.Sprintf("HARNESS: VerifDecryptWeakened(mask 0) differs from Decrypt: %v %v", aok, aerr))
			}
		} else {
			run.Probe("holder-does-not-satisfy")
			run.Fault("transport:ciphertext-to-unqualified-holder")
			if err == nil {
				run.Violate(comp+".AttributeKey.Decrypt", "unqualified-holder-decrypts", "policy %q, attributes %v: decryption succeeded", src, h.Attrs)
				return
			}
				// the unqualified holder does not follow the protocol either: it combines the
			// ciphertext components of whatever wires its key matches (gates of the formula
			// treated as OR gates when the wires are chosen); the real parsing,
			// decapsulation, envelope and MAC code runs on the weakened formula
			ng := tkn20.VerifGateCount(ct)
			masks := []uint64{^uint64(0), ^uint64(0) >> 1 << 1, core.NewPRNG(p.Seed + 77 + uint64(hi)).Uint64()}
			for g := 0; g < ng && g < 8; g++ {
				masks = append(masks, 1<<uint(g))
			}
			for _, m := range masks {
				var am []byte
				var aok bool
				pan, v, st := core.Try(func() { am, aok, _ = key.VerifDecryptWeakened(ct, m) })
				if pan {
					// a holder's own computation that crashes reveals nothing
					_ = v
					_ = st
					continue
				}
				run.Fault("adversary:unqualified-holder-combines-wires-of-its-choice")
				if aok {
					run.Violate(comp+".Encrypt", "unqualified-holder-recovers-the-session-key", "policy %q, attributes %v: combining the ciphertext components of the wires the key matches (gates %#x of the formula taken as OR) yields the encapsulated key: the MAC verifies and the message %x is recovered (sent %x)", src, h.Attrs, m, am, msg)
					return
				}
			}
		}
		// corrupted ciphertext on the way to this holder
		check := func(bad []byte, what string) bool {
			pt, err, ok := decrypt(bad)
			if !ok {
				return false
			}
			if err == nil && !bytes.Equal(pt, msg) {
				run.ViolateP(&Plan{Seed: p.Seed, Sys: p.Sys, Policy: p.Policy, Holders: []Holder{h}, MsgLen: p.MsgLen, Fault: "flip", Pos: p.Pos}, comp+".AttributeKey.Decrypt", "altered-ciphertext-decrypts-to-different-message", "%s: got %x, sent %x", what, pt, msg)
				return false
			}
			if err == nil && !want {
				run.Violate(comp+".AttributeKey.Decrypt", "unqualified-holder-decrypts", "%s", what)
				return false
			}
			return true
		}
		switch p.Fault {
		case "flip":
			bad := append([]byte{}, ct...)
			b := (p.Pos + hi*7919) % (len(bad) * 8)
			bad[b/8] ^= 1 << (b % 8)
			run.Fault("transport:ciphertext-bit-flip")
			if !check(bad, fmt.Sprintf("bit %d flipped", b)) {
				return
			}
		case "trunc":
			run.Fault("transport:ciphertext-truncated")
			if !check(ct[:p.Pos%len(ct)], "truncated") {
				return
			}
		case "extend":
			run.Fault("transport:ciphertext-extended")
			if !check(append(append([]byte{}, ct...), byte(p.Pos)), "extended") {
				return
			}
		case "allflips":
			to := p.To
			if to == 0 || to > len(ct)*8 {
				to = len(ct) * 8
			}
			n := 0
			for b := p.From; b >= 0 && b < to; b++ {
				bad := append([]byte{}, ct...)
				bad[b/8] ^= 1 << (b % 8)
				pt, err, ok := decrypt(bad)
				if !ok {
					return
				}
				n++
				if err == nil && !bytes.Equal(pt, msg) {
					run.ViolateP(&Plan{Seed: p.Seed, Sys: p.Sys, Policy: p.Policy, Holders: []Holder{h}, MsgLen: p.MsgLen, Fault: "allflips", From: b, To: b + 1}, comp+".AttributeKey.Decrypt", "altered-ciphertext-decrypts-to-different-message", "bit %d flipped: got %x, sent %x", b, pt, msg)
					return
				}
			}
			run.Faults["transport:ciphertext-bit-flip"] += n
			run.NonTrivial = true
		case "":
		default:
			run.Bad("fault")
			return
		}
		// the same key object is used again for the genuine ciphertext
		pt2, err2, ok2 := decrypt(ct)
		if !ok2 {
			return
		}
		run.Fault("history:attribute-key-used-again")
		if want && (err2 != nil || !bytes.Equal(pt2, msg)) {
			run.Violate(comp+".AttributeKey.Decrypt", "key-unusable-after-earlier-decryptions", "policy %q, attributes %v: the key decrypted the ciphertext once and fails on the second use: %v", src, h.Attrs, err2)
			return
		}
		if !want && err2 == nil {
			run.Violate(comp+".AttributeKey.Decrypt", "unqualified-holder-decrypts", "policy %q, attributes %v: second use of the key", src, h.Attrs)
			return
		}
		pt3, err3, ok3 := decrypt(ct2)
		if !ok3 {
			return
		}
		if want && (err3 != nil || !bytes.Equal(pt3, msg2)) {
			run.Violate(comp+".AttributeKey.Decrypt", "reply-under-extracted-policy-undecryptable", "policy %q, attributes %v: a message encrypted under the policy extracted from the first ciphertext does not decrypt: %v", src, h.Attrs, err3)
			return
		}
		if !want && err3 == nil {
			run.Violate(comp+".AttributeKey.Decrypt", "unqualified-holder-decrypts", "policy %q, attributes %v: reply encrypted under the extracted policy", src, h.Attrs)
			return
		}
	}
	// the policy object was used for encryption and asked for satisfaction meanwhile:
	// it still prints as it did at the start
	if again := pol.String(); again != printed {
		run.Violate(comp+".Policy.String", "printed-form-changes-with-history", "%q prints as %q at first and as %q after Encrypt / Satisfaction", src, printed, again)
	}
}

// tokens splits a policy text into identifiers, ':' and parentheses.
func tokens(src string) []string {
	var out []string
	cur := ""
	flush := func() {
		if cur != "" {
			out = append(out, cur)
			cur = ""
		}
	}
	for _, c := range src {
		switch {
		case c == ' ':
			flush()
		case c == '(' || c == ')' || c == ':':
			flush()
			out = append(out, string(c))
		default:
			cur += string(c)
		}
	}
	flush()
	return out
}

func leafCount(toks []string) int {
	n := 0
	for _, t := range toks {
		if t == ":" {
			n++
		}
	}
	return n
}

// leafPairs lists the (label, value) pairs written in a token sequence, sorted.
func leafPairs(toks []string) []string {
	var out []string
	for i, t := range toks {
		if t == ":" && i > 0 && i+1 < len(toks) {
			out = append(out, toks[i-1]+":"+toks[i+1])
		}
	}
	sort.Strings(out)
	return out
}

func strayWord(toks []string) string {
	for i, t := range toks {
		if t == "(" || t == ")" || t == ":" || t == "and" || t == "or" || t == "not" {
			continue
		}
		if (i > 0 && toks[i-1] == ":") || (i+1 < len(toks) && toks[i+1] == ":") {
			continue
		}
		return t
	}
	return ""
}

// lookalikeFaults: after src has been parsed in this process, texts that differ from it only in
// where the blanks are (a keyword glued to the word after or before it, a keyword split in two) are
// parsed. They are other texts: refused, or accepted as the policy *they* spell - the leaves of the
// printed policy are the leaves written in the text and no word of the text is left over.
func lookalikeFaults(src string, seed uint64, run *core.Run, comp string) bool {
	var first tkn20.Policy
	if first.FromString(src) != nil {
		return true
	}
	toks := tokens(src)
	r := core.NewPRNG(seed ^ 0x100ca11e)
	for k := 0; k < 4; k++ {
		mut := append([]string{}, toks...)
		var at []int
		for i, t := range mut {
			if t == "and" || t == "or" || t == "not" {
				at = append(at, i)
			}
		}
		if len(at) == 0 {
			return true
		}
		i := at[r.Intn(len(at))]
		switch r.Intn(3) {
		case 0: // glued to the word after it
			if i+1 >= len(mut) || mut[i+1] == "(" || mut[i+1] == ")" || mut[i+1] == ":" {
				continue
			}
			mut = append(mut[:i], append([]string{mut[i] + mut[i+1]}, mut[i+2:]...)...)
		case 1: // glued to the word before it
			if i == 0 || mut[i-1] == "(" || mut[i-1] == ")" || mut[i-1] == ":" {
				continue
			}
			mut = append(mut[:i-1], append([]string{mut[i-1] + mut[i]}, mut[i+1:]...)...)
		case 2: // split in two
			w := mut[i]
			mut = append(mut[:i], append([]string{w[:1], w[1:]}, mut[i+1:]...)...)
		}
		text := ""
		for j, t := range mut {
			if j > 0 && t != ":" && mut[j-1] != ":" {
				text += " "
			}
			text += t
		}
		var pl tkn20.Policy
		var err error
		pan, v, st := core.Try(func() { err = pl.FromString(text) })
		if pan {
			run.Violate(comp+".Policy.FromString", core.PanicClass(v), "%q: %s at %s", text, v, st)
			return false
		}
		run.Fault("history:text-parsed-after-a-lookalike-that-differs-in-blanks-only")
		if err != nil {
			continue
		}
		var printed string
		if pan, v, st := core.Try(func() { printed = pl.String() }); pan {
			run.Violate(comp+".Policy.String", core.PanicClass(v), "policy accepted from %q: %s at %s", text, v, st)
			return false
		}
		if w := strayWord(mut); w != "" {
			run.Violate(comp+".Policy.FromString", "accepts-text-with-a-stray-word", "%q (parsed after %q) is accepted without error as the policy %q: the word %q is neither a keyword nor part of a leaf", text, src, printed, w)
			return false
		}
		if got, want := leafPairs(tokens(printed)), leafPairs(mut); !reflect.DeepEqual(got, want) {
			run.Violate(comp+".Policy.FromString", "accepted-policy-is-not-the-one-written", "%q (parsed after %q) is accepted as the policy %q: leaves %v, the text spells %v", text, src, printed, got, want)
			return false
		}
	}
	return true
}

func syntaxFaults(src string, seed uint64, run *core.Run, comp string) bool {
	toks := tokens(src)
	r := core.NewPRNG(seed ^ 0x51a7)
	for k := 0; k < 6; k++ {
		mut := append([]string{}, toks...)
		i := r.Intn(len(mut))
		switch r.Intn(5) {
		case 0: // a token is dropped
			mut = append(mut[:i], mut[i+1:]...)
		case 1: // a token is doubled
			mut = append(mut[:i+1], mut[i:]...)
		case 2: // a closing parenthesis appears
			mut = append(mut[:i], append([]string{")"}, mut[i:]...)...)
		case 3: // an opening parenthesis appears
			mut = append(mut[:i], append([]string{"("}, mut[i:]...)...)
		case 4: // the text goes on after its end
			mut = append(mut, []string{")", "and", "zz", ":", "zz"}[:1+r.Intn(5)]...)
		}
		text := ""
		for j, t := range mut {
			if j > 0 && t != ":" && mut[j-1] != ":" {
				text += " "
			}
			text += t
		}
		var pl tkn20.Policy
		var err error
		pan, v, st := core.Try(func() { err = pl.FromString(text) })
		if pan {
			run.Violate(comp+".Policy.FromString", core.PanicClass(v), "%q: %s at %s", text, v, st)
			return false
		}
		run.Fault("syntax:token-dropped-doubled-or-parenthesis-inserted")
		if err != nil {
			continue
		}
		var printed string
		if pan, v, st := core.Try(func() { printed = pl.String() }); pan {
			run.Violate(comp+".Policy.String", core.PanicClass(v), "policy accepted from %q: %s at %s", text, v, st)
			return false
		}
		if got, want := leafCount(tokens(printed)), leafCount(mut); got != want {
			run.Violate(comp+".Policy.FromString", "accepts-text-and-drops-part-of-it", "%q is accepted without error as the policy %q: %d of the %d leaves written in the text are gone", text, printed, want-got, want)
			return false
		}
	}
	return true
}

// execPolicyOnly: one policy object, observed repeatedly. Observers must not change what
// later observers see: the printed form is the same before and after Satisfaction, parses
// back to a policy with the same semantics, and Satisfaction keeps agreeing with the
// stated semantics however often and in whatever order it is asked.
func execPolicyOnly(p *Plan, run *core.Run, comp string) {
	src := p.Policy.printTop(p.Spaces)
	var pol tkn20.Policy
	if err := pol.FromString(src); err != nil {
		run.Violate(comp+".Policy.FromString", "rejects-valid-policy", "%q: %v", src, err)
		return
	}
	run.T("policy-only", abstract(p.Policy))
	run.Fault("history:policy-object-observed-repeatedly")
	// a twin parsed from the same text that nobody asks anything: the two stay equal
	var twin tkn20.Policy
	if err := twin.FromString(src); err != nil || !pol.Equal(&twin) || !twin.Equal(&pol) {
		run.Violate(comp+".Policy.Equal", "equal-policies-compare-unequal", "%q parsed twice: %v", src, err)
		return
	}
	// syntax faults: one token of the text is dropped, doubled or a parenthesis is put in. What
	// the parser then accepts must still contain every leaf that is written in the text (a
	// policy weaker than the text a holder reads is the dangerous outcome).
	if !lookalikeFaults(src, p.Seed, run, comp) {
		return
	}
	if !syntaxFaults(src, p.Seed, run, comp) {
		return
	}
	r := core.NewPRNG(p.Seed)
	first := ""
	checkPrint := func(when string) bool {
		var printed string
		pan, v, st := core.Try(func() { printed = pol.String() })
		if pan {
			run.Violate(comp+".Policy.String", core.PanicClass(v), "%q %s: %s at %s", src, when, v, st)
			return false
		}
		if first == "" {
			first = printed
		} else if printed != first {
			run.Violate(comp+".Policy.String", "printed-form-changes-with-history", "%q prints as %q at first and as %q %s", src, first, printed, when)
			return false
		}
		var back tkn20.Policy
		if err := back.FromString(printed); err != nil {
			run.Violate(comp+".Policy.String", "printed-policy-does-not-parse", "%q printed (%s) as %q: %v", src, when, printed, err)
			return false
		}
		for _, h := range p.Holders {
			var attrs tkn20.Attributes
			attrs.FromMap(h.Attrs)
			if got, want := back.Satisfaction(attrs), p.Policy.eval(h.Attrs, false); got != want {
				run.Violate(comp+".Policy.String", "printed-policy-has-other-semantics", "%q printed (%s) as %q: attributes %v satisfy=%v, the original's semantics give %v", src, when, printed, h.Attrs, got, want)
				return false
			}
		}
		return true
	}
	if r.Chance(1, 2) && !checkPrint("before any use") {
		return
	}
	for round := 0; round < 3; round++ {
		for _, i := range r.Perm(len(p.Holders)) {
			h := p.Holders[i]
			var attrs tkn20.Attributes
			attrs.FromMap(h.Attrs)
			want := p.Policy.eval(h.Attrs, false)
			var got bool
			pan, v, st := core.Try(func() { got = pol.Satisfaction(attrs) })
			if pan {
				run.Violate(comp+".Policy.Satisfaction", core.PanicClass(v), "%q attributes %v: %s at %s", src, h.Attrs, v, st)
				return
			}
			run.Tick(1)
			if got != want {
				run.Violate(comp+".Policy.Satisfaction", "differs-from-policy-semantics", "policy %q (round %d on the same object), attributes %v: Satisfaction=%v, the stated semantics give %v", src, round, h.Attrs, got, want)
				return
			}
			if r.Chance(1, 3) {
				pol.ExtractAttributeValuePairs()
			}
		}
		if !checkPrint(fmt.Sprintf("after %d rounds of Satisfaction", round+1)) {
			return
		}
		if !pol.Equal(&twin) || !twin.Equal(&pol) {
			run.Violate(comp+".Policy.Satisfaction", "query-changes-the-policy-object", "%q: after %d rounds of Satisfaction the policy no longer compares Equal to a policy parsed from the same text", src, round+1)
			return
		}
	}
	run.Event("policy-only", src, first)
}

func abstract(n *Node) string {
	switch n.Op {
	case "leaf":
		return "L"
	case "not":
		return "!" + abstract(n.L)
	case "and":
		return "(" + abstract(n.L) + "&" + abstract(n.R) + ")"
	default:
		return "(" + abstract(n.L) + "|" + abstract(n.R) + ")"
	}
}

func main() {
	core.Main(&core.Property{
		ID:    "C20",
		Level: "exploration",
		Rule: "seeded plans: policy ASTs of 1..7 leaves over labels {a,b,c} and values {x,y,z} with and/or/not at any depth (repeated labels, nested negation, single leaves), printed in three styles and parsed; 1..3 key holders with attribute maps over the same alphabet incl. missing labels; messages of 0..120 bytes; keys, ciphertexts and policies marshalled / printed and re-parsed on every hop; holder restart from its marshalled key; ciphertext bit flip / truncation / extension per holder; entropy short reads; directed: single (negated) leaves x present/equal/different/missing labels, and enumerated single-bit flips of one ciphertext (all of them in the thorough tier, evenly spaced windows in the quick tier); " +
			"non-trivial = a fault fired (incl. delivery to a holder that does not satisfy the policy); distinct = distinct (policy shape, per-holder outcome, fault) trace",
		Assumptions: []string{
			"the policy evaluator implements the semantics stated in the property text (negation pushed to the leaves; a leaf needs its label present)",
			"Setup is run for three fixed authorities per process (cached); KeyGen, Encrypt and Decrypt run per plan",
			"tkn20 iterates Go maps, so event logs record outcomes and lengths, not key or ciphertext bytes",
		},
		Components: map[string]string{
			"tkn20 Setup, KeyGen, Encrypt, Decrypt, Policy parser/printer/extraction, CouldDecrypt, all marshalers": "real",
			"authority -> parties, encryptor -> holders":                                                            "stub: simulated transport (marshal / print, re-parse, corrupt, misdeliver)",
			"holder key storage":                         "stub: simulated disk",
			"policy semantics":                           "model: AST evaluator",
			"io.Reader arguments and crypto/rand.Reader": "stub: deterministic entropy device",
		},
		ProbeNames:  []string{"holder-satisfies", "holder-does-not-satisfy"},
		Directed:    directed,
		Gen:         gen,
		Exec:        exec,
		Runs:        map[string]int{"quick": 1600, "thorough": 40000},
		WallCap:     map[string]time.Duration{"quick": 110 * time.Second, "thorough": 18 * time.Minute},
		CallTimeout: 180 * time.Second,
	})
}
