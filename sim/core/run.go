package core

import (
	"crypto/sha256"
	"encoding/binary"
	"encoding/hex"
	"fmt"
	"hash"
	"hash/fnv"
	"runtime/debug"
	"sort"
	"strings"
)

// Violation is one oracle failure. (Property, Component, Class) is the stable
// key used for de-duplication, shrinking ("same violation") and known findings.
type Violation struct {
	Property  string `json:"property"`
	Component string `json:"component"`
	Class     string `json:"class"`
	Message   string `json:"message"`
}

func (v Violation) Key() string { return v.Property + "|" + v.Component + "|" + v.Class }

// Run is the per-execution context handed to a property's Exec: it owns the
// event log (whose SHA-256 is the run digest), the fault / probe counters, the
// abstract trace and the violations. Nothing in here draws randomness or reads a
// clock.
type Run struct {
	Prop       string
	Invalid    bool // the plan is not well-formed (only happens to shrink candidates)
	InvalidWhy string
	h          hash.Hash
	Events     int
	Ticks      int
	Faults     map[string]int
	Probes     map[string]int
	Viol       []Violation
	trace      []string
	NonTrivial bool
	Verbose    bool
	Lines      []string // verbose event lines (replay mode)
	// Reduced holds, per violation key, a smaller plan that the oracle itself knows
	// reproduces the violation (e.g. the single fault out of an enumeration).
	Reduced map[string]any
	// fixedDigest is set when the run was executed in a child process
	fixedDigest string
}

func NewRun(prop string) *Run {
	return &Run{Prop: prop, h: sha256.New(), Faults: map[string]int{}, Probes: map[string]int{}}
}

// Event appends a record to the event log. Arguments are rendered with %v for
// scalars and hex for byte slices.
func (r *Run) Event(node, op string, args ...any) {
	r.Events++
	var sb strings.Builder
	fmt.Fprintf(&sb, "%d|%s|%s", r.Events, node, op)
	for _, a := range args {
		sb.WriteByte('|')
		switch x := a.(type) {
		case []byte:
			if len(x) > 48 {
				d := sha256.Sum256(x)
				fmt.Fprintf(&sb, "#%d:%x", len(x), d[:8])
			} else {
				sb.WriteString(hex.EncodeToString(x))
			}
		case nil:
			sb.WriteString("ok")
		case error:
			sb.WriteString("err")
		default:
			fmt.Fprintf(&sb, "%v", x)
		}
	}
	s := sb.String()
	var l [4]byte
	binary.BigEndian.PutUint32(l[:], uint32(len(s)))
	r.h.Write(l[:])
	r.h.Write([]byte(s))
	if r.Verbose {
		r.Lines = append(r.Lines, s)
	}
}

func (r *Run) Tick(n int) { r.Ticks += n }

// Fault records that a fault of this kind actually fired inside an operation.
func (r *Run) Fault(kind string) { r.Faults[kind]++; r.NonTrivial = true }

// Probe records that a rare condition of interest was reached.
func (r *Run) Probe(name string) { r.Probes[name]++ }

// T appends an element to the abstract trace (op kind / fault kind / outcome class).
func (r *Run) T(parts ...string) { r.trace = append(r.trace, strings.Join(parts, ":")) }

func (r *Run) Bad(why string) { r.Invalid = true; r.InvalidWhy = why }

// ViolateP records an oracle failure together with a reduced plan for it.
func (r *Run) ViolateP(reduced any, component, class, format string, args ...any) {
	if r.Reduced == nil {
		r.Reduced = map[string]any{}
	}
	k := r.Prop + "|" + component + "|" + class
	if _, ok := r.Reduced[k]; !ok {
		r.Reduced[k] = reduced
	}
	r.Violate(component, class, format, args...)
}

// Violate records an oracle failure.
func (r *Run) Violate(component, class, format string, args ...any) {
	msg := fmt.Sprintf(format, args...)
	if len(msg) > 600 {
		msg = msg[:600] + "…"
	}
	for _, v := range r.Viol {
		if v.Component == component && v.Class == class {
			return
		}
	}
	r.Viol = append(r.Viol, Violation{r.Prop, component, class, msg})
	r.Event("oracle", "violation", component, class)
}

func (r *Run) Digest() string {
	if r.fixedDigest != "" {
		return r.fixedDigest
	}
	return hex.EncodeToString(r.h.Sum(nil))
}

func (r *Run) TraceHash() uint64 {
	f := fnv.New64a()
	for _, t := range r.trace {
		f.Write([]byte(t))
		f.Write([]byte{0})
	}
	return f.Sum64()
}

func (r *Run) TraceString() string { return strings.Join(r.trace, " ") }

// Try runs f and reports whether it panicked (with the panic value and a short
// stack). Library calls whose contract is "never panics" are wrapped in it.
func Try(f func()) (panicked bool, val string, stack string) {
	defer func() {
		if e := recover(); e != nil {
			panicked = true
			val = fmt.Sprint(e)
			if len(val) > 200 {
				val = val[:200]
			}
			stack = shortStack(string(debug.Stack()))
		}
	}()
	f()
	return
}

// shortStack keeps the first circl frames of a stack trace.
func shortStack(s string) string {
	lines := strings.Split(s, "\n")
	var out []string
	for i := 0; i < len(lines); i++ {
		l := lines[i]
		if strings.Contains(l, "cloudflare/circl") && !strings.HasPrefix(l, "\t") {
			out = append(out, strings.TrimSpace(l))
			if len(out) >= 4 {
				break
			}
		}
	}
	return strings.Join(out, " <- ")
}

// PanicClass normalises a panic value to a stable class string.
func PanicClass(val string) string {
	switch {
	case strings.Contains(val, "index out of range"):
		return "panic:index-out-of-range"
	case strings.Contains(val, "slice bounds out of range"):
		return "panic:slice-bounds"
	case strings.Contains(val, "nil pointer"):
		return "panic:nil-dereference"
	case strings.Contains(val, "divide by zero"):
		return "panic:divide-by-zero"
	case strings.Contains(val, "makeslice"):
		return "panic:makeslice"
	}
	return "panic:other"
}

func sortedKeys(m map[string]int) []string {
	k := make([]string, 0, len(m))
	for s := range m {
		k = append(k, s)
	}
	sort.Strings(k)
	return k
}

func H(s string) []byte {
	b, err := hex.DecodeString(s)
	if err != nil {
		return nil
	}
	return b
}

func X(b []byte) string { return hex.EncodeToString(b) }

// Recycle overwrites a buffer that was handed to a decoder which has returned:
// the disk page or receive buffer is reused by its owner. A decoder must not
// retain its input (the encoding.BinaryUnmarshaler contract).
func Recycle(b []byte) {
	for i := range b {
		b[i] = ^b[i] ^ byte(i*29)
	}
}
