package main

import (
	"bytes"
	"crypto"
	"fmt"

	"circlsim/core"
	"circlsim/fixtures"

	"github.com/cloudflare/circl/abe/cpabe/tkn20"
	"github.com/cloudflare/circl/blindsign/blindrsa"
	"github.com/cloudflare/circl/blindsign/blindrsa/partiallyblindrsa"
	"github.com/cloudflare/circl/group"
	"github.com/cloudflare/circl/hpke"
	"github.com/cloudflare/circl/kem"
	kemschemes "github.com/cloudflare/circl/kem/schemes"
	"github.com/cloudflare/circl/oprf"
	"github.com/cloudflare/circl/sign"
	"github.com/cloudflare/circl/sign/bls"
	signschemes "github.com/cloudflare/circl/sign/schemes"
	tssrsa "github.com/cloudflare/circl/tss/rsa"
	"github.com/cloudflare/circl/vdaf/prio3/count"
	"github.com/cloudflare/circl/xof"
	"github.com/cloudflare/circl/zk/dleq"
)

// spareFamily: byte-string arguments of exported calls are handed over as slices that sit
// inside a larger buffer of the caller (cap > len, live bytes behind them). The call must
// return what it returns for the same bytes in exactly-sized slices, must not change the
// argument, and must not write behind it (an append to a parameter does).
type spareCall struct {
	name string
	// call receives a wrapper for its byte-string arguments and returns a digestible result
	call func(in func([]byte) []byte, seed uint64) []byte
}

func spareFamily() *family {
	f := &family{name: "spare-capacity-arguments"}
	var calls []spareCall
	add := func(name string, c func(in func([]byte) []byte, seed uint64) []byte) {
		calls = append(calls, spareCall{name, c})
	}
	b := func(seed uint64, n int) []byte { return core.NewPRNG(seed).Bytes(n) }
	mb := func(x interface{ MarshalBinary() ([]byte, error) }) []byte {
		o, err := x.MarshalBinary()
		if err != nil {
			return []byte("marshal-error")
		}
		return o
	}
	add("bls.KeyGen[G1]", func(in func([]byte) []byte, s uint64) []byte {
		k, err := bls.KeyGen[bls.G1](in(b(s, 32)), in(b(s+1, 32)), in(b(s+2, 7)))
		if err != nil {
			return []byte("err")
		}
		return mb(k)
	})
	add("bls.KeyGen[G2]+Sign+Verify", func(in func([]byte) []byte, s uint64) []byte {
		k, err := bls.KeyGen[bls.G2](in(b(s, 40)), nil, in(b(s+2, 3)))
		if err != nil {
			return []byte("err")
		}
		sg := bls.Sign(k, in(b(s+3, 20)))
		return append(sg, b2(bls.Verify(k.PublicKey(), in(b(s+3, 20)), in(sg)))...)
	})
	for _, su := range []oprf.Suite{oprf.SuiteRistretto255, oprf.SuiteP256, oprf.SuiteP384, oprf.SuiteP521} {
		su := su
		add("oprf["+su.Identifier()+"].DeriveKey+FullEvaluate", func(in func([]byte) []byte, s uint64) []byte {
			k, err := oprf.DeriveKey(su, oprf.PartialObliviousMode, in(b(s, 32)), in(b(s+1, 9)))
			if err != nil {
				return []byte("err")
			}
			o, err := oprf.NewPartialObliviousServer(su, k).FullEvaluate(in(b(s+2, 11)), in(b(s+3, 5)))
			if err != nil {
				return []byte("err2")
			}
			return append(mb(k), o...)
		})
	}
	for _, sch := range kemschemes.All() {
		sch := sch
		if sch.Name() == "FrodoKEM-640-SHAKE" || sch.Name() == "Kyber1024-X448" {
			continue // slow; the mechanism is shared with their siblings
		}
		add("kem["+sch.Name()+"]", func(in func([]byte) []byte, s uint64) []byte {
			pk, sk := sch.DeriveKeyPair(in(b(s, sch.SeedSize())))
			ct, ss, err := sch.EncapsulateDeterministically(pk, in(b(s+1, sch.EncapsulationSeedSize())))
			if err != nil {
				return []byte("err")
			}
			ss2, err := sch.Decapsulate(sk, in(ct))
			if err != nil {
				return []byte("err2")
			}
			pk2, err := sch.UnmarshalBinaryPublicKey(in(mb(pk)))
			if err != nil {
				return []byte("err3")
			}
			_ = kem.PublicKey(pk2)
			return append(append(ct[:32:32], ss...), ss2...)
		})
	}
	for _, sch := range signschemes.All() {
		sch := sch
		add("sign["+sch.Name()+"]", func(in func([]byte) []byte, s uint64) []byte {
			pk, sk := sch.DeriveKey(in(b(s, sch.SeedSize())))
			var o *sign.SignatureOpts
			msg := b(s+1, 33)
			sg := sch.Sign(sk, in(msg), o)
			ok := sch.Verify(pk, in(msg), in(sg), o)
			sk2, err := sch.UnmarshalBinaryPrivateKey(in(mb(sk)))
			if err != nil || !sk2.Equal(sk) {
				return []byte("restore-differs")
			}
			return append(sg[:32:32], b2(ok)...)
		})
	}
	for _, g := range []group.Group{group.P256, group.P384, group.P521, group.Ristretto255} {
		g := g
		add(fmt.Sprintf("group[%v].HashToElement/Scalar+dleq", g), func(in func([]byte) []byte, s uint64) []byte {
			e := g.HashToElement(in(b(s, 20)), in(b(s+1, 12)))
			k := g.HashToScalar(in(b(s+2, 20)), in(b(s+3, 12)))
			pr, err := dleq.Prover{Params: dleq.Params{G: g, H: crypto.SHA256, DST: in(b(s+4, 10))}}.ProveWithRandomness(k, g.Generator(), g.NewElement().MulGen(k), e, g.NewElement().Mul(e, k), g.HashToScalar(b(s+5, 8), nil))
			if err != nil {
				return []byte("err")
			}
			return append(append(mb(e), mb(k)...), mb(pr)...)
		})
	}
	for _, id := range []hpke.KEM{hpke.KEM_X25519_HKDF_SHA256, hpke.KEM_P256_HKDF_SHA256, hpke.KEM_X25519_KYBER768_DRAFT00} {
		id := id
		add(fmt.Sprintf("hpke[kem 0x%04x].psk-session", uint16(id)), func(in func([]byte) []byte, s uint64) []byte {
			pk, sk := id.Scheme().DeriveKeyPair(in(b(s, id.Scheme().SeedSize())))
			su := hpke.NewSuite(id, hpke.KDF_HKDF_SHA256, hpke.AEAD_ChaCha20Poly1305)
			snd, err := su.NewSender(pk, in(b(s+1, 9)))
			if err != nil {
				return []byte("err")
			}
			enc, sealer, err := snd.SetupPSK(core.NewStream(s+2), in(b(s+3, 32)), in(b(s+4, 6)))
			if err != nil {
				return []byte("err2")
			}
			ct, err := sealer.Seal(in(b(s+5, 17)), in(b(s+6, 4)))
			if err != nil {
				return []byte("err3")
			}
			rc, _ := su.NewReceiver(sk, in(b(s+1, 9)))
			op, err := rc.SetupPSK(in(enc), in(b(s+3, 32)), in(b(s+4, 6)))
			if err != nil {
				return []byte("err4")
			}
			pt, err := op.Open(in(ct), in(b(s+6, 4)))
			if err != nil {
				return []byte("err5")
			}
			return append(append(append(enc[:16:16], ct...), pt...), sealer.Export(in(b(s+7, 5)), 16)...)
		})
	}
	add("xof.Write", func(in func([]byte) []byte, s uint64) []byte {
		var out []byte
		for _, id := range []xof.ID{xof.SHAKE128, xof.SHAKE256, xof.BLAKE2XB, xof.BLAKE2XS, xof.K12D10} {
			x := id.New()
			x.Write(in(b(s, 200)))
			x.Write(in(b(s+1, 9000)))
			o := make([]byte, 16)
			x.Read(o)
			out = append(out, o...)
		}
		return out
	})
	add("tss/rsa.PadHash+Sign", func(in func([]byte) []byte, s uint64) []byte {
		key := fixtures.RSAKey("std-1024-a")
		shares, err := tssrsa.Deal(core.NewStream(s), 3, 2, key, s&1 == 1)
		if err != nil {
			return []byte("err")
		}
		d, err := tssrsa.PadHash(&tssrsa.PKCS1v15Padder{}, crypto.SHA256, &key.PublicKey, in(b(s+1, 30)))
		if err != nil {
			return []byte("err2")
		}
		ss, err := shares[0].Sign(nil, &key.PublicKey, in(d), false)
		if err != nil {
			return []byte("err3")
		}
		return mb(&ss)
	})
	add("blindrsa.Prepare+Blind / partiallyblindrsa.Blind", func(in func([]byte) []byte, s uint64) []byte {
		key := fixtures.RSAKey("std-1024-a")
		c, _ := blindrsa.NewClient(blindrsa.SHA384PSSDeterministic, &key.PublicKey)
		pm, err := c.Prepare(core.NewStream(s), in(b(s+1, 20)))
		if err != nil {
			return []byte("err")
		}
		bm, _, err := c.Blind(core.NewStream(s+2), in(pm))
		if err != nil {
			return []byte("err2")
		}
		sk := fixtures.RSAKey("safe-1024-a")
		pb, _, err := partiallyblindrsa.NewVerifier(&sk.PublicKey, crypto.SHA384).Blind(core.NewStream(s+3), in(b(s+4, 12)), in(b(s+5, 6)))
		if err != nil {
			return []byte("err3")
		}
		return append(bm, pb...)
	})
	add("prio3/count.New+Shard", func(in func([]byte) []byte, s uint64) []byte {
		c, err := count.New(2, in(b(s, 8)))
		if err != nil {
			return []byte("err")
		}
		var nonce count.Nonce
		copy(nonce[:], b(s+1, len(nonce)))
		par := c.Params()
		pub, shares, err := c.Shard(s&1 == 1, &nonce, in(b(s+2, int(par.RandSize()))))
		if err != nil {
			return []byte("err2")
		}
		return append(mb(&pub), mb(&shares[1])...)
	})
	var tk struct {
		pk tkn20.PublicKey
		ok bool
	}
	add("tkn20.Encrypt", func(in func([]byte) []byte, s uint64) []byte {
		if !tk.ok {
			tk.pk, _, _ = tkn20.Setup(core.NewStream(77))
			tk.ok = true
		}
		var pol tkn20.Policy
		pol.FromString("a: x")
		ct, err := tk.pk.Encrypt(core.NewStream(s), pol, in(b(s+1, 25)))
		if err != nil {
			return []byte("err")
		}
		return ct[len(ct)-48:]
	})

	for i := range calls {
		c := calls[i]
		f.ops = append(f.ops, opDef{c.name, "", nil, func(r any, _ []any, imm uint64) any {
			run := r.(*core.Run)
			exact := func(x []byte) []byte {
				if x == nil {
					return nil
				}
				return append(make([]byte, 0, len(x)), x...)
			}
			type frame struct{ buf, keep []byte }
			var frames []frame
			framed := func(x []byte) []byte {
				if x == nil {
					return nil
				}
				buf := make([]byte, len(x)+24)
				copy(buf, x)
				for i := len(x); i < len(buf); i++ {
					buf[i] = 0xc3
				}
				frames = append(frames, frame{buf, append([]byte{}, x...)})
				return buf[:len(x)]
			}
			var want, got []byte
			pan, v, st := core.Try(func() { want = c.call(exact, imm) })
			if pan {
				return nil // not a matter of capacity
			}
			pan, v, st = core.Try(func() { got = c.call(framed, imm) })
			if pan {
				run.Violate("hist[spare-capacity-arguments]."+c.name, core.PanicClass(v), "with arguments that have spare capacity: %s at %s", v, st)
				return nil
			}
			run.Fault("aliasing:arguments-with-live-spare-capacity")
			for i, fr := range frames {
				n := len(fr.keep)
				if !bytes.Equal(fr.buf[:n], fr.keep) {
					run.Violate("hist[spare-capacity-arguments]."+c.name, "operation-modifies-its-operand", "byte-string argument %d (%d bytes) was changed by the call", i, n)
					return nil
				}
				for j := n; j < len(fr.buf); j++ {
					if fr.buf[j] != 0xc3 {
						run.Violate("hist[spare-capacity-arguments]."+c.name, "modifies-caller-buffer-beyond-its-argument", "byte %d behind byte-string argument %d (%d bytes) changed from c3 to %02x", j-n, i, n, fr.buf[j])
						return nil
					}
				}
			}
			if !bytes.Equal(got, want) {
				run.Violate("hist[spare-capacity-arguments]."+c.name, "result-depends-on-buffer-capacity", "the same byte strings in slices with spare capacity give %x…, in exactly-sized slices %x…", head(got), head(want))
			}
			return nil
		}})
	}
	return f
}

func b2(ok bool) []byte {
	if ok {
		return []byte{1}
	}
	return []byte{0}
}
