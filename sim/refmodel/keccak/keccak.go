// Package keccak is a plain 25-lane reference model of Keccak-p[1600,nr], the
// sponge construction, SHA-3 / SHAKE (FIPS 202), TurboSHAKE and KangarooTwelve
// KT128 (RFC 9861), written from the specifications. One-shot only: the model has
// no streaming state, which is exactly what makes it an oracle for chunking.
package keccak

import (
	"bytes"
	"encoding/binary"
	"encoding/hex"
	"fmt"
	"math/bits"

	xsha3 "golang.org/x/crypto/sha3"
)

var rc = [24]uint64{
	0x0000000000000001, 0x0000000000008082, 0x800000000000808A, 0x8000000080008000,
	0x000000000000808B, 0x0000000080000001, 0x8000000080008081, 0x8000000000008009,
	0x000000000000008A, 0x0000000000000088, 0x0000000080008009, 0x000000008000000A,
	0x000000008000808B, 0x800000000000008B, 0x8000000000008089, 0x8000000000008003,
	0x8000000000008002, 0x8000000000000080, 0x000000000000800A, 0x800000008000000A,
	0x8000000080008081, 0x8000000000008080, 0x0000000080000001, 0x8000000080008008,
}

var rotc = [25]int{0, 1, 62, 28, 27, 36, 44, 6, 55, 20, 3, 10, 43, 25, 39, 41, 45, 15, 21, 8, 18, 2, 61, 56, 14}

// P applies the last nr rounds of Keccak-f[1600] (Keccak-p[1600,nr]) to a, lanes indexed x+5y.
func P(a *[25]uint64, nr int) {
	for r := 24 - nr; r < 24; r++ {
		var c [5]uint64
		for x := 0; x < 5; x++ {
			c[x] = a[x] ^ a[x+5] ^ a[x+10] ^ a[x+15] ^ a[x+20]
		}
		for x := 0; x < 5; x++ {
			d := c[(x+4)%5] ^ bits.RotateLeft64(c[(x+1)%5], 1)
			for y := 0; y < 5; y++ {
				a[x+5*y] ^= d
			}
		}
		var b [25]uint64
		for x := 0; x < 5; x++ {
			for y := 0; y < 5; y++ {
				b[y+5*((2*x+3*y)%5)] = bits.RotateLeft64(a[x+5*y], rotc[x+5*y])
			}
		}
		for x := 0; x < 5; x++ {
			for y := 0; y < 5; y++ {
				a[x+5*y] = b[x+5*y] ^ (^b[(x+1)%5+5*y] & b[(x+2)%5+5*y])
			}
		}
		a[0] ^= rc[r]
	}
}

// Sponge absorbs msg with domain byte ds (which carries the first padding bit)
// and squeezes n bytes.
func Sponge(rate int, ds byte, nr int, msg []byte, n int) []byte {
	var a [25]uint64
	block := make([]byte, rate)
	absorb := func(b []byte) {
		for i := 0; i < rate/8; i++ {
			a[i] ^= binary.LittleEndian.Uint64(b[8*i:])
		}
		P(&a, nr)
	}
	for len(msg) >= rate {
		absorb(msg[:rate])
		msg = msg[rate:]
	}
	for i := range block {
		block[i] = 0
	}
	copy(block, msg)
	block[len(msg)] ^= ds
	block[rate-1] ^= 0x80
	absorb(block)
	out := make([]byte, 0, n+rate)
	for {
		for i := 0; i < rate/8; i++ {
			var w [8]byte
			binary.LittleEndian.PutUint64(w[:], a[i])
			out = append(out, w[:]...)
		}
		if len(out) >= n {
			return out[:n]
		}
		P(&a, nr)
	}
}

func SHA3(bitsOut int, msg []byte) []byte            { return Sponge(200-2*bitsOut/8, 0x06, 24, msg, bitsOut/8) }
func SHAKE128(msg []byte, n int) []byte              { return Sponge(168, 0x1f, 24, msg, n) }
func SHAKE256(msg []byte, n int) []byte              { return Sponge(136, 0x1f, 24, msg, n) }
func TurboSHAKE128(msg []byte, d byte, n int) []byte { return Sponge(168, d, 12, msg, n) }
func TurboSHAKE256(msg []byte, d byte, n int) []byte { return Sponge(136, d, 12, msg, n) }

func lengthEncode(x int) []byte {
	var b []byte
	for v := x; v > 0; v >>= 8 {
		b = append([]byte{byte(v)}, b...)
	}
	return append(b, byte(len(b)))
}

// KT128 is KangarooTwelve (RFC 9861 section 3).
func KT128(msg, custom []byte, n int) []byte {
	s := append(append(append([]byte{}, msg...), custom...), lengthEncode(len(custom))...)
	const B = 8192
	if len(s) <= B {
		return TurboSHAKE128(s, 0x07, n)
	}
	final := append([]byte{}, s[:B]...)
	final = append(final, 0x03, 0, 0, 0, 0, 0, 0, 0)
	cnt := 0
	for off := B; off < len(s); off += B {
		end := off + B
		if end > len(s) {
			end = len(s)
		}
		final = append(final, TurboSHAKE128(s[off:end], 0x0b, 32)...)
		cnt++
	}
	final = append(final, lengthEncode(cnt)...)
	final = append(final, 0xff, 0xff)
	return TurboSHAKE128(final, 0x06, n)
}

// Ptn is the test pattern of RFC 9861.
func Ptn(n int) []byte {
	b := make([]byte, n)
	for i := range b {
		b[i] = byte(i % 251)
	}
	return b
}

// Selftest pins the model: Keccak-f and the sponge against x/crypto/sha3,
// TurboSHAKE / KT128 against the published vectors.
func Selftest() error {
	for _, n := range []int{0, 1, 135, 136, 137, 167, 168, 169, 500} {
		m := Ptn(n)
		want := make([]byte, 300)
		xsha3.ShakeSum128(want, m)
		if !bytes.Equal(SHAKE128(m, 300), want) {
			return fmt.Errorf("keccak model: SHAKE128 mismatch at %d", n)
		}
		xsha3.ShakeSum256(want, m)
		if !bytes.Equal(SHAKE256(m, 300), want) {
			return fmt.Errorf("keccak model: SHAKE256 mismatch at %d", n)
		}
		d := xsha3.Sum256(m)
		if !bytes.Equal(SHA3(256, m), d[:]) {
			return fmt.Errorf("keccak model: SHA3-256 mismatch at %d", n)
		}
		d5 := xsha3.Sum512(m)
		if !bytes.Equal(SHA3(512, m), d5[:]) {
			return fmt.Errorf("keccak model: SHA3-512 mismatch at %d", n)
		}
	}
	kat := []struct {
		m, c []byte
		n    int
		want string
	}{
		{nil, nil, 32, "1ac2d450fc3b4205d19da7bfca1b37513c0803577ac7167f06fe2ce1f0ef39e5"},
		{Ptn(17), nil, 32, "6bf75fa2239198db4772e36478f8e19b0f371205f6a9a93a273f51df37122888"},
		{Ptn(17 * 17), nil, 32, "0c315ebcdedbf61426de7dcf8fb725d1e74675d7f5327a5067f367b108ecb67c"},
		{Ptn(17 * 17 * 17), nil, 32, "cb552e2ec77d9910701d578b457ddf772c12e322e4ee7fe417f92c758f0d59d0"},
		{Ptn(17 * 17 * 17 * 17), nil, 32, "8701045e22205345ff4dda05555cbb5c3af1a771c2b89baef37db43d9998b9fe"},
		{nil, Ptn(1), 32, "fab658db63e94a246188bf7af69a133045f46ee984c56e3c3328caaf1aa1a583"},
		{[]byte{0xff}, Ptn(41), 32, "d848c5068ced736f4462159b9867fd4c20b808acc3d5bc48e0b06ba0a3762ec4"},
		{[]byte{0xff, 0xff, 0xff}, Ptn(41 * 41), 32, "c389e5009ae57120854c2e8c64670ac01358cf4c1baf89447a724234dc7ced74"},
		{[]byte{0xff, 0xff, 0xff, 0xff, 0xff, 0xff, 0xff}, Ptn(41 * 41 * 41), 32, "75d2f86a2e644566726b4fbcfc5657b9dbcf070c7b0dca06450ab291d7443bcf"},
	}
	for i, k := range kat {
		if hex.EncodeToString(KT128(k.m, k.c, k.n)) != k.want {
			return fmt.Errorf("keccak model: KT128 vector %d mismatch", i)
		}
	}
	// RFC 9861: TurboSHAKE128(M=empty, D=0x1F, 32)
	if hex.EncodeToString(TurboSHAKE128(nil, 0x1f, 32)) != "1e415f1c5983aff2169217277d17bb538cd945a397ddec541f1ce41af2c1b74c" {
		return fmt.Errorf("keccak model: TurboSHAKE128 vector mismatch")
	}
	return nil
}
