#!/bin/bash
# usage: [TIER=quick] tools/thorough_all.sh <seed> [ID...] — runs the thorough (or $TIER) tier of every claimed check (or the listed ones)
# with VERIF_SEED=<seed>, evidence into a scratch directory (the committed evidence is not touched), and prints
# one summary line per check. Exit status: 0 if every check exited 0.
set -u
SEED="$1"; shift
V="$(cd "$(dirname "$0")/.." && pwd)"
IDS="$*"
[ -n "$IDS" ] || IDS=$(python3 -c "import json;print(' '.join(c['property_id'] for c in json.load(open('$V/MANIFEST.json'))['checks']))")
OUT=$(mktemp -d /var/tmp/thorough.XXXXXX)
rc=0
for id in $IDS; do
  s=$(date +%s)
  VERIF_SEED=$SEED VERIF_OUT_DIR="$OUT" "$V/bin/check" "$id" "${TIER:-thorough}" > "$OUT/$id.log" 2>&1; r=$?
  e=$(( $(date +%s) - s ))
  echo "== $id seed=$SEED exit=$r wall=${e}s :: $(grep -E "runs=|plans compared|schedules" "$OUT/$id.log" | tail -1 | cut -c1-200)"
  grep -E "VIOLATION|KNOWN-FINDING|mismatch|trouble" "$OUT/$id.log" | cut -c1-300 | head -5
  [ $r -eq 0 ] || rc=1
done
rm -rf "$OUT"
exit $rc
