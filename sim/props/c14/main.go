// C14 — optimised and portable builds compute identical results. confsim: the
// seeded plans of the protocol workloads (C01, C02, C07, C08, C15, C16 — with
// their faults, so that rejection paths run under every back-end) and of a
// primitive-level transcript are replayed, in separate processes, under each
// build / CPU configuration; the event-log digests must be identical. A
// difference is bisected to the first differing event.
package main

import (
	"bufio"
	"bytes"
	"encoding/json"
	"fmt"
	"os"
	"os/exec"
	"path/filepath"
	"sort"
	"strconv"
	"strings"
	"sync"
	"time"
)

type config struct {
	Name   string
	Purego bool
	Env    string // GODEBUG value
}

var configs = []config{
	{"default", false, ""},
	{"purego", true, ""},
	{"avx2-off", false, "cpu.avx2=off"},
	{"bmi2-off", false, "cpu.bmi2=off"},
	{"adx-off", false, "cpu.adx=off"},
	{"all-off", false, "cpu.avx2=off,cpu.bmi2=off,cpu.adx=off"},
}

type workload struct {
	Name            string
	Quick, Thorough int
}

var workloads = []workload{
	{"c14prim", 5000, 400000},
	{"c01", 700, 40000},
	{"c02", 500, 30000},
	{"c07", 1500, 100000},
	{"c08", 1500, 200000},
	{"c15", 2000, 200000},
	{"c16", 400, 20000},
}

func outDir() string {
	if d := os.Getenv("VERIF_OUT_DIR"); d != "" {
		return d
	}
	return verifDir()
}

func verifDir() string {
	if d := os.Getenv("VERIF_DIR"); d != "" {
		return d
	}
	return "/verif"
}

func scratch() string {
	if d := os.Getenv("VERIF_SCRATCH"); d != "" {
		return d
	}
	return "/var/tmp"
}

func bin(w string, c config) string {
	if c.Purego {
		return filepath.Join(scratch(), "w_"+w+"_purego")
	}
	return filepath.Join(scratch(), "w_"+w+"_default")
}

func runBin(w string, c config, stdin []byte, args ...string) ([]byte, error) {
	cmd := exec.Command(bin(w, c), args...)
	cmd.Env = append(os.Environ(), "VERIF_NO_DETCHECK=1")
	if c.Env != "" {
		cmd.Env = append(cmd.Env, "GODEBUG="+c.Env)
	}
	if stdin != nil {
		cmd.Stdin = bytes.NewReader(stdin)
	}
	var so, se bytes.Buffer
	cmd.Stdout, cmd.Stderr = &so, &se
	err := cmd.Run()
	if err != nil {
		return so.Bytes(), fmt.Errorf("%s [%s] %v: %v: %s", w, c.Name, args, err, trunc(se.String(), 300))
	}
	return so.Bytes(), nil
}

func trunc(s string, n int) string {
	if len(s) > n {
		return s[:n] + "…"
	}
	return s
}

type known struct {
	Kind, Property, Key, What, Replay string
}

func loadKnown() []known {
	f, err := os.Open(filepath.Join(verifDir(), "known_findings.txt"))
	if err != nil {
		return nil
	}
	defer f.Close()
	var out []known
	sc := bufio.NewScanner(f)
	sc.Buffer(make([]byte, 1<<20), 1<<24)
	for sc.Scan() {
		l := strings.TrimSpace(sc.Text())
		if !strings.HasPrefix(l, "known:") {
			continue
		}
		var k struct {
			Kind, Property, Key, What, Replay string
		}
		if json.Unmarshal([]byte(strings.TrimSpace(strings.TrimPrefix(l, "known:"))), &k) == nil && k.Property == "C14" {
			out = append(out, known(k))
		}
	}
	return out
}

type replayFile struct {
	Property string          `json:"property"`
	Workload string          `json:"workload"`
	Tier     string          `json:"tier"`
	Seed     uint64          `json:"seed"`
	Run      int             `json:"run"`
	ConfigA  string          `json:"config_a"`
	ConfigB  string          `json:"config_b"`
	Key      string          `json:"key"`
	FirstA   string          `json:"first_differing_event_a"`
	FirstB   string          `json:"first_differing_event_b"`
	Plan     json.RawMessage `json:"plan"`
}

type execResult struct {
	Digest string   `json:"digest"`
	Lines  []string `json:"lines"`
}

func cfgByName(n string) config {
	for _, c := range configs {
		if c.Name == n {
			return c
		}
	}
	return configs[0]
}

// bisect executes plan under both configurations verbosely and returns the first differing event.
func bisect(w string, a, b config, plan []byte) (differs bool, la, lb, comp string, err error) {
	oa, err := runBin(w, a, plan, "exec", "-v")
	if err != nil {
		return false, "", "", "", err
	}
	ob, err := runBin(w, b, plan, "exec", "-v")
	if err != nil {
		return false, "", "", "", err
	}
	var ra, rb execResult
	if json.Unmarshal(lastLine(oa), &ra) != nil || json.Unmarshal(lastLine(ob), &rb) != nil {
		return false, "", "", "", fmt.Errorf("cannot parse exec output")
	}
	if ra.Digest == rb.Digest {
		return false, "", "", "", nil
	}
	for i := 0; i < len(ra.Lines) || i < len(rb.Lines); i++ {
		var x, y string
		if i < len(ra.Lines) {
			x = ra.Lines[i]
		}
		if i < len(rb.Lines) {
			y = rb.Lines[i]
		}
		if x != y {
			// component = node|op of the event (fields 2 and 3)
			f := strings.Split(x+"|||", "|")
			if x == "" {
				f = strings.Split(y+"|||", "|")
			}
			return true, x, y, f[1] + "." + f[2], nil
		}
	}
	return true, "", "", "unknown", nil
}

func lastLine(b []byte) []byte {
	lines := bytes.Split(bytes.TrimSpace(b), []byte("\n"))
	return lines[len(lines)-1]
}

func seed() uint64 {
	v, err := strconv.ParseUint(os.Getenv("VERIF_SEED"), 10, 64)
	if err != nil {
		return 1
	}
	return v
}

func check(tier string) int {
	t0 := time.Now()
	fmt.Printf("[C14] tier=%s seed=%d\n", tier, seed())
	os.MkdirAll(filepath.Join(outDir(), "evidence"), 0o755)
	os.MkdirAll(filepath.Join(outDir(), "replays"), 0o755)
	kn := loadKnown()
	knownKeys := map[string]known{}
	for _, k := range kn {
		knownKeys[k.Key] = k
	}
	type job struct {
		w        string
		c        config
		from, to int
	}
	var jobs []job
	totals := map[string]int{}
	for _, w := range workloads {
		n := w.Quick
		if tier == "thorough" {
			n = w.Thorough
		}
		if v := os.Getenv("VERIF_RUNS"); v != "" {
			if x, err := strconv.Atoi(v); err == nil && x < n {
				n = x
			}
		}
		totals[w.Name] = n
		chunk := (n + 7) / 8
		for _, c := range configs {
			for from := 0; from < n; from += chunk {
				to := from + chunk
				if to > n {
					to = n
				}
				jobs = append(jobs, job{w.Name, c, from, to})
			}
		}
	}
	type key struct {
		w, c string
		id   int
	}
	digests := map[key]string{}
	var mu sync.Mutex
	var wg sync.WaitGroup
	sem := make(chan struct{}, 16)
	trouble := ""
	for _, j := range jobs {
		wg.Add(1)
		sem <- struct{}{}
		go func(j job) {
			defer wg.Done()
			defer func() { <-sem }()
			out, err := runBin(j.w, j.c, nil, "digests", tier, strconv.Itoa(j.from), strconv.Itoa(j.to))
			mu.Lock()
			defer mu.Unlock()
			if err != nil {
				// a process that dies under one configuration only is itself a difference; record what we have
				trouble = err.Error()
			}
			for _, l := range strings.Split(string(out), "\n") {
				f := strings.Fields(l)
				if len(f) >= 2 {
					id, _ := strconv.Atoi(f[0])
					digests[key{j.w, j.c.Name, id}] = f[1]
				}
			}
		}(j)
	}
	wg.Wait()
	if trouble != "" {
		fmt.Printf("[C14] harness trouble: %s\n", trouble)
		return 2
	}
	// compare
	type diff struct {
		w  string
		id int
		c  string
	}
	var diffs []diff
	compared, executions := 0, 0
	perConfig := map[string]int{}
	for _, w := range workloads {
		for id := 0; id < totals[w.Name]; id++ {
			base, ok := digests[key{w.Name, "default", id}]
			if !ok {
				fmt.Printf("[C14] harness trouble: missing digest %s/%d\n", w.Name, id)
				return 2
			}
			compared++
			for _, c := range configs {
				d, ok := digests[key{w.Name, c.Name, id}]
				if !ok {
					fmt.Printf("[C14] harness trouble: missing digest %s/%s/%d\n", w.Name, c.Name, id)
					return 2
				}
				executions++
				perConfig[c.Name]++
				if d != base {
					diffs = append(diffs, diff{w.Name, id, c.Name})
				}
			}
		}
	}
	sort.Slice(diffs, func(i, j int) bool {
		if diffs[i].w != diffs[j].w {
			return diffs[i].w < diffs[j].w
		}
		return diffs[i].id < diffs[j].id
	})
	exit := 0
	reported := map[string]bool{}
	printedKnown := map[string]bool{}
	newViol := 0
	for _, d := range diffs {
		if len(reported) >= 12 {
			break
		}
		plan, err := runBin(d.w, configs[0], nil, "plan", tier, strconv.Itoa(d.id))
		if err != nil {
			fmt.Printf("[C14] harness trouble: %v\n", err)
			return 2
		}
		plan = bytes.TrimSpace(plan)
		// self-determinism of both configurations first
		differs, la, lb, comp, err := bisect(d.w, configs[0], cfgByName(d.c), plan)
		if err != nil {
			fmt.Printf("[C14] harness trouble: %v\n", err)
			return 2
		}
		if !differs {
			fmt.Printf("[C14] digest difference on %s run %d (%s) did not reproduce: harness nondeterminism\n", d.w, d.id, d.c)
			exit = 2
			continue
		}
		selfA, _, _, _, _ := bisect(d.w, configs[0], configs[0], plan)
		selfB, _, _, _, _ := bisect(d.w, cfgByName(d.c), cfgByName(d.c), plan)
		if selfA || selfB {
			fmt.Printf("[C14] %s run %d is not deterministic within one configuration: not attributed to the back-end\n", d.w, d.id)
			exit = 2
			continue
		}
		k := fmt.Sprintf("C14|%s:%s|differs:default-vs-%s", d.w, comp, d.c)
		if reported[k] {
			continue
		}
		reported[k] = true
		if kf, ok := knownKeys[k]; ok {
			if !printedKnown[k] {
				fmt.Printf("KNOWN-FINDING: property=C14 %s\n", kf.What)
				printedKnown[k] = true
			}
			continue
		}
		rf := replayFile{"C14", d.w, tier, seed(), d.id, "default", d.c, k, la, lb, plan}
		path := filepath.Join(outDir(), "replays", fmt.Sprintf("C14-%d-%s-%d-%s.json", seed(), d.w, d.id, d.c))
		b, _ := json.MarshalIndent(rf, "", " ")
		os.WriteFile(path, b, 0o644)
		fmt.Printf("[C14] %s — workload %s run %d: first differing event\n   default: %s\n   %s: %s\n", k, d.w, d.id, trunc(la, 300), d.c, trunc(lb, 300))
		fmt.Printf("VIOLATION property=C14 replay=%s\n", path)
		newViol++
		exit = 1
	}
	wall := time.Since(t0).Seconds()
	var wl []string
	for _, w := range workloads {
		wl = append(wl, fmt.Sprintf("%s:%d", w.Name, totals[w.Name]))
	}
	cov := map[string]any{
		"evaluations":         executions,
		"distinct_nontrivial": compared,
		"rule":                "every seeded plan of the listed workloads (protocol simulations with their faults, primitive transcript with edge-biased operands) is executed once per configuration {default, -tags purego, GODEBUG cpu.avx2=off, cpu.bmi2=off, cpu.adx=off, all three off} in separate processes; evaluations = plan executions, distinct_nontrivial = distinct plans whose event-log digests were compared across all six configurations",
		"samples":             []any{map[string]any{"workload": "c14prim", "run": 0, "digest_default": digests[key{"c14prim", "default", 0}], "digest_purego": digests[key{"c14prim", "purego", 0}]}},
		"exhaustive":          false,
		"workloads":           wl,
		"configurations":      perConfig,
		"differences_found":   len(diffs),
		"runs_per_hour":       int(float64(executions) / wall * 3600),
		"components": map[string]string{
			"all circl packages driven by the workloads": "real (each back-end selected by build tag / CPU feature switch)",
			"transport, disk, entropy of the workloads":  "stub (same as in C01, C02, C07, C08, C15, C16)",
		},
		"out_of_scope": "arm64 back-ends cannot be executed in this sandbox; tkn20 (unordered map iteration) is excluded",
	}
	ev := map[string]any{"property_id": "C14", "tier": tier, "seed": int64(seed() & 0x7fffffffffffffff), "level": "exploration", "coverage": cov,
		"assumptions": []string{"GODEBUG=cpu.X=off is honoured by golang.org/x/sys/cpu for AVX2, BMI2 and ADX on this machine (all three present)", "each configuration is deterministic with itself (checked on every reported difference)"},
		"wall_s":      wall, "violations": newViol}
	eb, _ := json.MarshalIndent(ev, "", " ")
	if err := os.WriteFile(filepath.Join(outDir(), "evidence", "C14.json"), eb, 0o644); err != nil {
		return 2
	}
	fmt.Printf("[C14] plans compared=%d executions=%d differences=%d wall=%.1fs exit=%d\n", compared, executions, len(diffs), wall, exit)
	return exit
}

func replay(path string) int {
	b, err := os.ReadFile(path)
	if err != nil {
		fmt.Println(err)
		return 2
	}
	var rf replayFile
	if json.Unmarshal(b, &rf) != nil {
		return 2
	}
	differs, la, lb, _, err := bisect(rf.Workload, cfgByName(rf.ConfigA), cfgByName(rf.ConfigB), rf.Plan)
	if err != nil {
		fmt.Println("replay failed:", err)
		return 2
	}
	if !differs {
		fmt.Println("not reproduced: both configurations produce the same event log")
		return 0
	}
	fmt.Printf("reproduced: %s\n   %s: %s\n   %s: %s\n", rf.Key, rf.ConfigA, trunc(la, 400), rf.ConfigB, trunc(lb, 400))
	for _, k := range loadKnown() {
		if k.Key == rf.Key {
			fmt.Printf("KNOWN-FINDING: property=C14 %s\n", k.What)
			return 0
		}
	}
	fmt.Printf("VIOLATION property=C14 replay=%s\n", path)
	return 1
}

func main() {
	if len(os.Args) < 2 {
		os.Exit(2)
	}
	switch os.Args[1] {
	case "quick", "thorough":
		os.Exit(check(os.Args[1]))
	case "replay":
		os.Exit(replay(os.Args[2]))
	case "selftest":
		fmt.Println("selftest ok")
	default:
		os.Exit(2)
	}
}
