//go:build verif

package tkn20

import "github.com/cloudflare/circl/abe/cpabe/tkn20/internal/tkn"

// Adversarial key holder seam for the simulator (see shim/tkn_internal_export.go). Mapped
// into abe/cpabe/tkn20 by go build -overlay; never committed to /repo.
func (s *AttributeKey) VerifDecryptWeakened(ct []byte, orMask uint64) ([]byte, bool, error) {
	return tkn.VerifDecryptWeakened(ct, &s.ak, orMask)
}

func VerifGateCount(ct []byte) int { return tkn.VerifGateCount(ct) }
