// Package h2c is a reference model of RFC 9380 section 5.3: expand_message_xmd
// and expand_message_xof, including the oversize-DST rule.
package h2c

import (
	"bytes"
	"crypto/sha256"
	"crypto/sha512"
	"encoding/hex"
	"encoding/json"
	"fmt"
	"hash"
	"os"
	"path/filepath"
	"strconv"
	"strings"

	"circlsim/refmodel/keccak"
)

func i2osp(v, n int) []byte {
	b := make([]byte, n)
	for i := n - 1; i >= 0; i-- {
		b[i] = byte(v)
		v >>= 8
	}
	return b
}

func newHash(name string) (func() hash.Hash, int) {
	switch name {
	case "SHA256":
		return sha256.New, 64
	case "SHA384":
		return sha512.New384, 128
	case "SHA512":
		return sha512.New, 128
	}
	return nil, 0
}

// XMD returns nil when the RFC says to abort.
func XMD(hname string, msg, dst []byte, n int) []byte {
	h, sInBytes := newHash(hname)
	if h == nil {
		return nil
	}
	sum := func(parts ...[]byte) []byte {
		x := h()
		for _, p := range parts {
			x.Write(p)
		}
		return x.Sum(nil)
	}
	if len(dst) > 255 {
		dst = sum([]byte("H2C-OVERSIZE-DST-"), dst)
	}
	bInBytes := h().Size()
	ell := (n + bInBytes - 1) / bInBytes
	if ell > 255 || n > 65535 {
		return nil
	}
	dstPrime := append(append([]byte{}, dst...), byte(len(dst)))
	zPad := make([]byte, sInBytes)
	b0 := sum(zPad, msg, i2osp(n, 2), []byte{0}, dstPrime)
	bi := sum(b0, []byte{1}, dstPrime)
	out := append([]byte{}, bi...)
	for i := 2; i <= ell; i++ {
		x := make([]byte, len(b0))
		for j := range x {
			x[j] = b0[j] ^ bi[j]
		}
		bi = sum(x, []byte{byte(i)}, dstPrime)
		out = append(out, bi...)
	}
	return out[:n]
}

// XOF: name is SHAKE128 or SHAKE256, k the target security level in bits.
func XOF(name string, k int, msg, dst []byte, n int) []byte {
	shake := keccak.SHAKE128
	if name == "SHAKE256" {
		shake = keccak.SHAKE256
	}
	if n > 65535 {
		return nil
	}
	if len(dst) > 255 {
		dst = shake(append([]byte("H2C-OVERSIZE-DST-"), dst...), (2*k+7)/8)
	}
	dstPrime := append(append([]byte{}, dst...), byte(len(dst)))
	in := append(append(append([]byte{}, msg...), i2osp(n, 2)...), dstPrime...)
	return shake(in, n)
}

// Selftest runs the RFC 9380 appendix K vectors found under dir.
func Selftest(dir string) error {
	files, _ := filepath.Glob(filepath.Join(dir, "expand_message_*.json"))
	if len(files) < 6 {
		return fmt.Errorf("h2c model: only %d vector files", len(files))
	}
	total := 0
	for _, f := range files {
		raw, err := os.ReadFile(f)
		if err != nil {
			return err
		}
		var v struct {
			DST   string `json:"DST"`
			Hash  string `json:"hash"`
			K     int    `json:"k"`
			Name  string `json:"name"`
			Tests []struct {
				Len string `json:"len_in_bytes"`
				Msg string `json:"msg"`
				Out string `json:"uniform_bytes"`
			} `json:"tests"`
		}
		if err := json.Unmarshal(raw, &v); err != nil {
			return err
		}
		for _, t := range v.Tests {
			n, _ := strconv.ParseInt(strings.TrimPrefix(t.Len, "0x"), 16, 32)
			var got []byte
			if v.Name == "expand_message_xmd" {
				got = XMD(v.Hash, []byte(t.Msg), []byte(v.DST), int(n))
			} else {
				got = XOF(v.Hash, v.K, []byte(t.Msg), []byte(v.DST), int(n))
			}
			want, _ := hex.DecodeString(t.Out)
			if !bytes.Equal(got, want) {
				return fmt.Errorf("h2c model: vector mismatch in %s", filepath.Base(f))
			}
			total++
		}
	}
	if total < 30 {
		return fmt.Errorf("h2c model: only %d vectors", total)
	}
	return nil
}
