// C01 — KEMs: decapsulation inverts encapsulation; tampering never yields the
// key. netsim: a responder node (key pair on a simulated disk, restartable from
// its marshalled key at any time), initiator sessions that ship ciphertexts over
// a faulty transport (bit flips, edits, zero/0xFF fill, a ciphertext made for
// another key, truncation/extension), an auditor that repeats every derivation,
// and an entropy device (short reads) behind the non-deterministic entry points.
package main

import (
	"bytes"
	"crypto/rand"
	"encoding/json"
	"fmt"
	"math/big"
	"strings"
	"time"

	"circlsim/codec"
	"circlsim/core"

	"github.com/cloudflare/circl/kem"
)

type Session struct {
	Seed    uint64 `json:"seed"`
	Fault   string `json:"fault,omitempty"` // "" | flip | edit | zeros | ones | otherkey | trunc | extend
	Pos     int    `json:"pos,omitempty"`
	Val     int    `json:"val,omitempty"`
	Restart bool   `json:"restart,omitempty"` // responder restarts from disk before this session
	Auth    bool   `json:"auth,omitempty"`    // AuthEncapsulate (DHKEMs)
	Random  bool   `json:"random,omitempty"`  // Encapsulate through the entropy device instead of a seed
}

type Plan struct {
	Scheme   string    `json:"scheme"`
	KeySeed  uint64    `json:"key_seed"`
	Entropy  uint64    `json:"entropy"`
	Chunk    int       `json:"chunk"` // entropy device: max bytes per read (0 = unlimited)
	Sessions []Session `json:"sessions"`
}

var schemes = map[string]kem.Scheme{}
var schemeNames []string

func init() {
	for _, s := range codec.AllKEMs() {
		n := s.Name()
		if _, dup := schemes[n]; dup {
			n = "hpke:" + n
		}
		schemes[n] = s
		schemeNames = append(schemeNames, n)
	}
}

func implicitRejection(name string) bool {
	if strings.Contains(name, "-X") || strings.HasPrefix(name, "hpke:") || strings.Contains(name, "P256") || strings.Contains(name, "X25519") {
		return false
	}
	return strings.HasPrefix(name, "ML-KEM") || strings.HasPrefix(name, "Kyber") || strings.HasPrefix(name, "FrodoKEM")
}

// rawShare returns (offset, size, isX25519) of a raw X25519/X448 share inside the
// ciphertext of a concatenation hybrid, from the TLS drafts (X25519Kyber768Draft00:
// X25519 first; X25519MLKEM768: ML-KEM-768 first), not from the implementation.
func rawShare(name string, ctLen int) (off, size int, x25519 bool, ok bool) {
	switch name {
	case "Kyber512-X25519", "Kyber768-X25519":
		return 0, 32, true, true
	case "Kyber768-X448", "Kyber1024-X448":
		return 0, 56, false, true
	case "X25519MLKEM768":
		return ctLen - 32, 32, true, true
	}
	return 0, 0, false, false
}

var p25519 = new(big.Int).Sub(new(big.Int).Lsh(big.NewInt(1), 255), big.NewInt(19))
var p448 = func() *big.Int {
	p := new(big.Int).Lsh(big.NewInt(1), 448)
	p.Sub(p, new(big.Int).Lsh(big.NewInt(1), 224))
	return p.Sub(p, big.NewInt(1))
}()

func uOf(share []byte, x25519 bool) *big.Int {
	b := make([]byte, len(share))
	for i := range share {
		b[len(share)-1-i] = share[i]
	}
	if x25519 {
		b[0] &= 0x7f
		return new(big.Int).Mod(new(big.Int).SetBytes(b), p25519)
	}
	return new(big.Int).Mod(new(big.Int).SetBytes(b), p448)
}

// exempt: the alteration is confined to a raw X share and decodes to the same u.
func exempt(name string, honest, altered []byte) bool {
	off, size, is25519, ok := rawShare(name, len(honest))
	if !ok || len(honest) != len(altered) {
		return false
	}
	for i := range honest {
		if honest[i] != altered[i] && (i < off || i >= off+size) {
			return false
		}
	}
	return uOf(honest[off:off+size], is25519).Cmp(uOf(altered[off:off+size], is25519)) == 0
}

func isDHKEM(name string) bool {
	return strings.HasPrefix(name, "HPKE_KEM_") && !strings.Contains(name, "KYBER") && !strings.Contains(name, "XWING")
}

func noRandomEncapsulate(name string) bool { // documented "not implemented" panic
	return strings.HasPrefix(name, "HPKE_KEM_") && strings.Contains(name, "KYBER")
}

func weight(name string) int {
	switch {
	case strings.Contains(name, "Frodo"):
		return 2
	case strings.Contains(name, "P521"):
		return 3
	case strings.Contains(name, "P384"):
		return 6
	}
	return 20
}

func gen(r *core.PRNG, tier string) any {
	var w []int
	for _, n := range schemeNames {
		w = append(w, weight(n))
	}
	name := schemeNames[r.Pick(w...)]
	p := &Plan{Scheme: name, KeySeed: r.Uint64(), Entropy: r.Uint64()}
	if r.Chance(1, 3) {
		p.Chunk = r.Range(1, 9)
	}
	n := r.Range(1, 8)
	if weight(name) < 10 {
		n = r.Range(1, 3)
	}
	for i := 0; i < n; i++ {
		s := Session{Seed: r.Uint64(), Restart: r.Chance(1, 4)}
		s.Fault = []string{"", "flip", "edit", "zeros", "ones", "otherkey", "trunc", "extend"}[r.Pick(25, 40, 12, 3, 3, 8, 5, 4)]
		s.Pos = r.Intn(1 << 20)
		s.Val = r.Intn(256)
		if s.Fault == "flip" && r.Chance(1, 4) {
			// aim at the last byte of each 32/56-byte prefix or suffix: masked and sign bits live there
			s.Pos = []int{255, 254, 447, 8*1088 + 255, -1, -2}[r.Intn(6)]
		}
		if isDHKEM(name) && r.Chance(1, 4) {
			s.Auth = true
		}
		if s.Fault == "" && r.Chance(1, 4) && !noRandomEncapsulate(name) {
			s.Random = true
		}
		p.Sessions = append(p.Sessions, s)
	}
	return p
}

// directed: for every scheme, one honest session, then flips of every bit of
// the last byte of each 32/56-byte boundary region, all-zero, all-ones, other key.
func directed(tier string) []any {
	var out []any
	for _, n := range schemeNames {
		p := &Plan{Scheme: n, KeySeed: 7, Entropy: 9}
		p.Sessions = append(p.Sessions, Session{Seed: 1}, Session{Seed: 2, Restart: true})
		for _, f := range []string{"zeros", "ones", "otherkey", "trunc", "extend"} {
			p.Sessions = append(p.Sessions, Session{Seed: 3, Fault: f, Pos: 5})
		}
		out = append(out, p)
		if weight(n) >= 10 {
			q := &Plan{Scheme: n, KeySeed: 8, Entropy: 9}
			for _, pos := range []int{0, 7, 248, 249, 250, 251, 252, 253, 254, 255, 256, 440, 447, 448, -1, -2, -8, -9, -255, -256} {
				q.Sessions = append(q.Sessions, Session{Seed: 4, Fault: "flip", Pos: pos})
			}
			out = append(out, q)
		}
	}
	return out
}

type decapResult struct {
	ss  []byte
	err bool
}

func exec(planJSON []byte, run *core.Run) {
	var p Plan
	if json.Unmarshal(planJSON, &p) != nil {
		run.Bad("json")
		return
	}
	s := schemes[p.Scheme]
	if s == nil {
		run.Bad("scheme")
		return
	}
	comp := "kem[" + p.Scheme + "]"
	run.T(p.Scheme)
	ent := core.NewStream(p.Entropy)
	if p.Chunk > 0 {
		ent.MaxChunk = p.Chunk
	}
	rand.Reader = ent
	seed := core.NewPRNG(p.KeySeed).Bytes(s.SeedSize())

	// --- responder derives its key; the auditor repeats the derivation ---
	seedKeep := append([]byte{}, seed...)
	pk, sk := s.DeriveKeyPair(seed)
	if !bytes.Equal(seed, seedKeep) {
		run.Violate(comp+".DeriveKeyPair", "operation-modifies-its-operand", "the seed buffer changed during key derivation")
		return
	}
	pkB, err1 := pk.MarshalBinary()
	skB, err2 := sk.MarshalBinary()
	if err1 != nil || err2 != nil {
		run.Violate(comp+".MarshalBinary", "error", "%v %v", err1, err2)
		return
	}
	// what MarshalBinary returned is written to disk and the buffers are wiped; the key
	// objects must not have been sharing memory with them
	wipe := func(b []byte) []byte { c := append([]byte{}, b...); core.Recycle(b); return c }
	pkB, skB = wipe(pkB), wipe(skB)
	run.Fault("disk:marshalled-key-buffers-wiped")
	if b, _ := sk.MarshalBinary(); !bytes.Equal(b, skB) {
		run.Violate(comp+".PrivateKey.MarshalBinary", "returned-bytes-share-memory-with-the-key", "wiping the first encoding changed what the key marshals to")
		return
	}
	if b, _ := pk.MarshalBinary(); !bytes.Equal(b, pkB) {
		run.Violate(comp+".PublicKey.MarshalBinary", "returned-bytes-share-memory-with-the-key", "wiping the first encoding changed what the key marshals to")
		return
	}
	run.Event("responder", "derive", pkB)
	if len(pkB) != s.PublicKeySize() || len(skB) != s.PrivateKeySize() {
		run.Violate(comp+".DeriveKeyPair", "size-differs-from-advertised", "pk %d (advertised %d), sk %d (advertised %d)", len(pkB), s.PublicKeySize(), len(skB), s.PrivateKeySize())
		return
	}
	for i := 0; i < 3; i++ {
		pk2, sk2 := s.DeriveKeyPair(append([]byte{}, seed...))
		a, _ := pk2.MarshalBinary()
		b, _ := sk2.MarshalBinary()
		if !bytes.Equal(a, pkB) || !bytes.Equal(b, skB) {
			run.Violate(comp+".DeriveKeyPair", "not-a-function-of-the-seed", "two derivations from seed %x give different keys", seed)
			return
		}
	}
	// --- disk: restart equivalence ---
	restart := func() (kem.PrivateKey, bool) {
		page := append([]byte{}, skB...)
		sk2, err := s.UnmarshalBinaryPrivateKey(page)
		if err != nil {
			run.Violate(comp+".UnmarshalBinaryPrivateKey", "rejects-own-encoding", "%v", err)
			return nil, false
		}
		// the disk page the key was read into is recycled once the call has returned
		scribble(page)
		run.Fault("disk:page-recycled-after-load")
		b, err := sk2.MarshalBinary()
		if err != nil || !bytes.Equal(b, skB) {
			run.Violate(comp+".UnmarshalBinaryPrivateKey", "remarshal-differs", "restored private key marshals differently (err=%v)", err)
			return nil, false
		}
		if !sk2.Equal(sk) || !sk.Equal(sk2) {
			run.Violate(comp+".PrivateKey.Equal", "restored-key-not-equal", "a private key restored from its encoding is not Equal to the original")
			return nil, false
		}
		pb, err := sk2.Public().MarshalBinary()
		if err != nil || !bytes.Equal(pb, pkB) {
			run.Violate(comp+".PrivateKey.Public", "restored-key-public-differs", "Public() of the restored key marshals to %s, original %s", sh(pb), sh(pkB))
			return nil, false
		}
		if (sk2.Scheme() == nil) != (sk.Scheme() == nil) || (sk.Scheme() != nil && sk2.Scheme().Name() != sk.Scheme().Name()) {
			run.Violate(comp+".PrivateKey.Scheme", "restored-key-scheme-differs", "Scheme() of a restored private key is %v, of the original %v", sk2.Scheme(), sk.Scheme())
			return nil, false
		}
		return sk2, true
	}
	skDisk, ok := restart()
	if !ok {
		return
	}
	cur := sk
	// a second key pair (other key / auth sender)
	pkO, skO := s.DeriveKeyPair(core.NewPRNG(p.KeySeed + 1).Bytes(s.SeedSize()))
	pkOB, _ := pkO.MarshalBinary()

	decap := func(k kem.PrivateKey, ct []byte, auth bool, pkS kem.PublicKey) (decapResult, bool) {
		var ss []byte
		var err error
		pan, v, st := core.Try(func() {
			if auth {
				ss, err = s.(kem.AuthScheme).AuthDecapsulate(k, ct, pkS)
			} else {
				ss, err = s.Decapsulate(k, ct)
			}
		})
		if pan {
			run.Violate(comp+".Decapsulate", core.PanicClass(v), "ciphertext of %d bytes (%s): %s at %s", len(ct), sh(ct), v, st)
			return decapResult{}, false
		}
		return decapResult{ss, err != nil}, true
	}

	var prevAlt *decapResult
	var prevAltCT []byte
	for i, se := range p.Sessions {
		// initiator: receives the public key as bytes
		rbuf := append([]byte{}, pkB...)
		ipk, err := s.UnmarshalBinaryPublicKey(rbuf)
		if err != nil {
			run.Violate(comp+".UnmarshalBinaryPublicKey", "rejects-own-encoding", "%v", err)
			return
		}
		// the receive buffer the key arrived in is reused once the call has returned
		scribble(rbuf)
		run.Fault("transport:buffer-reused-after-decode")
		if b, _ := ipk.MarshalBinary(); !bytes.Equal(b, pkB) || !ipk.Equal(pk) {
			run.Violate(comp+".UnmarshalBinaryPublicKey", "restored-key-differs", "public key restored from its encoding differs")
			return
		}
		auth := se.Auth
		as, isAuth := s.(kem.AuthScheme)
		if auth && (!isAuth || !isDHKEM(p.Scheme)) {
			auth = false
		}
		eseed := core.NewPRNG(se.Seed).Bytes(s.EncapsulationSeedSize())
		var ct, ss []byte
		switch {
		case se.Random && !auth && !noRandomEncapsulate(p.Scheme):
			pan, v, st := core.Try(func() { ct, ss, err = s.Encapsulate(ipk) })
			if pan {
				run.Violate(comp+".Encapsulate", core.PanicClass(v), "%s at %s", v, st)
				return
			}
			if ent.ShortHits > 0 {
				run.Fault("entropy:short-reads")
			}
		case auth:
			ct, ss, err = as.AuthEncapsulateDeterministically(ipk, skO, eseed)
			if err == nil {
				c2, s2, _ := as.AuthEncapsulateDeterministically(ipk, skO, append([]byte{}, eseed...))
				if !bytes.Equal(ct, c2) || !bytes.Equal(ss, s2) {
					run.Violate(comp+".AuthEncapsulateDeterministically", "not-a-function-of-the-seed", "two encapsulations with one seed differ")
					return
				}
			}
		default:
			eKeep := append([]byte{}, eseed...)
			ct, ss, err = s.EncapsulateDeterministically(ipk, eseed)
			if !bytes.Equal(eseed, eKeep) {
				run.Violate(comp+".EncapsulateDeterministically", "operation-modifies-its-operand", "the encapsulation seed buffer changed")
				return
			}
			if err == nil {
				c2, s2, _ := s.EncapsulateDeterministically(pk, append([]byte{}, eseed...))
				if !bytes.Equal(ct, c2) || !bytes.Equal(ss, s2) {
					run.Violate(comp+".EncapsulateDeterministically", "not-a-function-of-the-seed", "two encapsulations with one seed differ")
					return
				}
			}
		}
		if err != nil {
			run.Violate(comp+".Encapsulate", "error-on-honest-key", "%v", err)
			return
		}
		if len(ct) != s.CiphertextSize() || len(ss) != s.SharedKeySize() {
			run.Violate(comp+".Encapsulate", "size-differs-from-advertised", "ct %d (advertised %d), ss %d (advertised %d)", len(ct), s.CiphertextSize(), len(ss), s.SharedKeySize())
			return
		}
		// the initiator frames the ciphertext: it appends to the slice it was given (a tag, a
		// trailer) and later overwrites the frame. Neither may reach the shared secret it holds.
		ss0 := append([]byte{}, ss...)
		for j, full := len(ct), ct[:cap(ct)]; j < len(full); j++ {
			full[j] ^= 0xa5
		}
		for j, full := len(ss), ss[:cap(ss)]; j < len(full); j++ {
			full[j] ^= 0x5a
		}
		run.Fault("aliasing:returned-slices-appended-to")
		ctKeep := append([]byte{}, ct...)
		if !bytes.Equal(ss, ss0) {
			run.Violate(comp+".Encapsulate", "returned-values-share-memory", "appending to the returned ciphertext (within its capacity %d > length %d) changed the returned shared secret", cap(ct), len(ct))
			return
		}
		if !bytes.Equal(ct, ctKeep) {
			run.Violate(comp+".Encapsulate", "returned-values-share-memory", "appending to the returned shared secret changed the returned ciphertext")
			return
		}
		run.Event("initiator", "encapsulate", i, ct)
		run.Tick(1)
		if se.Restart {
			k, ok := restart()
			if !ok {
				return
			}
			cur = k
			run.Fault("disk:responder-restart")
			run.Event("responder", "restart")
		}
		// transport
		wire := append([]byte{}, ct...)
		switch se.Fault {
		case "":
		case "flip":
			b := se.Pos
			if b < 0 {
				b = len(wire)*8 + b
			}
			b = ((b % (len(wire) * 8)) + len(wire)*8) % (len(wire) * 8)
			wire[b/8] ^= 1 << (b % 8)
		case "edit":
			o := se.Pos % len(wire)
			for j := 0; j < 1+se.Val%6 && o+j < len(wire); j++ {
				wire[o+j] ^= byte(se.Val + 1 + 17*j)
			}
		case "zeros":
			for j := range wire {
				wire[j] = 0
			}
		case "ones":
			for j := range wire {
				wire[j] = 0xff
			}
		case "otherkey":
			if auth {
				wire, _, _ = as.AuthEncapsulateDeterministically(pkO, skO, eseed)
			} else {
				wire, _, _ = s.EncapsulateDeterministically(pkO, eseed)
			}
		case "trunc":
			wire = wire[:se.Pos%len(wire)]
		case "extend":
			wire = append(wire, byte(se.Val))
		default:
			run.Bad("fault")
			return
		}
		altered := !bytes.Equal(wire, ct)
		if se.Fault != "" && altered {
			run.Fault("transport:" + se.Fault)
		}
		var pkS kem.PublicKey
		if auth {
			pkS = skO.Public()
			_ = pkOB
		}
		wireKeep := append([]byte{}, wire...)
		r1, ok := decap(cur, wire, auth, pkS)
		if !ok {
			return
		}
		if !bytes.Equal(wire, wireKeep) {
			run.Violate(comp+".Decapsulate", "operation-modifies-its-operand", "session %d: the ciphertext buffer changed during decapsulation", i)
			return
		}
		r2, ok := decap(skDisk, append([]byte{}, wire...), auth, pkS)
		if !ok {
			return
		}
		run.Event("responder", "decapsulate", i, se.Fault, r1.ss, r1.err)
		run.T(se.Fault, fmt.Sprint(r1.err))
		if r1.err != r2.err || !bytes.Equal(r1.ss, r2.ss) {
			run.Violate(comp+".Decapsulate", "not-deterministic-across-restart", "session %d: original key: err=%v ss=%s; key restored from disk: err=%v ss=%s", i, r1.err, sh(r1.ss), r2.err, sh(r2.ss))
			return
		}
		if !altered {
			if r1.err || !bytes.Equal(r1.ss, ss) {
				run.Violate(comp+".Decapsulate", "does-not-invert-encapsulate", "session %d (auth=%v random=%v): err=%v, got %s, encapsulated %s", i, auth, se.Random, r1.err, sh(r1.ss), sh(ss))
				return
			}
			if auth {
				// a receiver that expects another sender must not derive the secret
				r3, ok := decap(cur, wire, true, pk)
				if !ok {
					return
				}
				if !r3.err && bytes.Equal(r3.ss, ss) {
					run.Violate(comp+".AuthDecapsulate", "wrong-sender-accepted", "session %d: the secret is derived although pkS differs", i)
					return
				}
			}
			continue
		}
		sameLen := len(wire) == len(ct)
		if r1.err && len(r1.ss) != 0 {
			run.Violate(comp+".Decapsulate", "secret-returned-with-error", "session %d: error together with %d bytes", i, len(r1.ss))
			return
		}
		if !r1.err && bytes.Equal(r1.ss, ss) {
			if sameLen && exempt(p.Scheme, ct, wire) {
				run.Probe("exempt-masked-or-noncanonical-x-share")
			} else {
				run.Violate(comp+".Decapsulate", "tampered-ciphertext-yields-honest-secret", "session %d: fault %s (pos %d): altered ciphertext decapsulates to the encapsulated secret", i, se.Fault, se.Pos)
				return
			}
		}
		if sameLen && implicitRejection(p.Scheme) {
			run.Probe("implicit-rejection-path-taken")
			if r1.err {
				run.Violate(comp+".Decapsulate", "explicit-error-instead-of-implicit-rejection", "session %d: an altered ciphertext of the right length returned an error", i)
				return
			}
			// depends on the altered ciphertext
			if prevAlt != nil && !bytes.Equal(prevAltCT, wire) && bytes.Equal(prevAlt.ss, r1.ss) {
				run.Violate(comp+".Decapsulate", "rejection-secret-independent-of-ciphertext", "sessions with different altered ciphertexts produced the same secret %s", sh(r1.ss))
				return
			}
			rr := r1
			prevAlt, prevAltCT = &rr, append([]byte{}, wire...)
			// depends on the private key: same key with another rejection value (z: the last 32
			// bytes of the encoded key in ML-KEM / Kyber; s: the first 16 bytes in FrodoKEM-640)
			if zpos := rejectionValuePos(p.Scheme, len(skB)); zpos >= 0 {
				zb := append([]byte{}, skB...)
				zb[zpos] ^= 1
				skz, err := s.UnmarshalBinaryPrivateKey(zb)
				if err == nil {
					rz, ok := decap(skz, wire, false, nil)
					if !ok {
						return
					}
					if !rz.err && bytes.Equal(rz.ss, r1.ss) {
						run.Violate(comp+".Decapsulate", "rejection-secret-independent-of-private-key", "changing z does not change the secret of a rejected ciphertext")
						return
					}
					rh, ok := decap(skz, ct, false, nil)
					if !ok {
						return
					}
					if rh.err || !bytes.Equal(rh.ss, ss) {
						run.Violate(comp+".Decapsulate", "honest-secret-depends-on-z", "changing z changed the secret of an honest ciphertext")
						return
					}
					run.Probe("z-dependence-checked")
				}
			}
		}
	}
}

// rejectionValuePos: a byte of the encoded private key that belongs to the
// implicit-rejection value only (so altering it leaves every honest secret unchanged).
func rejectionValuePos(scheme string, skLen int) int {
	switch {
	case strings.Contains(scheme, "-X") || strings.HasPrefix(scheme, "X") || strings.HasPrefix(scheme, "P256") || strings.HasPrefix(scheme, "HPKE"):
		return -1 // hybrids: which half was altered decides whether the value is used
	case strings.HasPrefix(scheme, "ML-KEM"), strings.HasPrefix(scheme, "Kyber"):
		return skLen - 1
	case strings.HasPrefix(scheme, "FrodoKEM"):
		return 0
	}
	return -1
}

func sh(b []byte) string {
	if len(b) > 40 {
		return fmt.Sprintf("%x…(%d bytes)", b[:40], len(b))
	}
	return fmt.Sprintf("%x", b)
}

// scribble overwrites a buffer the library was handed and has returned from:
// a decoder must not retain its input (encoding.BinaryUnmarshaler contract).
func scribble(b []byte) {
	for i := range b {
		b[i] = ^b[i] ^ byte(i*29)
	}
}

func main() {
	core.Main(&core.Property{
		ID:    "C01",
		Level: "exploration",
		Rule: "seeded plans: scheme out of kem/schemes.All() + hpke X25519Kyber768Draft00 + hpke X-Wing (FrodoKEM/P-521 down-weighted) x key seed x 1..8 sessions {encapsulation seed or entropy device with short reads, optional DHKEM auth mode, responder restart from its marshalled key, transport fault: single-bit flip (incl. masked/sign bits of X shares), multi-byte edit, all-zero, all-0xFF, ciphertext for another key, truncation, extension}; directed: every scheme x boundary-bit flips, zeros, ones, other key; " +
			"non-trivial = a transport/disk/entropy fault fired; distinct = distinct abstract trace (scheme, fault kinds, outcomes)",
		Assumptions: []string{
			"inequality of pseudorandom secrets is asserted (failure probability 2^-128 or less)",
			"the exemption for raw X25519/X448 shares is computed from the TLS drafts' share layout and big-integer reduction of u, not from the implementation",
			"hpke X25519Kyber768Draft00 Encapsulate (documented 'not implemented' panic) is not driven through the entropy device",
		},
		Components: map[string]string{
			"every kem.Scheme (derive, encapsulate, decapsulate, marshal, unmarshal)": "real",
			"transport of public keys and ciphertexts":                                "stub: simulated transport with corruption and misdelivery",
			"responder key storage":                                                   "stub: simulated disk (marshalled key, restart)",
			"crypto/rand.Reader":                                                      "stub: deterministic entropy device with short reads",
		},
		ProbeNames: []string{"exempt-masked-or-noncanonical-x-share", "implicit-rejection-path-taken", "z-dependence-checked"},
		Directed:   directed,
		Gen:        gen,
		Exec:       exec,
		Runs:       map[string]int{"quick": 9000, "thorough": 400000},
		WallCap:    map[string]time.Duration{"quick": 100 * time.Second, "thorough": 14 * time.Minute},
	})
}
