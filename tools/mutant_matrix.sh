#!/bin/bash
# usage: tools/mutant_matrix.sh [check-override]  — runs every seeded change under /verif/seeded against the
# quick check of the property it was written for, in a scratch worktree of /repo (the working tree of /repo and
# /verif/evidence are not touched). Writes /verif/seeded/RESULTS.md.
set -u
V=/verif
OUT=/var/tmp/mm.$$; mkdir -p "$OUT"
RES="$V/seeded/RESULTS.md"
echo "| seeded change | property | check run | result | first violation reported |" > "$RES.tmp"
echo "|---|---|---|---|---|" >> "$RES.tmp"
for d in $V/seeded/*/; do
  n=$(basename "$d"); id=${n%%-*}
  [ -f "$d/patch.diff" ] || continue
  checks="$id"
  [ -f "$d/also_checks" ] && checks="$checks $(cat $d/also_checks)"
  for c in $checks; do
    WT=/tmp/mm.$n; rm -rf "$WT"; git -C /repo worktree prune
    git -C /repo worktree add -q --detach "$WT" HEAD || continue
    if ! git -C "$WT" apply "$d/patch.diff" 2>/dev/null && ! git -C "$WT" apply --3way "$d/patch.diff" 2>/dev/null; then
      echo "| $n | $id | $c | patch no longer applies | |" >> "$RES.tmp"
      git -C /repo worktree remove --force "$WT"; continue
    fi
    mkdir -p "$OUT/$n"
    VERIF_REPO="$WT" VERIF_OUT_DIR="$OUT/$n" "$V/bin/check" "$c" quick > "$OUT/$n/$c.log" 2>&1; rc=$?
    first=$(grep -m1 "^\[$id\].* — \|^\[C[0-9]*\] C[0-9]*|" "$OUT/$n/$c.log" | sed 's/|/\\|/g' | cut -c1-220)
    case $rc in 0) r="MISSED";; 1) r="caught";; *) r="harness trouble ($rc)";; esac
    echo "| $n | $id | $c | $r | $first |" >> "$RES.tmp"
    git -C /repo worktree remove --force "$WT"
  done
done
mv "$RES.tmp" "$RES"; rm -rf "$OUT"
cat "$RES"
