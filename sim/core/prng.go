// Package core is the shared heart of circlsim: one integer (VERIF_SEED)
// decides every plan; plans are explicit JSON; execution never draws randomness.
package core

import (
	"encoding/binary"
	"encoding/hex"
)

// SplitMix64 step, used for seeding and for deriving sub-seeds.
func splitmix(x *uint64) uint64 {
	*x += 0x9e3779b97f4a7c15
	z := *x
	z = (z ^ (z >> 30)) * 0xbf58476d1ce4e5b9
	z = (z ^ (z >> 27)) * 0x94d049bb133111eb
	return z ^ (z >> 31)
}

// PRNG is xoshiro256**. Own implementation so that the stream never depends on
// the toolchain's math/rand.
type PRNG struct{ s [4]uint64 }

func NewPRNG(seed uint64) *PRNG {
	p := &PRNG{}
	x := seed
	for i := range p.s {
		p.s[i] = splitmix(&x)
	}
	return p
}

// SubSeed derives the seed of run `run` of property `prop` under master seed.
func SubSeed(master uint64, prop string, run uint64) uint64 {
	x := master
	h := splitmix(&x)
	for _, c := range []byte(prop) {
		x ^= uint64(c)
		h ^= splitmix(&x)
	}
	x ^= run * 0xd6e8feb86659fd93
	h ^= splitmix(&x)
	x ^= h
	return splitmix(&x)
}

func rotl(x uint64, k uint) uint64 { return (x << k) | (x >> (64 - k)) }

func (p *PRNG) Uint64() uint64 {
	s := &p.s
	r := rotl(s[1]*5, 7) * 9
	t := s[1] << 17
	s[2] ^= s[0]
	s[3] ^= s[1]
	s[1] ^= s[2]
	s[0] ^= s[3]
	s[2] ^= t
	s[3] = rotl(s[3], 45)
	return r
}

// Intn returns a value in [0,n). n<=0 returns 0.
func (p *PRNG) Intn(n int) int {
	if n <= 1 {
		return 0
	}
	return int(p.Uint64() % uint64(n))
}

// Range returns a value in [lo,hi].
func (p *PRNG) Range(lo, hi int) int {
	if hi <= lo {
		return lo
	}
	return lo + p.Intn(hi-lo+1)
}

func (p *PRNG) Bool() bool { return p.Uint64()&1 == 1 }

// Chance is true with probability num/den.
func (p *PRNG) Chance(num, den int) bool { return p.Intn(den) < num }

func (p *PRNG) Bytes(n int) []byte {
	b := make([]byte, n)
	p.Fill(b)
	return b
}

func (p *PRNG) Fill(b []byte) {
	i := 0
	for ; i+8 <= len(b); i += 8 {
		binary.LittleEndian.PutUint64(b[i:], p.Uint64())
	}
	if i < len(b) {
		var t [8]byte
		binary.LittleEndian.PutUint64(t[:], p.Uint64())
		copy(b[i:], t[:])
	}
}

func (p *PRNG) Hex(n int) string { return hex.EncodeToString(p.Bytes(n)) }

// Pick returns one of the weights' indices with probability proportional to it.
func (p *PRNG) Pick(weights ...int) int {
	t := 0
	for _, w := range weights {
		t += w
	}
	if t <= 0 {
		return 0
	}
	r := p.Intn(t)
	for i, w := range weights {
		if r < w {
			return i
		}
		r -= w
	}
	return len(weights) - 1
}

// PickStr picks uniformly from a list.
func (p *PRNG) PickStr(l []string) string { return l[p.Intn(len(l))] }

// Perm returns a seeded permutation of 0..n-1.
func (p *PRNG) Perm(n int) []int {
	a := make([]int, n)
	for i := range a {
		a[i] = i
	}
	for i := n - 1; i > 0; i-- {
		j := p.Intn(i + 1)
		a[i], a[j] = a[j], a[i]
	}
	return a
}

// EdgeLen picks a length biased to the interesting lengths given.
func (p *PRNG) EdgeLen(max int, edges ...int) int {
	if len(edges) > 0 && p.Chance(2, 3) {
		e := edges[p.Intn(len(edges))] + p.Range(-1, 1)
		if e < 0 {
			e = 0
		}
		if e > max {
			e = max
		}
		return e
	}
	return p.Intn(max + 1)
}

// Stream is the deterministic entropy device handed to the library: a keyed
// xoshiro stream with optional faults (short reads, error after k bytes).
// One-byte reads are served from a side stream so that the coin flipped by
// crypto/internal/randutil.MaybeReadByte cannot shift the main stream.
type Stream struct {
	main, side *PRNG
	buf        []byte
	// faults
	MaxChunk  int   // >0: each Read returns at most MaxChunk bytes (short reads)
	FailAfter int   // >=0: return Err once that many bytes were served; -1 = never
	Err       error // error to return
	Fill      int   // 0 normal; 1 all-zero output; 2 all-0xFF output
	Served    int
	Calls     int
	ShortHits int
	ErrHits   int
	// RewindAt > 0: once that many bytes were served the device starts over from its first
	// byte (a virtual machine resumed from a snapshot, a forked process: the generator state
	// is duplicated); it happens once
	RewindAt   int
	RewindHits int
	key        uint64
}

func NewStream(key uint64) *Stream {
	return &Stream{main: NewPRNG(key), side: NewPRNG(key ^ 0xa5a5a5a5a5a5a5a5), FailAfter: -1, key: key}
}

func (s *Stream) Read(b []byte) (int, error) {
	s.Calls++
	if len(b) == 0 {
		return 0, nil
	}
	if len(b) == 1 && s.FailAfter < 0 && s.MaxChunk == 0 {
		s.side.Fill(b)
		return 1, nil
	}
	if s.RewindAt > 0 && s.RewindHits == 0 && s.Served >= s.RewindAt {
		s.main, s.buf = NewPRNG(s.key), nil
		s.RewindHits++
	}
	n := len(b)
	if s.FailAfter >= 0 {
		left := s.FailAfter - s.Served
		if left <= 0 {
			s.ErrHits++
			return 0, s.Err
		}
		if n > left {
			n = left
		}
	}
	if s.MaxChunk > 0 && n > s.MaxChunk {
		n = s.MaxChunk
		s.ShortHits++
	}
	switch s.Fill {
	case 1:
		for i := 0; i < n; i++ {
			b[i] = 0
		}
	case 2:
		for i := 0; i < n; i++ {
			b[i] = 0xff
		}
	default:
		// byte-exact contiguous stream, independent of how reads are chunked
		for i := 0; i < n; i++ {
			if len(s.buf) == 0 {
				s.buf = s.main.Bytes(8)
			}
			b[i] = s.buf[0]
			s.buf = s.buf[1:]
		}
	}
	s.Served += n
	return n, nil
}
