module circlsim

go 1.22.0

require (
	github.com/cloudflare/circl v0.0.0
	golang.org/x/crypto v0.11.1-0.20230711161743-2e82bdd1719d
	golang.org/x/sys v0.10.0
)

require github.com/bwesterb/go-ristretto v1.2.3 // indirect

replace github.com/cloudflare/circl => /repo
