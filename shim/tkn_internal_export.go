//go:build verif

package tkn

import (
	"crypto/subtle"
	"fmt"

	pairing "github.com/cloudflare/circl/ecc/bls12381"
	"golang.org/x/crypto/blake2b"
)

// Adversarial key holder for the simulator (C20). Mapped into
// abe/cpabe/tkn20/internal/tkn by go build -overlay; never committed to /repo.
//
// A holder who does not follow the protocol is not bound by the satisfaction check in
// decapsulate: it can combine the ciphertext components of whatever input wires its key
// matches. VerifDecryptWeakened does what DecryptCCA does, with the package's own parsing,
// decapsulation, envelope and MAC routines, except that the gates selected by orMask (bit i =
// gate i of the Boneh-Katz transformed formula) are treated as OR gates when the wires to
// combine are chosen. ok reports that the seed found in the envelope expands to the identity
// and the MAC of the ciphertext, i.e. that msg is the sender's message.
func VerifDecryptWeakened(ciphertext []byte, key *AttributesKey, orMask uint64) (msg []byte, ok bool, err error) {
	rest, removeLenPrefixedVar := checkCiphertextFormat(ciphertext)
	id, rest, err := removeLenPrefixed(rest)
	if err != nil {
		return nil, false, err
	}
	macData, rest, err := removeLenPrefixedVar(rest)
	if err != nil {
		return nil, false, err
	}
	tag, _, err := removeLenPrefixed(rest)
	if err != nil {
		return nil, false, err
	}
	C1, envRaw, err := removeLenPrefixedVar(macData)
	if err != nil {
		return nil, false, err
	}
	env, _, err := removeLenPrefixedVar(envRaw)
	if err != nil {
		return nil, false, err
	}
	header := &ciphertextHeader{}
	if err = header.unmarshalBinary(C1); err != nil {
		return nil, false, err
	}
	numid := &pairing.Scalar{}
	numid.SetBytes(id)
	header.p = header.p.transformBK(numid)
	for i := range header.p.F.Gates {
		if i < 64 && orMask>>uint(i)&1 == 1 {
			header.p.F.Gates[i].Class = Orgate
		}
	}
	encPoint, err := decapsulate(header, key)
	if err != nil {
		return nil, false, fmt.Errorf("error in decryption: %w", err)
	}
	encKey, err := encPoint.MarshalBinary()
	if err != nil {
		return nil, false, err
	}
	hashedEncKey := blake2b.Sum256(encKey)
	decEnv, err := blakeDecrypt(hashedEncKey[:], env)
	if err != nil {
		return nil, false, err
	}
	if len(decEnv) < macKeySeedSize {
		return nil, false, fmt.Errorf("envelope too short")
	}
	compID, macKey, err := expandSeed(decEnv[0:macKeySeedSize])
	if err != nil {
		return nil, false, err
	}
	compTag, err := blakeMac(macKey, macData)
	if err != nil {
		return nil, false, err
	}
	ok = subtle.ConstantTimeCompare(compTag, tag)&subtle.ConstantTimeCompare(compID, id) == 1
	return append([]byte{}, decEnv[macKeySeedSize:]...), ok, nil
}

// VerifGateCount returns the number of gates of the transformed formula of a ciphertext.
func VerifGateCount(ciphertext []byte) int {
	rest, removeLenPrefixedVar := checkCiphertextFormat(ciphertext)
	_, rest, err := removeLenPrefixed(rest)
	if err != nil {
		return 0
	}
	macData, _, err := removeLenPrefixedVar(rest)
	if err != nil {
		return 0
	}
	C1, _, err := removeLenPrefixedVar(macData)
	if err != nil {
		return 0
	}
	header := &ciphertextHeader{}
	if header.unmarshalBinary(C1) != nil {
		return 0
	}
	return len(header.p.F.Gates) + 1
}
