#!/bin/bash
# usage: tools/confirm_mut.sh <ID> <mN> <pkgdir> <TestRunRegexp> [extra test pkgs...]
# Confirms, in a scratch worktree of /repo HEAD, that a seeded change (a) applies and builds,
# (b) passes the existing tests of the touched package(s) (+ extra), (c) its demonstration fails with the
# change and passes without it. On success stores it under /verif/seeded/<ID>-<mN>/.
set -u
export GOFLAGS=-mod=mod GOPROXY=off GOSUMDB=off GOTOOLCHAIN=local
ID="$1"; M="$2"; PKG="$3"; RUN="$4"; shift 4
OUT=${OUTDIR:-/tmp/mut/$ID.out}
STORE=${STORE_AS:-$M}
WT=/tmp/mut/confirm.$ID.$STORE
rm -rf "$WT"; git -C /repo worktree prune; git -C /repo worktree add -q --detach "$WT" HEAD || exit 2
cleanup() { git -C /repo worktree remove --force "$WT" 2>/dev/null; rm -rf "$WT"; }
trap cleanup EXIT
cd "$WT"
DEMO=$(ls $OUT/${M}_demo*_test.go 2>/dev/null | head -1)
[ -n "$DEMO" ] || { echo "no demo"; exit 2; }
cp "$DEMO" "$PKG/zz_${M}_demo_test.go"
env ${DEMO_ENV:-} go test ${DEMO_FLAGS:-} -count=1 -run "$RUN" "./$PKG" > /tmp/confirm.$$.a 2>&1; a=$?
git apply "$OUT/$M.diff" || git apply --3way "$OUT/$M.diff" || { echo "does not apply"; exit 2; }
go build ./... || { echo "does not build"; exit 2; }
env ${DEMO_ENV:-} go test ${DEMO_FLAGS:-} -count=1 -run "$RUN" "./$PKG" > /tmp/confirm.$$.b 2>&1; b=$?
rm "$PKG/zz_${M}_demo_test.go"
TOUCHED=$(git diff --name-only | xargs -n1 dirname | sort -u | sed 's|^|./|')
go test -count=1 $TOUCHED "$@" > /tmp/confirm.$$.c 2>&1; c=$?
# hpke TestVectors fails on the pinned tree already (emptied fixture): tolerate exactly that
if [ $c -ne 0 ] && ! grep -E "^--- FAIL" /tmp/confirm.$$.c | grep -v "TestVectors " >/dev/null; then c=0; fi
echo "demo-without=$a (want 0) demo-with=$b (want !=0) existing-tests-with=$c (want 0)"
if [ $a -eq 0 ] && [ $b -ne 0 ] && [ $c -eq 0 ]; then
  D=/verif/seeded/$ID-$STORE; mkdir -p "$D"; cp "$OUT/notes.md" "$D/agent_notes.md" 2>/dev/null
  git add -N . 2>/dev/null; git diff > "$D/patch.diff"; cp "$DEMO" "$D/$(basename $DEMO)"
  python3 - "$D" "$ID" "$STORE" "$PKG" "$RUN" "$TOUCHED $*" "$OUT" <<'PY'
import json,sys,re,os
d,i,m,pkg,run,tested,out=sys.argv[1:8]
notes=open(f'{out}/notes.md').read() if os.path.exists(f'{out}/notes.md') else ''
json.dump({"property":i,"mutant":m,"origin":"independent sub-agent given only the property text and a scratch worktree",
 "demo":{"copy_into":pkg,"run":f"go test -count=1 -run '{run}' ./{pkg}"},
 "confirmed":{"demo_passes_without_change":True,"demo_fails_with_change":True,"existing_tests_pass_with_change":tested.split()},
 "needs_to_manifest":"see notes.md excerpt","notes_excerpt":notes[:6000]}, open(d+'/meta.json','w'), indent=1)
PY
  echo "stored $D"
else
  tail -n 5 /tmp/confirm.$$.a /tmp/confirm.$$.b; grep -E "^(--- FAIL|FAIL|ok)" /tmp/confirm.$$.c | head
fi
rm -f /tmp/confirm.$$.*
