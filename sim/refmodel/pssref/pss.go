// Package pssref is a reference model of RSASSA-PSS verification (RFC 8017
// sections 8.1.2 and 9.1.2) that works with public exponents of any size (the
// partially blind RSA variant derives exponents that do not fit crypto/rsa's
// int). It is pinned to crypto/rsa at start-up.
package pssref

import (
	"bytes"
	"crypto"
	"crypto/rsa"
	"errors"
	"fmt"
	"hash"
	"math/big"

	"circlsim/core"
)

func mgf1(h func() hash.Hash, seed []byte, n int) []byte {
	var out []byte
	for c := uint32(0); len(out) < n; c++ {
		x := h()
		x.Write(seed)
		x.Write([]byte{byte(c >> 24), byte(c >> 16), byte(c >> 8), byte(c)})
		out = x.Sum(out)
	}
	return out[:n]
}

var ErrVerify = errors.New("pssref: invalid signature")

// EMSAVerify implements EMSA-PSS-VERIFY on the message hash mHash.
func EMSAVerify(h crypto.Hash, mHash, em []byte, emBits, sLen int) error {
	hLen := h.Size()
	emLen := (emBits + 7) / 8
	if len(em) != emLen || emLen < hLen+sLen+2 {
		return ErrVerify
	}
	if em[emLen-1] != 0xbc {
		return ErrVerify
	}
	db, H := em[:emLen-hLen-1], em[emLen-hLen-1:emLen-1]
	topBits := 8*emLen - emBits
	if topBits > 0 && db[0]>>(8-topBits) != 0 {
		return ErrVerify
	}
	mask := mgf1(h.New, H, len(db))
	d := make([]byte, len(db))
	for i := range d {
		d[i] = db[i] ^ mask[i]
	}
	if topBits > 0 {
		d[0] &= 0xff >> topBits
	}
	ps := emLen - hLen - sLen - 2
	for i := 0; i < ps; i++ {
		if d[i] != 0 {
			return ErrVerify
		}
	}
	if d[ps] != 0x01 {
		return ErrVerify
	}
	salt := d[len(d)-sLen:]
	x := h.New()
	x.Write(make([]byte, 8))
	x.Write(mHash)
	x.Write(salt)
	if !bytes.Equal(x.Sum(nil), H) {
		return ErrVerify
	}
	return nil
}

// Verify implements RSASSA-PSS-VERIFY for modulus n and (big) public exponent e.
func Verify(n, e *big.Int, h crypto.Hash, msg, sig []byte, sLen int) error {
	k := (n.BitLen() + 7) / 8
	if len(sig) != k {
		return ErrVerify
	}
	s := new(big.Int).SetBytes(sig)
	if s.Cmp(n) >= 0 {
		return ErrVerify
	}
	m := new(big.Int).Exp(s, e, n)
	emBits := n.BitLen() - 1
	emLen := (emBits + 7) / 8
	if m.BitLen() > emLen*8 {
		return ErrVerify
	}
	em := m.FillBytes(make([]byte, emLen))
	x := h.New()
	x.Write(msg)
	return EMSAVerify(h, x.Sum(nil), em, emBits, sLen)
}

// Selftest pins the model to crypto/rsa with the given keys (incl. 8k+1-bit moduli).
func Selftest(keys []*rsa.PrivateKey) error {
	for i, k := range keys {
		for _, sl := range []int{0, 20, 48} {
			msg := []byte(fmt.Sprintf("pssref selftest %d %d", i, sl))
			d := crypto.SHA384.New()
			d.Write(msg)
			dig := d.Sum(nil)
			opts := &rsa.PSSOptions{SaltLength: sl, Hash: crypto.SHA384}
			if sl == 0 {
				opts.SaltLength = rsa.PSSSaltLengthEqualsHash
				sl = 48
			}
			sig, err := rsa.SignPSS(core.NewStream(uint64(i)), k, crypto.SHA384, dig, opts)
			if err != nil {
				return err
			}
			e := big.NewInt(int64(k.E))
			if err := Verify(k.N, e, crypto.SHA384, msg, sig, sl); err != nil {
				return fmt.Errorf("pssref: rejects a crypto/rsa signature (key %d bits, salt %d)", k.N.BitLen(), sl)
			}
			for _, bit := range []int{0, 7, len(sig)*8 - 1, len(sig) * 4} {
				bad := append([]byte{}, sig...)
				bad[bit/8] ^= 1 << (bit % 8)
				if Verify(k.N, e, crypto.SHA384, msg, bad, sl) == nil {
					return fmt.Errorf("pssref: accepts a corrupted signature")
				}
			}
			if Verify(k.N, e, crypto.SHA384, append(msg, 1), sig, sl) == nil || Verify(k.N, e, crypto.SHA384, msg, sig, sl+1) == nil {
				return fmt.Errorf("pssref: accepts wrong message / salt length")
			}
		}
	}
	return nil
}

// Encode builds an EMSA-PSS encoded message for mHash with the given salt. junk != 0
// replaces the last padding octet in front of the 0x01 delimiter (an encoding that
// EMSA-PSS-VERIFY step 10 must refuse); junk == 0 gives the regular encoding.
// Returns nil if the encoding does not fit.
func Encode(h crypto.Hash, mHash, salt []byte, emBits int, junk byte) []byte {
	hLen := h.Size()
	emLen := (emBits + 7) / 8
	ps := emLen - hLen - len(salt) - 2
	if ps < 0 || (junk != 0 && ps < 2) {
		return nil
	}
	x := h.New()
	x.Write(make([]byte, 8))
	x.Write(mHash)
	x.Write(salt)
	H := x.Sum(nil)
	db := make([]byte, emLen-hLen-1)
	if junk != 0 {
		db[ps-1] = junk
	}
	db[ps] = 0x01
	copy(db[ps+1:], salt)
	mask := mgf1(h.New, H, len(db))
	for i := range db {
		db[i] ^= mask[i]
	}
	if topBits := 8*emLen - emBits; topBits > 0 {
		db[0] &= 0xff >> topBits
	}
	return append(append(db, H...), 0xbc)
}
