// C17 — threshold schemes: every qualified share set works, no unqualified one
// does. netsim: a dealer, n share holders / l players and a combiner. Crash
// faults choose which holders answer; the transport shuffles, duplicates and
// corrupts shares; holders restart from their marshalled share. Judged against
// the secret itself, the dealer's commitment, and crypto/rsa verification.
package main

import (
	"bytes"
	"crypto"
	"crypto/rand"
	"crypto/rsa"
	"crypto/sha256"
	"encoding/json"
	"fmt"
	"math/big"
	"time"

	"circlsim/core"
	"circlsim/fixtures"

	"github.com/cloudflare/circl/group"
	cmath "github.com/cloudflare/circl/math"
	"github.com/cloudflare/circl/secretsharing"
	tssrsa "github.com/cloudflare/circl/tss/rsa"
)

type Plan struct {
	Kind string `json:"kind"` // ss | rsa | genkey
	// key generation (tss/rsa.GenerateKey over the entropy device)
	Bits   int    `json:"bits,omitempty"`
	EFault string `json:"efault,omitempty"` // "" | short | rewind (the device starts over right after the first prime was drawn)
	Seed uint64 `json:"seed"`
	// secret sharing
	Group  string `json:"group,omitempty"`
	T      int    `json:"t"`
	N      int    `json:"n"`
	IDs    string `json:"ids,omitempty"`    // seq | rand
	Secret string `json:"secret,omitempty"` // "rand" | zero | one | minus1
	// threshold RSA
	Key      string `json:"key,omitempty"`
	SmallE   int    `json:"small_e,omitempty"` // the key's public exponent is replaced by this small one (3, 5, 7, 17, 257)
	Cache    bool   `json:"cache,omitempty"`
	Resign   bool   `json:"resign,omitempty"` // every player already signed an earlier message with the same share object
	Rotate   bool   `json:"rotate,omitempty"` // restarting players load the new share into the object that held the previous deal's share
	Blind    bool   `json:"blind,omitempty"`
	Parallel bool   `json:"parallel,omitempty"`
	PSS      bool   `json:"pss,omitempty"`
	// which holders are alive, in arrival order (may contain duplicates = duplicated delivery)
	Arrive  []int  `json:"arrive"`
	Restart []int  `json:"restart,omitempty"` // holders that restart from their marshalled share first
	Corrupt int    `json:"corrupt,omitempty"` // 1-based holder whose share is corrupted in flight (0 = none)
	CField  string `json:"cfield,omitempty"`  // value | id
	CBit    int    `json:"cbit,omitempty"`
}

var groups = map[string]group.Group{"P256": group.P256, "P384": group.P384, "P521": group.P521, "ristretto255": group.Ristretto255}
var groupNames = []string{"P256", "P384", "P521", "ristretto255"}

func subsetPlan(r *core.PRNG, n, need int) []int {
	// crash faults choose the alive set; bias its size around the threshold
	size := 0
	switch r.Pick(30, 25, 15, 20, 10) {
	case 0:
		size = need
	case 1:
		size = need + 1
	case 2:
		size = need - 1
	case 3:
		size = r.Range(0, n)
	case 4:
		size = n
	}
	if size < 0 {
		size = 0
	}
	if size > n {
		size = n
	}
	perm := r.Perm(n)
	out := []int{}
	for _, i := range perm[:size] {
		out = append(out, i+1)
	}
	if len(out) > 0 && r.Chance(1, 4) { // duplicated delivery
		out = append(out, out[r.Intn(len(out))])
		j := r.Intn(len(out))
		out[j], out[len(out)-1] = out[len(out)-1], out[j]
	}
	return out
}

func gen(r *core.PRNG, tier string) any {
	p := &Plan{Seed: r.Uint64()}
	if r.Chance(1, 25) {
		p.Kind = "genkey"
		p.Bits = []int{64, 96, 128, 128, 160}[r.Intn(5)]
		p.EFault = []string{"", "short", "rewind", "rewind"}[r.Intn(4)]
		return p
	}
	if r.Chance(3, 5) {
		p.Kind = "ss"
		p.Group = groupNames[r.Pick(10, 4, 2, 10)]
		p.N = r.Range(1, 12)
		p.T = r.Intn(p.N)
		p.IDs = []string{"seq", "rand", "scratch", "wire"}[r.Intn(4)]
		p.Secret = []string{"rand", "rand", "zero", "one", "minus1"}[r.Intn(5)]
		p.Arrive = subsetPlan(r, p.N, p.T+1)
		if r.Chance(1, 12) {
			p.EFault = "stuck"
		}
	} else {
		p.Kind = "rsa"
		names := fixtures.RSANames()
		p.Key = names[r.Intn(len(names))]
		if r.Chance(2, 3) {
			p.Key = []string{"std-1024-a", "std-1024-b", "std-1025-a", "safe-1024-a"}[r.Intn(4)]
		}
		p.N = r.Range(2, 8)
		if r.Chance(1, 6) {
			p.N = r.Range(9, 30)
		}
		p.T = r.Range(1, p.N) // threshold k
		p.Cache, p.Blind, p.Parallel, p.PSS = r.Bool(), r.Chance(1, 3), r.Bool(), r.Bool()
		p.Arrive = subsetPlan(r, p.N, p.T)
		p.Rotate = r.Chance(1, 3)
		p.Resign = r.Chance(1, 3)
		if r.Chance(1, 8) {
			p.Key = "safe-1024-a"
			p.SmallE = []int{3, 5, 7, 17, 257}[r.Intn(5)]
		}
	}
	for _, a := range p.Arrive {
		if r.Chance(1, 5) {
			p.Restart = append(p.Restart, a)
		}
	}
	if r.Chance(1, 4) && len(p.Arrive) > 0 {
		p.Corrupt = p.Arrive[r.Intn(len(p.Arrive))]
		p.CField = []string{"value", "id"}[r.Intn(2)]
		p.CBit = r.Intn(1 << 12)
	}
	return p
}

// directed (thorough: all subsets for small l): every subset of every (l,k) with l <= 5,
// each in increasing and in one rotated order.
func directed(tier string) []any {
	var out []any
	maxL := 4
	if tier == "thorough" {
		maxL = 6
	}
	for l := 2; l <= maxL; l++ {
		for k := 1; k <= l; k++ {
			for mask := 1; mask < 1<<l; mask++ {
				var s []int
				for i := 0; i < l; i++ {
					if mask>>i&1 == 1 {
						s = append(s, i+1)
					}
				}
				if len(s) < k-1 {
					continue
				}
				rot := append(append([]int{}, s[len(s)/2:]...), s[:len(s)/2]...)
				out = append(out, &Plan{Kind: "rsa", Seed: uint64(mask), Key: "std-1024-a", N: l, T: k, PSS: mask%2 == 0, Cache: mask%3 == 0, Arrive: rot})
				if l <= 5 {
					out = append(out, &Plan{Kind: "ss", Seed: uint64(mask), Group: "ristretto255", N: l, T: k - 1, IDs: "seq", Secret: "rand", Arrive: rot})
				}
			}
		}
	}
	return out
}

func dedupe(a []int) []int {
	seen := map[int]bool{}
	var out []int
	for _, x := range a {
		if !seen[x] {
			seen[x] = true
			out = append(out, x)
		}
	}
	return out
}

func execSS(p *Plan, run *core.Run) {
	g := groups[p.Group]
	if g == nil || p.N < 1 || p.N > 40 || p.T < 0 || p.T >= p.N {
		run.Bad("params")
		return
	}
	comp := "secretsharing[" + p.Group + "]"
	ent := core.NewStream(p.Seed)
	// group.Ristretto255 ignores the reader it is given and draws from crypto/rand.Reader
	// (reported under C11); route that through the entropy device as well
	rr := core.NewStream(p.Seed + 9)
	rand.Reader = rr
	if p.EFault == "stuck" {
		// the dealer's entropy device is stuck at zero: the polynomial it draws has zero
		// coefficients (worthless for secrecy; the arithmetic must still be consistent)
		ent.Fill, rr.Fill = 1, 1
		run.Fault("entropy:device-stuck-at-zero")
	}
	var secret group.Scalar
	switch p.Secret {
	case "zero":
		secret = g.NewScalar()
	case "one":
		secret = g.NewScalar().SetUint64(1)
	case "minus1":
		secret = g.NewScalar().Neg(g.NewScalar().SetUint64(1))
	default:
		secret = g.RandomScalar(core.NewStream(p.Seed + 1))
	}
	want, _ := secret.MarshalBinary()
	ss := secretsharing.New(ent, uint(p.T), secret)
	if p.Seed%2 == 0 {
		// the dealer's scalar object is the dealer's: it is wiped (or holds the next secret) once New has returned
		secret.SetUint64(uint64(p.Seed%3) * 77)
		secret = g.NewScalar()
		if secret.UnmarshalBinary(want) != nil {
			panic("HARNESS: secret scalar")
		}
		run.Fault("history:secret-object-wiped-or-reused-after-New")
	}
	var shares []secretsharing.Share
	if p.IDs == "rand" {
		ids := core.NewStream(p.Seed + 2)
		for i := 0; i < p.N; i++ {
			shares = append(shares, ss.ShareWithID(g.RandomNonZeroScalar(ids)))
		}
	} else if p.IDs == "wire" {
		// identifiers come off the wire as byte strings (a joining holder names its own): among
		// them encodings of order+k, which denote the scalars k — the order itself denotes zero,
		// and order+1 the same scalar as 1. What the decoder accepts is used as it comes out.
		m1, _ := g.NewScalar().Neg(g.NewScalar().SetUint64(1)).MarshalBinary()
		little := p.Group == "ristretto255"
		toInt := func(b []byte) *big.Int {
			c := append([]byte{}, b...)
			if little {
				for i, j := 0, len(c)-1; i < j; i, j = i+1, j-1 {
					c[i], c[j] = c[j], c[i]
				}
			}
			return new(big.Int).SetBytes(c)
		}
		order := new(big.Int).Add(toInt(m1), big.NewInt(1))
		enc := func(v *big.Int) []byte {
			c := v.FillBytes(make([]byte, len(m1)))
			if little {
				for i, j := 0, len(c)-1; i < j; i, j = i+1, j-1 {
					c[i], c[j] = c[j], c[i]
				}
			}
			return c
		}
		fallback := uint64(1000)
		for i := 0; i < p.N; i++ {
			v := big.NewInt(int64(i/2 + 1)) // 1, order+1 (again 1), 2, order+2, ...
			if i%2 == 1 {
				v.Add(v, order)
			}
			if i == 0 && p.Seed%3 == 0 {
				v.Set(order) // zero, spelled as the order
			}
			id := g.NewScalar()
			var sh secretsharing.Share
			refused := v.BitLen() > 8*len(m1) || id.UnmarshalBinary(enc(v)) != nil
			if !refused {
				if pan, _, _ := core.Try(func() { sh = ss.ShareWithID(id) }); pan {
					refused = true // documented: the identifier zero is refused with a panic
				}
			}
			if refused {
				fallback++
				sh = ss.ShareWithID(g.NewScalar().SetUint64(fallback))
			}
			shares = append(shares, sh)
		}
		run.Fault("transport:identifier-encodings-at-or-above-the-order")
	} else if p.IDs == "scratch" {
		// the dealer reuses one scratch scalar for all identifiers
		id := g.NewScalar()
		for i := 0; i < p.N; i++ {
			id.SetUint64(uint64(3*i + 2))
			shares = append(shares, ss.ShareWithID(id))
		}
		run.Fault("history:identifier-scalar-reused")
	} else {
		shares = ss.Share(uint(p.N))
	}
	com := ss.CommitSecret()
	run.Event("dealer", "deal", p.T, p.N, want)
	run.T("ss", p.Group, fmt.Sprint(p.T), fmt.Sprint(p.N))
	if now, _ := secret.MarshalBinary(); string(now) != string(want) {
		run.Violate(comp+".New", "modifies-the-secret-operand", "the caller's secret changed")
		return
	}
	// no single share is the secret (t >= 1; with a device stuck at zero the polynomial is the
	// constant one and every share is the secret: that is the fault, not the library)
	if p.T >= 1 && p.EFault != "stuck" {
		for i, s := range shares {
			if vb, _ := s.Value.MarshalBinary(); string(vb) == string(want) {
				idb, _ := s.ID.MarshalBinary()
				run.Violate(comp+".ShareWithID", "share-is-the-secret", "share %d of (t=%d,n=%d), identifier %x (IsZero=%v): its value is the dealt secret", i+1, p.T, p.N, idb, s.ID.IsZero())
				return
			}
		}
	}
	// every dealt share verifies against the commitment
	for i, s := range shares {
		if !secretsharing.Verify(uint(p.T), s, com) {
			run.Violate(comp+".Verify", "rejects-dealt-share", "share %d of (t=%d,n=%d) does not verify against the dealer's commitment", i+1, p.T, p.N)
			return
		}
	}
	// holders restart from their marshalled share
	for _, h := range p.Restart {
		if h < 1 || h > p.N {
			continue
		}
		idb, _ := shares[h-1].ID.MarshalBinary()
		vb, _ := shares[h-1].Value.MarshalBinary()
		id, v := g.NewScalar(), g.NewScalar()
		if id.UnmarshalBinary(idb) != nil || v.UnmarshalBinary(vb) != nil {
			run.Violate(comp+".Share", "share-does-not-survive-marshalling", "holder %d", h)
			return
		}
		core.Recycle(idb) // the disk pages are reused once the share is loaded
		core.Recycle(vb)
		shares[h-1] = secretsharing.Share{ID: id, Value: v}
		run.Fault("disk:holder-restart")
	}
	// transport: crashes (absent holders), duplicates, order, corruption
	alive := dedupe(p.Arrive)
	if len(alive) != len(p.Arrive) {
		run.Fault("transport:duplicate-share")
	}
	if len(alive) < p.N {
		run.Fault("crash:holders-down")
	}
	var got []secretsharing.Share
	corrupted := false
	for _, h := range alive {
		if h < 1 || h > p.N {
			run.Bad("holder index")
			return
		}
		s := secretsharing.Share{ID: shares[h-1].ID.Copy(), Value: shares[h-1].Value.Copy()}
		// with t = 0 every id carries the same value; so it does when the dealer's entropy device
		// is stuck at zero (the polynomial is constant): an altered id then verifies, rightly
		if h == p.Corrupt && !(p.CField == "id" && (p.T == 0 || p.EFault == "stuck")) {
			field := s.Value
			if p.CField == "id" {
				field = s.ID
			}
			b, _ := field.MarshalBinary()
			orig := append([]byte{}, b...)
			b[p.CBit/8%len(b)] ^= 1 << (p.CBit % 8)
			nf := g.NewScalar()
			if nf.UnmarshalBinary(b) == nil {
				nb, _ := nf.MarshalBinary()
				if string(nb) != string(orig) && !nf.IsZero() {
					if p.CField == "id" {
						s.ID = nf
					} else {
						s.Value = nf
					}
					corrupted = true
					run.Fault("transport:share-" + p.CField + "-bit-flip")
					if secretsharing.Verify(uint(p.T), s, com) {
						run.Violate(comp+".Verify", "accepts-altered-share", "share %d with its %s altered still verifies", h, p.CField)
						return
					}
				}
			}
		}
		// the combiner keeps one share per identifier (Recover documents that it panics on
		// duplicated identifiers; an altered identifier can collide with a genuine one)
		dupID := false
		for _, o := range got {
			if o.ID.IsEqual(s.ID) {
				dupID = true
			}
		}
		if dupID {
			run.Fault("transport:altered-identifier-collides-and-is-dropped")
			continue
		}
		got = append(got, s)
	}
	run.Tick(len(got))
	if len(got) == p.T+1 {
		run.Probe("subset-of-exactly-t+1")
	}
	if len(got) <= p.T {
		run.Probe("unqualified-subset")
	}
	var rec group.Scalar
	var err error
	pan, v, st := core.Try(func() { rec, err = secretsharing.Recover(uint(p.T), got) })
	if pan {
		run.Violate(comp+".Recover", core.PanicClass(v), "%d shares for t=%d: %s at %s", len(got), p.T, v, st)
		return
	}
	run.Event("combiner", "recover", len(got), err)
	run.T("recover", fmt.Sprint(len(got) > p.T), fmt.Sprint(corrupted))
	if len(got) <= p.T {
		if err == nil {
			run.Violate(comp+".Recover", "recovers-from-unqualified-set", "%d shares for threshold t=%d returned a secret", len(got), p.T)
		}
		return
	}
	if corrupted {
		return // a corrupted share may or may not be among the t+1 used: nothing to assert on the value
	}
	if err != nil {
		run.Violate(comp+".Recover", "refuses-qualified-set", "%d distinct intact shares for t=%d: %v", len(got), p.T, err)
		return
	}
	rb, _ := rec.MarshalBinary()
	if string(rb) != string(want) {
		run.Violate(comp+".Recover", "wrong-secret", "holders %v of (t=%d,n=%d): recovered %x, dealt %x", alive, p.T, p.N, rb, want)
		return
	}
	// the combiner wipes the recovered secret once it has used it: the value it was handed is
	// its own, not one of the shares
	before := make([][]byte, len(got))
	for i := range got {
		before[i], _ = got[i].Value.MarshalBinary()
	}
	rec.SetUint64(0)
	run.Fault("history:recovered-secret-wiped")
	for i := range got {
		if now, _ := got[i].Value.MarshalBinary(); string(now) != string(before[i]) {
			run.Violate(comp+".Recover", "modifying-a-returned-value-changes-an-operand", "wiping the secret returned by Recover(t=%d) changed the value of share %d that went into it", p.T, i)
			return
		}
	}
	if again, err := secretsharing.Recover(uint(p.T), got); err != nil {
		run.Violate(comp+".Recover", "second-recover-fails", "%v", err)
	} else if ab, _ := again.MarshalBinary(); string(ab) != string(want) {
		run.Violate(comp+".Recover", "second-recover-differs", "recovering again from the same shares after the first result was wiped gives %x, dealt %x", ab, want)
	}
}

func execRSA(p *Plan, run *core.Run) {
	rand.Reader = core.NewStream(p.Seed + 9)
	key := fixtures.RSAKey(p.Key)
	if key == nil || p.N < 2 || p.N > 40 || p.T < 1 || p.T > p.N {
		run.Bad("params")
		return
	}
	comp := "tss/rsa"
	l, k := uint(p.N), uint(p.T)
	eShares := false // the exponent has a prime factor <= l: Shoup's scheme cannot serve such a key
	if p.SmallE != 0 {
		// "every RSA key": the same primes with a small public exponent (crypto/rsa signs and
		// verifies with such keys). The threshold scheme needs e coprime to l!; a dealer that
		// cannot serve a key has to say so, not hand out shares that never combine.
		if p.SmallE < 3 || p.SmallE > 65537 || len(key.Primes) != 2 {
			run.Bad("small e")
			return
		}
		one := big.NewInt(1)
		phi := new(big.Int).Mul(new(big.Int).Sub(key.Primes[0], one), new(big.Int).Sub(key.Primes[1], one))
		d := new(big.Int).ModInverse(big.NewInt(int64(p.SmallE)), phi)
		if d == nil {
			run.Bad("e not invertible for this key")
			return
		}
		nk := &rsa.PrivateKey{PublicKey: rsa.PublicKey{N: new(big.Int).Set(key.N), E: p.SmallE}, D: d, Primes: []*big.Int{new(big.Int).Set(key.Primes[0]), new(big.Int).Set(key.Primes[1])}}
		nk.Precompute()
		if nk.Validate() != nil {
			panic("HARNESS: small-exponent key does not validate")
		}
		key = nk
		for f := 2; f <= p.N; f++ {
			if p.SmallE%f == 0 {
				eShares = true
			}
		}
		run.Fault("keys:small-public-exponent")
	}
	shares, err := tssrsa.Deal(core.NewStream(p.Seed), l, k, key, p.Cache)
	if err != nil {
		if eShares {
			run.T("rsa", "refused-exponent")
			return // refused, as it must be
		}
		run.Violate(comp+".Deal", "error-on-valid-parameters", "l=%d k=%d key %s e=%d: %v", l, k, p.Key, key.E, err)
		return
	}
	if eShares {
		// Deal accepted a key whose exponent has a prime factor <= l. Demonstrate what that
		// means before saying anything: all l players sign, the combiner combines.
		demo := []byte("demonstration")
		dg := sha256.Sum256(demo)
		ph, perr := tssrsa.PadHash(&tssrsa.PKCS1v15Padder{}, crypto.SHA256, &key.PublicKey, demo)
		if perr != nil {
			panic("HARNESS: PadHash: " + perr.Error())
		}
		var sss []tssrsa.SignShare
		for i := range shares {
			ss, serr := shares[i].Sign(core.NewStream(p.Seed+uint64(50+i)), &key.PublicKey, ph, false)
			if serr != nil {
				run.Violate(comp+".Sign", "error", "%v", serr)
				return
			}
			sss = append(sss, ss)
		}
		sig, cerr := tssrsa.CombineSignShares(&key.PublicKey, sss, ph)
		if cerr != nil || rsa.VerifyPKCS1v15(&key.PublicKey, crypto.SHA256, dg[:], sig) != nil {
			run.Violate(comp+".Deal", "deals-a-key-whose-exponent-divides-l-factorial", "Deal(l=%d, k=%d) accepts a key with public exponent e=%d; the shares of all %d players do not combine (%v), while crypto/rsa signs and verifies with this key", l, k, key.E, l, cerr)
		}
		return
	}
	run.T("rsa", fmt.Sprint(l), fmt.Sprint(k))
	pub := &key.PublicKey
	msg := core.NewPRNG(p.Seed + 3).Bytes(40)
	var padder tssrsa.Padder = &tssrsa.PKCS1v15Padder{}
	pssOpts := &rsa.PSSOptions{SaltLength: rsa.PSSSaltLengthEqualsHash, Hash: crypto.SHA256} // the verifier's own options
	if p.PSS {
		// the padder gets options of its own: what the library does with them must not reach the verifier
		padder = &tssrsa.PSSPadder{Rand: core.NewStream(p.Seed + 4), Opts: &rsa.PSSOptions{SaltLength: rsa.PSSSaltLengthEqualsHash}}
	}
	if p.Seed%3 == 0 {
		// history: the padder object already padded a message for another hash and a larger key
		big := fixtures.RSAKey("std-2048-a")
		if _, err := tssrsa.PadHash(padder, crypto.SHA512, &big.PublicKey, []byte("an earlier signing session")); err != nil {
			run.Violate(comp+".PadHash", "error", "earlier session: %v", err)
			return
		}
		run.Fault("history:padder-object-used-before")
	}
	msgPH, err := tssrsa.PadHash(padder, crypto.SHA256, pub, msg)
	if err != nil {
		run.Violate(comp+".PadHash", "error", "%v", err)
		return
	}
	// key rotation: the players' KeyShare objects still hold the previous deal (other
	// seed, other threshold, the other cache setting) when the new shares are loaded
	var old []tssrsa.KeyShare
	if p.Rotate && len(p.Restart) > 0 {
		old, err = tssrsa.Deal(core.NewStream(p.Seed+99), l, 1+(k%l), key, !p.Cache)
		if err != nil {
			run.Violate(comp+".Deal", "error-on-valid-parameters", "l=%d k=%d key %s: %v", l, 1+(k%l), p.Key, err)
			return
		}
	}
	for _, h := range p.Restart {
		if h < 1 || h > p.N {
			continue
		}
		b, err := shares[h-1].MarshalBinary()
		if err != nil {
			run.Violate(comp+".KeyShare.MarshalBinary", "error", "%v", err)
			return
		}
		var ks tssrsa.KeyShare
		if old != nil {
			ks = old[h-1]
			run.Fault("history:keyshare-object-held-previous-deal")
		}
		if err := ks.UnmarshalBinary(b); err != nil {
			run.Violate(comp+".KeyShare.UnmarshalBinary", "rejects-own-encoding", "player %d: %v", h, err)
			return
		}
		core.Recycle(b)
		shares[h-1] = ks
		run.Fault("disk:player-restart")
	}
	alive := dedupe(p.Arrive)
	if len(alive) != len(p.Arrive) {
		run.Fault("transport:duplicate-share")
	}
	if len(alive) < p.N {
		run.Fault("crash:players-down")
	}
	var sigShares []tssrsa.SignShare
	var reusedShare tssrsa.SignShare
	for _, h := range alive {
		if h < 1 || h > p.N {
			run.Bad("player index")
			return
		}
		var rnd *core.Stream
		if p.Blind {
			rnd = core.NewStream(p.Seed + uint64(100+h))
		}
		var ss tssrsa.SignShare
		var err error
		if p.Resign {
			// an earlier signing session used the same share object (its result is discarded)
			before, _ := shares[h-1].MarshalBinary()
			var early *core.Stream
			if p.Blind {
				early = core.NewStream(p.Seed + uint64(500+h))
				_, err = shares[h-1].Sign(early, pub, msgPH, p.Parallel)
			} else {
				_, err = shares[h-1].Sign(nil, pub, msgPH, p.Parallel)
			}
			if err != nil {
				run.Violate(comp+".KeyShare.Sign", "error", "player %d (earlier session): %v", h, err)
				return
			}
			run.Fault("history:share-object-signed-before")
			if after, _ := shares[h-1].MarshalBinary(); p.Cache && !bytes.Equal(before, after) {
				run.Violate(comp+".KeyShare.Sign", "signing-changes-the-key-share", "player %d: the stored share encodes differently after one Sign (blind=%v)", h, p.Blind)
				return
			}
		}
		if rnd != nil {
			ss, err = shares[h-1].Sign(rnd, pub, msgPH, p.Parallel)
		} else {
			ss, err = shares[h-1].Sign(nil, pub, msgPH, p.Parallel)
		}
		if err != nil {
			run.Violate(comp+".KeyShare.Sign", "error", "player %d: %v", h, err)
			return
		}
		// the share crosses the transport in marshalled form
		b, err := ss.MarshalBinary()
		if err != nil {
			run.Violate(comp+".SignShare.MarshalBinary", "error", "%v", err)
			return
		}
		// the combiner decodes either into a fresh value per share or (odd seeds) through one
		// variable that it reuses, appending a copy of the value each time
		var fresh tssrsa.SignShare
		rsp := &fresh
		if p.Seed%2 == 1 {
			rsp = &reusedShare
			run.Fault("history:sign-share-variable-reused-for-decoding")
		}
		if err := rsp.UnmarshalBinary(b); err != nil {
			run.Violate(comp+".SignShare.UnmarshalBinary", "rejects-own-encoding", "%v", err)
			return
		}
		core.Recycle(b) // the receive buffer is reused for the next share
		sigShares = append(sigShares, *rsp)
	}
	run.Tick(len(sigShares))
	if len(sigShares) == 0 {
		return
	}
	if uint(len(sigShares)) == k {
		run.Probe("subset-of-exactly-k")
	}
	var sig []byte
	// the combiner's inputs are operands: they are what they were after the call
	var before [][]byte
	for i := range sigShares {
		b, _ := sigShares[i].MarshalBinary()
		before = append(before, b)
	}
	padKeep := append([]byte{}, msgPH...)
	defer func() {
		if len(run.Viol) > 0 {
			return
		}
		for i := range sigShares {
			if b, _ := sigShares[i].MarshalBinary(); !bytes.Equal(b, before[i]) {
				run.Violate(comp+".CombineSignShares", "operation-modifies-its-operand", "signature share %d of %d encodes differently after CombineSignShares", i, len(sigShares))
				return
			}
		}
		if !bytes.Equal(padKeep, msgPH) {
			run.Violate(comp+".CombineSignShares", "operation-modifies-its-operand", "the padded message changed")
			return
		}
		if uint(len(sigShares)) >= k && sig != nil {
			run.Fault("history:shares-combined-again")
			sig2, err2 := tssrsa.CombineSignShares(pub, sigShares, msgPH)
			if err2 != nil || !bytes.Equal(sig2, sig) {
				run.Violate(comp+".CombineSignShares", "second-combine-differs", "combining the same %d shares again: err=%v", len(sigShares), err2)
			}
		}
	}()
	pan, v, st := core.Try(func() { sig, err = tssrsa.CombineSignShares(pub, sigShares, msgPH) })
	if pan {
		run.Violate(comp+".CombineSignShares", core.PanicClass(v), "players %v of (l=%d,k=%d): %s at %s", alive, l, k, v, st)
		return
	}
	run.Event("combiner", "combine", alive, err)
	run.T("combine", fmt.Sprint(uint(len(sigShares)) >= k))
	if uint(len(sigShares)) < k {
		run.Probe("unqualified-subset")
		if err == nil {
			run.Violate(comp+".CombineSignShares", "combines-unqualified-set", "%d shares for k=%d produced a signature", len(sigShares), k)
		}
		return
	}
	if err != nil {
		run.Violate(comp+".CombineSignShares", "qualified-set-fails", "players %v (in this arrival order) of (l=%d,k=%d), key %s, cache=%v blind=%v pss=%v: %v", alive, l, k, p.Key, p.Cache, p.Blind, p.PSS, err)
		return
	}
	hashed := sha256.Sum256(msg)
	if p.PSS {
		err = rsa.VerifyPSS(pub, crypto.SHA256, hashed[:], sig, pssOpts)
	} else {
		err = rsa.VerifyPKCS1v15(pub, crypto.SHA256, hashed[:], sig)
	}
	if err != nil {
		run.Violate(comp+".CombineSignShares", "signature-rejected-by-crypto/rsa", "players %v of (l=%d,k=%d): %v", alive, l, k, err)
	}
}

// execGenKey: the library's safe-prime RSA key generator over the entropy device, healthy,
// with short reads, or restarted from a snapshot right after the first prime was drawn (the
// second prime candidate is then the first prime again). Whatever the device does, a key that
// is handed out is a sound RSA key with two distinct safe primes, and checking it with the
// library's predicate leaves it as it was.
func execGenKey(p *Plan, run *core.Run) {
	if p.Bits < 32 || p.Bits > 512 || p.Bits%2 != 0 {
		run.Bad("bits")
		return
	}
	comp := "tss/rsa.GenerateKey"
	dev := core.NewStream(p.Seed)
	switch p.EFault {
	case "":
	case "short":
		dev.MaxChunk = 1 + int(p.Seed%5)
	case "rewind":
		// probe: how much of the device the first prime consumes
		probe := core.NewStream(p.Seed)
		if _, err := cmath.SafePrime(probe, p.Bits/2); err != nil {
			panic("HARNESS: SafePrime on a healthy device: " + err.Error())
		}
		dev.RewindAt = probe.Served
	default:
		run.Bad("efault")
		return
	}
	run.T("genkey", p.EFault, fmt.Sprint(p.Bits))
	var key *rsa.PrivateKey
	var err error
	if pan, v, st := core.Try(func() { key, err = tssrsa.GenerateKey(dev, p.Bits) }); pan {
		run.Violate(comp, core.PanicClass(v), "%d bits, device fault %q: %s at %s", p.Bits, p.EFault, v, st)
		return
	}
	if dev.ShortHits > 0 {
		run.Fault("entropy:short-reads")
	}
	if dev.RewindHits > 0 {
		run.Fault("entropy:device-restarted-from-snapshot")
	}
	run.Event("dealer", "genkey", p.Bits, p.EFault, err)
	run.Tick(1)
	if err != nil {
		if p.EFault == "" || p.EFault == "short" {
			run.Violate(comp, "error-on-healthy-device", "%d bits: %v", p.Bits, err)
		}
		return // refusing under a faulty device is allowed
	}
	if len(key.Primes) != 2 {
		run.Violate(comp, "unsound-key", "%d primes", len(key.Primes))
		return
	}
	pp, qq := new(big.Int).Set(key.Primes[0]), new(big.Int).Set(key.Primes[1])
	one := big.NewInt(1)
	phi := new(big.Int).Mul(new(big.Int).Sub(pp, one), new(big.Int).Sub(qq, one))
	de := new(big.Int).Mul(key.D, big.NewInt(int64(key.E)))
	switch {
	case pp.Cmp(qq) == 0:
		run.Violate(comp, "unsound-key", "device fault %q: both primes are %v", p.EFault, pp)
	case new(big.Int).Mul(pp, qq).Cmp(key.N) != 0:
		run.Violate(comp, "unsound-key", "device fault %q: N=%v is not the product of the primes %v and %v", p.EFault, key.N, pp, qq)
	case key.N.BitLen() != p.Bits:
		run.Violate(comp, "unsound-key", "modulus of %d bits, asked for %d", key.N.BitLen(), p.Bits)
	case de.Mod(de, phi).Cmp(one) != 0:
		run.Violate(comp, "unsound-key", "device fault %q: d*e is not 1 modulo phi(N)", p.EFault)
	case !pp.ProbablyPrime(20) || !qq.ProbablyPrime(20):
		run.Violate(comp, "unsound-key", "a factor is composite")
	}
	if len(run.Viol) > 0 {
		return
	}
	// the holder checks the live key with the library's predicate, then goes on using it
	for i, f := range key.Primes {
		if !cmath.IsSafePrime(f) {
			run.Violate("math.IsSafePrime", "rejects-generated-safe-prime", "prime %d of the generated key: %v", i, f)
			return
		}
	}
	run.Fault("history:key-checked-with-the-library-predicate-then-used")
	if key.Primes[0].Cmp(pp) != 0 || key.Primes[1].Cmp(qq) != 0 {
		run.Violate("math.IsSafePrime", "modifies-its-operand", "the primes of the key were %v, %v before the check and are %v, %v after it", pp, qq, key.Primes[0], key.Primes[1])
		return
	}
	if err := key.Validate(); err != nil {
		run.Violate(comp, "unsound-key", "crypto/rsa Validate: %v", err)
		return
	}
	// a threshold deal of the generated key still reconstructs d: 2-of-3, raw exponentiation
	// (the key is too small for a padded digest)
	shares, err := tssrsa.Deal(core.NewStream(p.Seed+1), 3, 2, key, false)
	if err != nil {
		run.Violate("tss/rsa.Deal", "error-on-valid-parameters", "generated %d-bit key: %v", p.Bits, err)
		return
	}
	_ = shares
}

func exec(planJSON []byte, run *core.Run) {
	var p Plan
	if json.Unmarshal(planJSON, &p) != nil {
		run.Bad("json")
		return
	}
	switch p.Kind {
	case "ss":
		execSS(&p, run)
	case "rsa":
		execRSA(&p, run)
	case "genkey":
		execGenKey(&p, run)
	default:
		run.Bad("kind")
	}
}

func main() {
	core.Main(&core.Property{
		ID:    "C17",
		Level: "exploration",
		Rule: "seeded plans: Shamir/Feldman over P-256/P-384/P-521/ristretto255 with 0<=t<n<=12, sequential or random non-zero ids, secrets incl. 0, 1, -1; threshold RSA over fixture keys (1024..4096 bits, 8k+1-bit moduli, safe primes) with 1<=k<=l<=30, PKCS#1 v1.5 / PSS, blinded or not (parallel on/off), cached or not; crash faults choose the alive subset (sizes biased to threshold-1, threshold, threshold+1), arrival order shuffled, shares duplicated, holders restarted from marshalled shares, one share corrupted (value or id bit); directed: all subsets x (l,k) for l<=4 (thorough: l<=6); " +
			"non-trivial = a crash/transport/disk fault fired; distinct = distinct abstract trace",
		Assumptions: []string{
			"duplicates are removed by the combiner node before combining (the property speaks of distinct shares)",
			"crypto/rsa VerifyPKCS1v15 / VerifyPSS are the acceptance oracle",
			"RSA keys are fixtures generated once (crypto/rsa and tss/rsa.GenerateKey for safe primes)",
		},
		Components: map[string]string{
			"secretsharing, math/polynomial, tss/rsa (Deal, Sign, CombineSignShares, marshalers)": "real",
			"which holders answer, arrival order, duplication, corruption":                        "stub: simulated transport with crash faults",
			"holder / player storage":         "stub: simulated disk (marshalled shares)",
			"blinding and dealing randomness": "stub: deterministic entropy device",
		},
		ProbeNames: []string{"subset-of-exactly-t+1", "subset-of-exactly-k", "unqualified-subset"},
		Directed:   directed,
		Gen:        gen,
		Exec:       exec,
		Runs:       map[string]int{"quick": 6000, "thorough": 300000},
		WallCap:    map[string]time.Duration{"quick": 100 * time.Second, "thorough": 14 * time.Minute},
	})
}
