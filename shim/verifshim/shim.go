//go:build verif

// Package verifshim is mapped into the circl module at build time by
// /verif/bin/mkoverlay (go build -overlay); it is never committed to /repo. It
// re-exports internal/sha3 so that the simulator can drive SHA-3, SHAKE and
// TurboSHAKE state objects directly.
package verifshim

import "github.com/cloudflare/circl/internal/sha3"

type State = sha3.State

func New224() State                  { return sha3.New224() }
func New256() State                  { return sha3.New256() }
func New384() State                  { return sha3.New384() }
func New512() State                  { return sha3.New512() }
func NewShake128() State             { return sha3.NewShake128() }
func NewShake256() State             { return sha3.NewShake256() }
func NewTurboShake128(d byte) State  { return sha3.NewTurboShake128(d) }
func NewTurboShake256(d byte) State  { return sha3.NewTurboShake256(d) }
func Sum224(b []byte) [28]byte       { return sha3.Sum224(b) }
func Sum256(b []byte) [32]byte       { return sha3.Sum256(b) }
func Sum384(b []byte) [48]byte       { return sha3.Sum384(b) }
func Sum512(b []byte) [64]byte       { return sha3.Sum512(b) }
func ShakeSum128(h, d []byte)        { sha3.ShakeSum128(h, d) }
func ShakeSum256(h, d []byte)        { sha3.ShakeSum256(h, d) }
func TurboShakeSum128(h, d []byte, D byte) { sha3.TurboShakeSum128(h, d, D) }
func TurboShakeSum256(h, d []byte, D byte) { sha3.TurboShakeSum256(h, d, D) }
