// Package fixtures loads the RSA fixture keys under /verif/fixtures/rsa.
package fixtures

import (
	"crypto/rsa"
	"crypto/x509"
	"encoding/pem"
	"os"
	"path/filepath"
	"sort"
	"strings"
	"sync"

	"circlsim/core"
)

var rsaKeys map[string]*rsa.PrivateKey
var rsaNames []string

var once sync.Once

func load() { once.Do(doLoad) }

func doLoad() {
	rsaKeys = map[string]*rsa.PrivateKey{}
	files, _ := filepath.Glob(filepath.Join(core.VerifDir(), "fixtures", "rsa", "*.pem"))
	for _, f := range files {
		raw, err := os.ReadFile(f)
		if err != nil {
			panic("HARNESS: rsa fixture: " + err.Error())
		}
		blk, _ := pem.Decode(raw)
		k, err := x509.ParsePKCS1PrivateKey(blk.Bytes)
		if err != nil {
			panic("HARNESS: rsa fixture: " + err.Error())
		}
		n := strings.TrimSuffix(filepath.Base(f), ".pem")
		rsaKeys[n] = k
		rsaNames = append(rsaNames, n)
	}
	sort.Strings(rsaNames)
	if len(rsaNames) < 6 {
		panic("HARNESS: rsa fixtures missing")
	}
}

// RSAKey returns a fresh copy of the named fixture key (so that no run can
// disturb another through precomputed values).
func RSAKey(name string) *rsa.PrivateKey {
	load()
	k := rsaKeys[name]
	if k == nil {
		return nil
	}
	c, err := x509.ParsePKCS1PrivateKey(x509.MarshalPKCS1PrivateKey(k))
	if err != nil {
		panic("HARNESS: rsa copy")
	}
	return c
}

func RSANames() []string { load(); return rsaNames }
