// C15 — hashes, XOFs and Ascon match their specifications on every input and
// chunking. histsim: long-lived stream objects driven through seeded histories
// of Write / Read / Sum / Clone / Reset under a chunking adversary (short writes,
// short reads, boundaries of the rate and of the 8192-byte K12 chunk, lane
// counts 1/2/4), judged against one-shot reference models; Ascon cipher objects
// reused across calls with dst prefixes, in-place operation and tamper faults on
// every input.
package main

import (
	"bytes"
	"crypto"
	"encoding/json"
	"fmt"
	"io"
	"time"
	"unsafe"

	"circlsim/core"
	"circlsim/refmodel/asconref"
	"circlsim/refmodel/h2c"
	"circlsim/refmodel/keccak"

	"github.com/cloudflare/circl/cipher/ascon"
	"github.com/cloudflare/circl/expander"
	"github.com/cloudflare/circl/simd/keccakf1600"
	"github.com/cloudflare/circl/verifshim"
	"github.com/cloudflare/circl/xof"
	"github.com/cloudflare/circl/xof/k12"
	"golang.org/x/crypto/blake2b"
	"golang.org/x/crypto/blake2s"
)

type Op struct {
	K   string `json:"k"` // write | read | sum | clone | reset
	Obj int    `json:"o"` // object slot
	N   int    `json:"n,omitempty"`
}

type AsconCall struct {
	K      string `json:"k"`                // seal | open
	Ad     int    `json:"ad"`               // lengths
	Pt     int    `json:"pt"`               //
	Prefix int    `json:"prefix,omitempty"` // non-empty dst prefix length
	Inpl   bool   `json:"inplace,omitempty"`
	Tamper string `json:"tamper,omitempty"` // "" | key | nonce | ad | ct | tag | trunc
	Bit    int    `json:"bit,omitempty"`
}

type Plan struct {
	Fam    string      `json:"fam"`
	Param  int         `json:"param,omitempty"`  // D for TurboSHAKE, lanes for K12, variant for Ascon, k for expander xof
	Custom string      `json:"custom,omitempty"` // K12 customisation / expander DST (hex)
	Seed   uint64      `json:"seed"`
	Ops    []Op        `json:"ops,omitempty"`
	Calls  []AsconCall `json:"calls,omitempty"`
	Exp    []Op        `json:"exp,omitempty"` // expander: k=expand, N=len_in_bytes, Obj=msg length
	Perm   []Op        `json:"perm,omitempty"`
	// Sweep: instead of one history, every message length From..To-1 (at most 512 lengths)
	// through a fresh object AND through the package's one-shot function, both judged by
	// the reference
	Sweep    bool `json:"sweep,omitempty"`
	From, To int  `json:",omitempty"`
}

var streamFams = []string{"sha3-224", "sha3-256", "sha3-384", "sha3-512", "shake128", "shake256", "turboshake128", "turboshake256",
	"xof-shake128", "xof-shake256", "xof-blake2xb", "xof-blake2xs", "xof-k12", "k12"}

func rateOf(fam string) int {
	switch fam {
	case "sha3-224":
		return 144
	case "sha3-256":
		return 136
	case "sha3-384":
		return 104
	case "sha3-512":
		return 72
	case "shake256", "turboshake256", "xof-shake256":
		return 136
	case "xof-blake2xb":
		return 128
	case "xof-blake2xs":
		return 64
	}
	return 168
}

func genLen(r *core.PRNG, rate int, lanes int, big bool) int {
	switch r.Pick(20, 25, 10, 20, 5) {
	case 0:
		return r.Intn(40)
	case 1:
		return []int{0, 1, rate - 1, rate, rate + 1, 2*rate - 1, 2 * rate, 2*rate + 1, 3 * rate}[r.Intn(9)]
	case 2:
		return r.Intn(600)
	case 3:
		if !big {
			return r.Intn(300)
		}
		k := r.Range(1, 9)
		if r.Chance(1, 3) && lanes > 0 {
			k = lanes * r.Range(1, 2)
		}
		return k*8192 + r.Range(-2, 2) - r.Intn(2)*r.Intn(200)
	default:
		if !big {
			return r.Intn(2000)
		}
		return r.Intn(20000)
	}
}

func gen(r *core.PRNG, tier string) any {
	p := &Plan{Seed: r.Uint64()}
	switch r.Pick(60, 14, 8, 18) {
	case 0: // streams
		p.Fam = streamFams[r.Pick(3, 4, 3, 4, 8, 8, 8, 6, 5, 4, 3, 3, 8, 30)]
		lanes := 0
		switch p.Fam {
		case "turboshake128", "turboshake256":
			p.Param = r.Range(1, 0x7f)
		case "k12":
			lanes = []int{1, 2, 4}[r.Intn(3)]
			p.Param = lanes
			p.Custom = r.Hex([]int{0, 0, 1, 41, 255, 256, 300}[r.Intn(7)])
			if r.Chance(1, 20) {
				p.Custom = r.Hex(8192 + r.Range(-1, 1))
			}
		case "xof-k12":
			lanes = 4
		}
		big := (p.Fam == "k12" || p.Fam == "xof-k12") && r.Chance(3, 5)
		if !big && r.Chance(1, 12) {
			big = true
		}
		rate := rateOf(p.Fam)
		n := r.Range(2, 14)
		slots := 1
		total := 0
		for i := 0; i < n; i++ {
			o := r.Intn(slots)
			switch r.Pick(45, 30, 10, 8, 7) {
			case 0:
				l := genLen(r, rate, lanes, big)
				if total+l > 90000 {
					l = r.Intn(200)
				}
				total += l
				p.Ops = append(p.Ops, Op{K: "write", Obj: o, N: l})
			case 1:
				p.Ops = append(p.Ops, Op{K: "read", Obj: o, N: []int{0, 1, 16, 32, rate - 1, rate, rate + 1, 2 * rate, r.Intn(700)}[r.Intn(9)]})
			case 2:
				if slots < 4 {
					p.Ops = append(p.Ops, Op{K: "clone", Obj: o})
					slots++
				}
			case 3:
				p.Ops = append(p.Ops, Op{K: "reset", Obj: o})
			case 4:
				p.Ops = append(p.Ops, Op{K: "sum", Obj: o})
			}
		}
		for o := 0; o < slots; o++ {
			p.Ops = append(p.Ops, Op{K: "read", Obj: o, N: 32 + r.Intn(200)})
		}
	case 1: // expanders
		p.Fam = []string{"xmd-SHA256", "xmd-SHA384", "xmd-SHA512", "xof-SHAKE128", "xof-SHAKE256"}[r.Intn(5)]
		p.Param = []int{128, 256}[r.Intn(2)]
		p.Custom = r.Hex([]int{0, 1, 16, 38, 254, 255, 256, 257, 400}[r.Intn(9)])
		for i, n := 0, r.Range(1, 5); i < n; i++ {
			p.Exp = append(p.Exp, Op{K: "expand", Obj: r.EdgeLen(300, 0, 64, 128), N: []int{0, 1, 31, 32, 33, 64, 100, 255, 256, 8160, 8161, 12241, 16321, 65535, 65536, 65568, r.Intn(400)}[r.Intn(17)]})
		}
	case 2: // multi-lane permutations
		p.Fam = []string{"keccakx2", "keccakx4"}[r.Intn(2)]
		p.Param = r.Intn(2) // turbo
		for i, n := 0, r.Range(1, 6); i < n; i++ {
			p.Perm = append(p.Perm, Op{K: []string{"permute", "permute", "scribble", "move"}[r.Intn(4)], N: r.Intn(1 << 16)})
		}
	case 3: // Ascon
		p.Fam = "ascon"
		p.Param = r.Intn(3)
		rate := 8
		if p.Param == 1 {
			rate = 16
		}
		for i, n := 0, r.Range(1, 6); i < n; i++ {
			c := AsconCall{K: "seal", Ad: r.EdgeLen(3*rate+1, 0, rate, 2*rate, 3*rate), Pt: r.EdgeLen(3*rate+1, 0, rate, 2*rate, 3*rate)}
			if r.Chance(1, 3) {
				c.Prefix = r.Range(1, 20)
			}
			if r.Chance(1, 4) {
				c.Inpl = true
			}
			p.Calls = append(p.Calls, c)
			o := c
			o.K = "open"
			o.Prefix = 0
			if r.Chance(1, 3) {
				o.Prefix = r.Range(1, 20)
			}
			o.Inpl = r.Chance(1, 4)
			if r.Chance(3, 5) {
				o.Tamper = []string{"key", "nonce", "ad", "ct", "tag", "trunc"}[r.Intn(6)]
				o.Bit = r.Intn(1 << 12)
			}
			p.Calls = append(p.Calls, o)
		}
	}
	return p
}

// ---- stream adapters ----

type stream interface {
	Write(b []byte)
	Read(n int) []byte
	Sum() []byte // nil if not a fixed-output hash
	Clone() stream
	Reset()
}

type shimStream struct {
	s     *verifshim.State
	fixed bool
}

func (x *shimStream) Write(b []byte) { x.s.Write(b) }
func (x *shimStream) Read(n int) []byte {
	out := make([]byte, n)
	x.s.Read(out)
	return out
}
func (x *shimStream) Sum() []byte {
	if !x.fixed {
		return nil
	}
	return x.s.Sum([]byte{0xee})[1:]
}
func (x *shimStream) Clone() stream {
	c := x.s.Clone().(*verifshim.State)
	return &shimStream{c, x.fixed}
}
func (x *shimStream) Reset() { x.s.Reset() }

type xofStream struct{ x xof.XOF }

func (x *xofStream) Write(b []byte) { x.x.Write(b) }
func (x *xofStream) Read(n int) []byte {
	out := make([]byte, n)
	if _, err := io.ReadFull(x.x, out); err != nil && n > 0 {
		panic("xof read: " + err.Error())
	}
	return out
}
func (x *xofStream) Sum() []byte   { return nil }
func (x *xofStream) Clone() stream { return &xofStream{x.x.Clone()} }
func (x *xofStream) Reset()        { x.x.Reset() }

type k12Stream struct{ s *k12.State }

func (x *k12Stream) Write(b []byte) { x.s.Write(b) }
func (x *k12Stream) Read(n int) []byte {
	out := make([]byte, n)
	x.s.Read(out)
	return out
}
func (x *k12Stream) Sum() []byte   { return nil }
func (x *k12Stream) Clone() stream { c := x.s.Clone(); return &k12Stream{&c} }
func (x *k12Stream) Reset()        { x.s.Reset() }

func newStream(p *Plan) (stream, func(msg []byte, n int) []byte, bool) {
	custom := core.H(p.Custom)
	switch p.Fam {
	case "sha3-224":
		s := verifshim.New224()
		return &shimStream{&s, true}, func(m []byte, n int) []byte { return keccak.SHA3(224, m) }, true
	case "sha3-256":
		s := verifshim.New256()
		return &shimStream{&s, true}, func(m []byte, n int) []byte { return keccak.SHA3(256, m) }, true
	case "sha3-384":
		s := verifshim.New384()
		return &shimStream{&s, true}, func(m []byte, n int) []byte { return keccak.SHA3(384, m) }, true
	case "sha3-512":
		s := verifshim.New512()
		return &shimStream{&s, true}, func(m []byte, n int) []byte { return keccak.SHA3(512, m) }, true
	case "shake128":
		s := verifshim.NewShake128()
		return &shimStream{&s, false}, keccak.SHAKE128, true
	case "shake256":
		s := verifshim.NewShake256()
		return &shimStream{&s, false}, keccak.SHAKE256, true
	case "turboshake128":
		if p.Param < 1 || p.Param > 0x7f {
			return nil, nil, false
		}
		s := verifshim.NewTurboShake128(byte(p.Param))
		return &shimStream{&s, false}, func(m []byte, n int) []byte { return keccak.TurboSHAKE128(m, byte(p.Param), n) }, true
	case "turboshake256":
		if p.Param < 1 || p.Param > 0x7f {
			return nil, nil, false
		}
		s := verifshim.NewTurboShake256(byte(p.Param))
		return &shimStream{&s, false}, func(m []byte, n int) []byte { return keccak.TurboSHAKE256(m, byte(p.Param), n) }, true
	case "xof-shake128":
		return &xofStream{xof.SHAKE128.New()}, keccak.SHAKE128, true
	case "xof-shake256":
		return &xofStream{xof.SHAKE256.New()}, keccak.SHAKE256, true
	case "xof-blake2xb":
		return &xofStream{xof.BLAKE2XB.New()}, func(m []byte, n int) []byte {
			x, _ := blake2b.NewXOF(blake2b.OutputLengthUnknown, nil)
			x.Write(m)
			out := make([]byte, n)
			io.ReadFull(x, out)
			return out
		}, true
	case "xof-blake2xs":
		return &xofStream{xof.BLAKE2XS.New()}, func(m []byte, n int) []byte {
			x, _ := blake2s.NewXOF(blake2s.OutputLengthUnknown, nil)
			x.Write(m)
			out := make([]byte, n)
			io.ReadFull(x, out)
			return out
		}, true
	case "xof-k12":
		return &xofStream{xof.K12D10.New()}, func(m []byte, n int) []byte { return keccak.KT128(m, nil, n) }, true
	case "k12":
		if p.Param != 1 && p.Param != 2 && p.Param != 4 {
			return nil, nil, false
		}
		s := k12.NewDraft10Lanes(append([]byte{}, custom...), byte(p.Param))
		return &k12Stream{&s}, func(m []byte, n int) []byte { return keccak.KT128(m, custom, n) }, true
	}
	return nil, nil, false
}

type objModel struct {
	absorbed []byte
	squeezed int
	reading  bool
}

func execStream(p *Plan, run *core.Run) {
	s0, ref, ok := newStream(p)
	if !ok {
		run.Bad("family")
		return
	}
	comp := "stream[" + p.Fam + "]"
	if p.Fam == "k12" {
		comp = fmt.Sprintf("stream[k12,lanes=%d]", p.Param)
	}
	if p.Sweep {
		if p.From < 0 || p.To-p.From > 512 || p.To > 100000 {
			run.Bad("sweep")
			return
		}
		msg := core.NewPRNG(p.Seed).Bytes(p.To)
		for n := p.From; n < p.To; n++ {
			o, _, _ := newStream(p)
			m := msg[:n:n]
			o.Write(m)
			got := o.Sum()
			outLen := 0
			if got == nil {
				outLen = 64 + n%7
				got = o.Read(outLen)
			}
			want := ref(m, outLen)
			run.Tick(1)
			if !bytes.Equal(got, want) {
				run.Violate(comp, "digest-differs-from-specification", "a fresh object given %d bytes in one Write returns %s, the reference %s", n, short(got), short(want))
				return
			}
			if one := oneShot(p, m, outLen); one != nil {
				run.Fault("history:one-shot-function-next-to-streaming-object")
				if !bytes.Equal(one, want) {
					run.Violate(comp+".one-shot", "digest-differs-from-specification", "the one-shot function on %d bytes returns %s; the streaming object and the reference give %s", n, short(one), short(want))
					return
				}
			}
		}
		run.Event("obj", "sweep", p.From, p.To)
		run.T(p.Fam, "sweep")
		return
	}
	objs := []stream{s0}
	models := []*objModel{{}}
	data := core.NewPRNG(p.Seed)
	rate := rateOf(p.Fam)
	run.T(p.Fam, fmt.Sprint(p.Param))
	for i, op := range p.Ops {
		if op.Obj < 0 || op.Obj >= len(objs) {
			continue
		}
		o, m := objs[op.Obj], models[op.Obj]
		switch op.K {
		case "write":
			if m.reading || op.N < 0 || op.N > 200000 {
				continue // Write after Read is a documented panic
			}
			chunk := data.Bytes(op.N)
			before := len(m.absorbed)
			// io.Writer: Write must not modify the slice and must not retain it — the caller's
			// buffer is refilled as soon as Write has returned
			keep := append([]byte{}, chunk...)
			o.Write(chunk)
			if !bytes.Equal(chunk, keep) {
				run.Violate(comp, "modifies-its-input", "Write changed the %d-byte buffer it was given", len(chunk))
				return
			}
			core.Recycle(chunk)
			m.absorbed = append(m.absorbed, keep...)
			run.Event("obj", "write", op.Obj, op.N)
			run.Tick(1)
			if op.N > 0 && op.N < rate {
				run.Fault("chunking:short-write")
			} else if op.N >= rate {
				run.Fault("chunking:multi-block-write")
			}
			if before/8192 != len(m.absorbed)/8192 {
				run.Probe("write-straddled-8192-boundary")
				if p.Param > 1 && (before/(8192*p.Param) != len(m.absorbed)/(8192*p.Param)) {
					run.Probe("write-straddled-lanes*8192-boundary")
				}
			}
			run.T("w")
		case "read":
			if op.N < 0 || op.N > 100000 {
				continue
			}
			if _, fixed := o.(*shimStream); fixed && o.(*shimStream).fixed {
				continue // fixed-output hashes are read through Sum
			}
			got := o.Read(op.N)
			want := ref(m.absorbed, m.squeezed+op.N)[m.squeezed:]
			run.Event("obj", "read", op.Obj, got)
			run.Tick(1)
			if !m.reading && len(models) > 1 {
				run.Probe("clone-between-absorb-and-squeeze")
			}
			if m.squeezed/rate != (m.squeezed+op.N)/rate {
				run.Probe("squeeze-crossed-rate-boundary")
			}
			if op.N > 0 && op.N < rate {
				run.Fault("chunking:short-read")
			}
			m.reading = true
			if !bytes.Equal(got, want) {
				run.Violate(comp, "output-differs-from-specification", "op %d: after absorbing %d bytes in this history, output bytes [%d,%d) are %s, the one-shot reference gives %s", i, len(m.absorbed), m.squeezed, m.squeezed+op.N, short(got), short(want))
				return
			}
			m.squeezed += op.N
			run.T("r")
		case "sum":
			got := o.Sum()
			if got == nil || m.reading {
				continue
			}
			want := ref(m.absorbed, 0)
			run.Event("obj", "sum", op.Obj, got)
			if !bytes.Equal(got, want) {
				run.Violate(comp, "digest-differs-from-specification", "op %d: Sum after %d bytes: %x, reference %x", i, len(m.absorbed), got, want)
				return
			}
			run.Fault("history:sum-midway")
			run.T("s")
		case "clone":
			if len(objs) >= 6 {
				continue
			}
			objs = append(objs, o.Clone())
			cm := *m
			cm.absorbed = append([]byte{}, m.absorbed...)
			models = append(models, &cm)
			run.Event("obj", "clone", op.Obj)
			run.Fault("history:clone")
			run.T("c")
		case "reset":
			o.Reset()
			*m = objModel{}
			run.Event("obj", "reset", op.Obj)
			run.Fault("history:reset")
			run.T("x")
		default:
			run.Bad("op")
			return
		}
	}
	// what was absorbed piecewise in this history, given to the one-shot function in one piece
	for _, m := range models {
		outLen := 0
		if _, fixed := s0.(*shimStream); !fixed || !s0.(*shimStream).fixed {
			outLen = 32 + m.squeezed%67
		}
		if one := oneShot(p, m.absorbed, outLen); one != nil {
			run.Fault("history:one-shot-function-next-to-streaming-object")
			if want := ref(m.absorbed, outLen); !bytes.Equal(one, want) {
				run.Violate(comp+".one-shot", "digest-differs-from-specification", "the one-shot function on the %d bytes absorbed in this history returns %s, the reference %s", len(m.absorbed), short(one), short(want))
				return
			}
		}
	}
}

// oneShot: the package-level function of the family, if it has one (nil otherwise).
func oneShot(p *Plan, m []byte, n int) []byte {
	switch p.Fam {
	case "sha3-224":
		d := verifshim.Sum224(m)
		return d[:]
	case "sha3-256":
		d := verifshim.Sum256(m)
		return d[:]
	case "sha3-384":
		d := verifshim.Sum384(m)
		return d[:]
	case "sha3-512":
		d := verifshim.Sum512(m)
		return d[:]
	case "shake128":
		out := make([]byte, n)
		verifshim.ShakeSum128(out, m)
		return out
	case "shake256":
		out := make([]byte, n)
		verifshim.ShakeSum256(out, m)
		return out
	case "turboshake128":
		out := make([]byte, n)
		verifshim.TurboShakeSum128(out, m, byte(p.Param))
		return out
	case "turboshake256":
		out := make([]byte, n)
		verifshim.TurboShakeSum256(out, m, byte(p.Param))
		return out
	}
	return nil
}

func short(b []byte) string {
	if len(b) > 24 {
		return fmt.Sprintf("%x…(%d bytes)", b[:24], len(b))
	}
	return fmt.Sprintf("%x", b)
}

func execExpander(p *Plan, run *core.Run) {
	dst := core.H(p.Custom)
	// aliasing: the caller keeps DST and message in one frame (DST || msg); the DST it
	// hands over is frame[:len(DST)], whose spare capacity is the message
	shared := p.Seed%2 == 1
	frame := make([]byte, len(dst)+5001)
	copy(frame, dst)
	dstArg := func() []byte {
		if shared {
			return frame[:len(dst)]
		}
		return append([]byte{}, dst...)
	}
	var e expander.Expander
	var ref func(msg []byte, n int) []byte
	switch p.Fam {
	case "xmd-SHA256":
		e = expander.NewExpanderMD(crypto.SHA256, dstArg())
		ref = func(m []byte, n int) []byte { return h2c.XMD("SHA256", m, dst, n) }
	case "xmd-SHA384":
		e = expander.NewExpanderMD(crypto.SHA384, dstArg())
		ref = func(m []byte, n int) []byte { return h2c.XMD("SHA384", m, dst, n) }
	case "xmd-SHA512":
		e = expander.NewExpanderMD(crypto.SHA512, dstArg())
		ref = func(m []byte, n int) []byte { return h2c.XMD("SHA512", m, dst, n) }
	case "xof-SHAKE128":
		if p.Param != 128 && p.Param != 256 {
			run.Bad("k")
			return
		}
		e = expander.NewExpanderXOF(xof.SHAKE128, uint(p.Param), dstArg())
		ref = func(m []byte, n int) []byte { return h2c.XOF("SHAKE128", p.Param, m, dst, n) }
	case "xof-SHAKE256":
		if p.Param != 128 && p.Param != 256 {
			run.Bad("k")
			return
		}
		e = expander.NewExpanderXOF(xof.SHAKE256, uint(p.Param), dstArg())
		ref = func(m []byte, n int) []byte { return h2c.XOF("SHAKE256", p.Param, m, dst, n) }
	default:
		run.Bad("family")
		return
	}
	comp := "expander[" + p.Fam + "]"
	run.T(p.Fam, fmt.Sprint(len(dst)))
	if len(dst) >= 254 && len(dst) <= 257 {
		run.Probe("dst-length-around-255")
	}
	data := core.NewPRNG(p.Seed)
	for i, op := range p.Exp {
		if op.N < 0 || op.N > 70000 || op.Obj < 0 || op.Obj > 5000 {
			continue
		}
		msg := data.Bytes(op.Obj)
		want := ref(msg, op.N)
		if want == nil {
			// the RFC aborts: len_in_bytes over 65535, or over 255 hash blocks. The library
			// documents a panic; handing out bytes instead would be an answer to a request
			// that has none (for the XOF variant, the answer to another, shorter request)
			var out []byte
			if pan, _, _ := core.Try(func() { out = e.Expand(msg, uint(op.N)) }); !pan {
				run.Violate(comp, "answers-a-request-the-rfc-aborts", "msg of %d bytes, len_in_bytes %d: RFC 9380 aborts, Expand returned %d bytes (%s)", len(msg), op.N, len(out), short(out))
				return
			}
			run.Fault("misuse:len_in_bytes-beyond-the-rfc-limit")
			continue
		}
		if shared {
			copy(frame[len(dst):], msg)
			msg = frame[len(dst) : len(dst)+len(msg)]
			run.Fault("aliasing:dst-and-message-share-a-frame")
		}
		keep := append([]byte{}, msg...)
		got := e.Expand(msg, uint(op.N))
		run.Event("expander", "expand", op.Obj, op.N, got)
		if i > 0 {
			run.Fault("history:expander-object-reused")
		}
		run.T("e")
		if !bytes.Equal(got, want) {
			run.Violate(comp, "output-differs-from-rfc9380", "call %d on the same object: msg of %d bytes, DST of %d bytes, len_in_bytes %d: %s, RFC 9380 gives %s", i, len(msg), len(dst), op.N, short(got), short(want))
			return
		}
		if !bytes.Equal(keep, msg) {
			run.Violate(comp, "modifies-its-input", "Expand changed the message buffer")
			return
		}
		if shared && !bytes.Equal(frame[:len(dst)], dst) {
			run.Violate(comp, "modifies-its-input", "Expand changed the caller's DST")
			return
		}
	}
}

func execPerm(p *Plan, run *core.Run) {
	lanes := 4
	if p.Fam == "keccakx2" {
		lanes = 2
	}
	turbo := p.Param == 1
	nr := 24
	if turbo {
		nr = 12
	}
	// the state objects live in slots of an array: consecutive slots differ in their alignment
	// modulo 32, and a state may be copied from one slot to the next and initialised again there
	slots4 := make([]keccakf1600.StateX4, 5)
	slots2 := make([]keccakf1600.StateX2, 5)
	// which slot is 32-byte aligned depends on where the allocator put the array: slots are
	// chosen by their actual alignment, so that a run does the same thing in every process
	aligned := func(i int) bool {
		if lanes == 4 {
			return uintptr(unsafe.Pointer(&slots4[i]))&31 == 0
		}
		return uintptr(unsafe.Pointer(&slots2[i]))&31 == 0
	}
	pick := func(wantAligned bool, not int) int {
		for i := 0; i < 5; i++ {
			if i != not && aligned(i) == wantAligned {
				return i
			}
		}
		return (not + 1) % 5
	}
	slot := pick(p.Seed%2 == 0, -1)
	s4, s2 := &slots4[slot], &slots2[slot]
	var a []uint64
	if lanes == 4 {
		a = s4.Initialize(turbo)
	} else {
		a = s2.Initialize(turbo)
	}
	model := make([][25]uint64, lanes)
	data := core.NewPRNG(p.Seed)
	for j := 0; j < 25; j++ {
		for l := 0; l < lanes; l++ {
			v := data.Uint64()
			a[j*lanes+l] = v
			model[l][j] = v
		}
	}
	run.T(p.Fam, fmt.Sprint(turbo))
	for i, op := range p.Perm {
		switch op.K {
		case "permute":
			if lanes == 4 {
				s4.Permute()
			} else {
				s2.Permute()
			}
			for l := 0; l < lanes; l++ {
				keccak.P(&model[l], nr)
			}
			run.Tick(1)
			run.Fault("lanes:permute")
		case "move":
			// the state is copied by value into the next slot and initialised there; the caller
			// fills the buffer it gets again (Initialize makes no promise about the contents)
			next := pick(!aligned(slot), slot) // to a slot of the other alignment class
			if lanes == 4 {
				slots4[next] = slots4[slot]
				s4 = &slots4[next]
				a = s4.Initialize(turbo)
			} else {
				slots2[next] = slots2[slot]
				s2 = &slots2[next]
				a = s2.Initialize(turbo)
			}
			slot = next
			for j := 0; j < 25; j++ {
				for l := 0; l < lanes; l++ {
					a[j*lanes+l] = model[l][j]
				}
			}
			run.Fault("history:state-copied-and-initialised-again")
		case "scribble":
			j, l := op.N%25, (op.N/25)%lanes
			v := data.Uint64()
			a[j*lanes+l] ^= v
			model[l][j] ^= v
		default:
			run.Bad("perm op")
			return
		}
		for l := 0; l < lanes; l++ {
			for j := 0; j < 25; j++ {
				if a[j*lanes+l] != model[l][j] {
					run.Violate(p.Fam, "lane-differs-from-scalar-permutation", "after op %d (%s, turbo=%v) lane %d word %d is %016x, Keccak-p[1600,%d] gives %016x", i, op.K, turbo, l, j, a[j*lanes+l], nr, model[l][j])
					return
				}
			}
		}
		run.Event("perm", op.K, a[0], a[lanes*24])
	}
}

func execAscon(p *Plan, run *core.Run) {
	if p.Param < 0 || p.Param > 2 {
		run.Bad("variant")
		return
	}
	mode := []ascon.Mode{ascon.Ascon128, ascon.Ascon128a, ascon.Ascon80pq}[p.Param]
	variant := []asconref.Variant{asconref.V128, asconref.V128a, asconref.V80pq}[p.Param]
	data := core.NewPRNG(p.Seed)
	key := data.Bytes(mode.KeySize())
	c, err := ascon.New(append([]byte{}, key...), mode)
	if err != nil {
		panic("HARNESS: ascon.New: " + err.Error())
	}
	comp := "ascon[" + mode.String() + "]"
	run.T(comp)
	var lastCT, lastNonce, lastAD, lastPT []byte
	for i, call := range p.Calls {
		if call.Ad < 0 || call.Ad > 200 || call.Pt < 0 || call.Pt > 200 || call.Prefix < 0 || call.Prefix > 64 {
			continue
		}
		switch call.K {
		case "seal":
			nonce, ad, pt := data.Bytes(16), data.Bytes(call.Ad), data.Bytes(call.Pt)
			want := asconref.Seal(variant, key, nonce, ad, pt)
			prefix := data.Bytes(call.Prefix)
			var got []byte
			if call.Inpl {
				buf := make([]byte, len(pt), len(pt)+16)
				copy(buf, pt)
				got = c.Seal(buf[:0], nonce, buf, ad)
				run.Fault("aliasing:seal-in-place")
			} else {
				// dst with a prefix and a spare capacity of 0, 1, one less than needed, exactly what is
				// needed, or more (the append-style API has to grow the buffer in the first three cases)
				need := len(pt) + 16
				spare := []int{0, 1, need - 1, need, need + 3}[(call.Prefix+i)%5]
				if spare < 0 {
					spare = 0
				}
				dst := append(make([]byte, 0, len(prefix)+spare), prefix...)
				out := c.Seal(dst, nonce, pt, ad)
				if !bytes.Equal(out[:len(prefix)], prefix) {
					run.Violate(comp, "seal-disturbs-dst-prefix", "call %d", i)
					return
				}
				got = out[len(prefix):]
				if len(prefix) > 0 {
					run.Fault("aliasing:dst-prefix")
				}
			}
			run.Event("ascon", "seal", got)
			run.Tick(1)
			run.T("seal")
			if !bytes.Equal(got, want) {
				run.Violate(comp, "seal-differs-from-specification", "call %d on this cipher object: |ad|=%d |pt|=%d: %s, Ascon v1.2 gives %s", i, len(ad), len(pt), short(got), short(want))
				return
			}
			lastCT, lastNonce, lastAD, lastPT = want, nonce, ad, pt
		case "open":
			if lastCT == nil {
				continue
			}
			k2, nonce, ad, ct := key, append([]byte{}, lastNonce...), append([]byte{}, lastAD...), append([]byte{}, lastCT...)
			cc := c
			tampered := call.Tamper != ""
			switch call.Tamper {
			case "key":
				k2 = append([]byte{}, key...)
				k2[call.Bit/8%len(k2)] ^= 1 << (call.Bit % 8)
				cc, _ = ascon.New(k2, mode)
			case "nonce":
				nonce[call.Bit/8%16] ^= 1 << (call.Bit % 8)
			case "ad":
				if len(ad) == 0 {
					ad = []byte{byte(call.Bit)}
				} else {
					ad[call.Bit/8%len(ad)] ^= 1 << (call.Bit % 8)
				}
			case "ct":
				if len(ct) == 16 {
					tampered = false
				} else {
					ct[call.Bit/8%(len(ct)-16)] ^= 1 << (call.Bit % 8)
				}
			case "tag":
				ct[len(ct)-16+call.Bit/8%16] ^= 1 << (call.Bit % 8)
			case "trunc":
				ct = ct[:call.Bit%len(ct)]
			case "":
			default:
				run.Bad("tamper")
				return
			}
			prefix := data.Bytes(call.Prefix)
			var got []byte
			var err error
			if call.Inpl && len(ct) >= 16 {
				got, err = cc.Open(ct[:0], nonce, ct, ad)
				run.Fault("aliasing:open-in-place")
			} else {
				need := len(ct) - 16
				spare := []int{0, 1, need - 1, need, need + 3}[(call.Prefix+i)%5]
				if spare < 0 {
					spare = 0
				}
				dst := append(make([]byte, 0, len(prefix)+spare), prefix...)
				got, err = cc.Open(dst, nonce, ct, ad)
				if err == nil {
					if !bytes.Equal(got[:len(prefix)], prefix) {
						run.Violate(comp, "open-disturbs-dst-prefix", "call %d", i)
						return
					}
					got = got[len(prefix):]
				}
				if !bytes.Equal(dst[:len(prefix)], prefix) {
					run.Violate(comp, "open-disturbs-dst-prefix", "call %d: dst[:len(dst)] changed", i)
					return
				}
			}
			run.Event("ascon", "open", call.Tamper, got, err)
			run.Tick(1)
			if tampered {
				run.Fault("tamper:" + call.Tamper)
				run.T("open", call.Tamper)
				if err == nil {
					run.Violate(comp, "opens-tampered-input", "call %d: %s altered (bit %d) but Open succeeded", i, call.Tamper, call.Bit)
					return
				}
				if got != nil {
					run.Violate(comp, "releases-plaintext-on-failure", "call %d: Open returned an error together with %d bytes", i, len(got))
					return
				}
			} else {
				run.T("open", "ok")
				if err != nil || !bytes.Equal(got, lastPT) {
					run.Violate(comp, "open-does-not-invert-seal", "call %d: err=%v got %s want %s", i, err, short(got), short(lastPT))
					return
				}
			}
		default:
			run.Bad("call kind")
			return
		}
	}
}

func exec(planJSON []byte, run *core.Run) {
	var p Plan
	if json.Unmarshal(planJSON, &p) != nil {
		run.Bad("json")
		return
	}
	switch {
	case p.Fam == "ascon":
		execAscon(&p, run)
	case p.Fam == "keccakx2" || p.Fam == "keccakx4":
		execPerm(&p, run)
	case len(p.Fam) > 4 && (p.Fam[:4] == "xmd-" || p.Fam[:4] == "xof-" && (p.Fam == "xof-SHAKE128" || p.Fam == "xof-SHAKE256")):
		execExpander(&p, run)
	default:
		execStream(&p, run)
	}
}

// directed: the corner lengths of the K12 tree for every lane count, written in
// one piece, byte by byte around the boundary, and in 8192-byte pieces.
func directed(tier string) []any {
	var out []any
	// every message length from 0 to two blocks and a bit, for every family with a rate
	for _, fam := range streamFams {
		param := 0
		switch fam {
		case "turboshake128", "turboshake256":
			param = 0x1f
		case "k12":
			param = 1
		}
		to := 2*rateOf(fam) + 3
		for from := 0; from < to; from += 128 {
			end := from + 128
			if end > to {
				end = to
			}
			out = append(out, &Plan{Fam: fam, Param: param, Seed: uint64(7 + from), Sweep: true, From: from, To: end})
		}
	}
	for _, lanes := range []int{1, 2, 4} {
		for _, total := range []int{8191, 8192, 8193, 2*8192 - 1, 2 * 8192, 2*8192 + 1, 3 * 8192, 4*8192 + 1, 5 * 8192, 8*8192 + 1, 9*8192 - 1, 9 * 8192, 9*8192 + 1, 12*8192 + 7, 13 * 8192, 17*8192 + 1} {
			for _, piece := range []int{total, 8192, 8191, 4096, 7919} {
				p := &Plan{Fam: "k12", Param: lanes, Seed: uint64(total)}
				for left := total; left > 0; left -= piece {
					n := piece
					if n > left {
						n = left
					}
					p.Ops = append(p.Ops, Op{K: "write", N: n})
				}
				p.Ops = append(p.Ops, Op{K: "clone"}, Op{K: "read", N: 40}, Op{K: "read", Obj: 1, N: 200})
				out = append(out, p)
			}
		}
	}
	// clone where the lane buffer has just been handed over (8192 + k*lanes*8192 bytes absorbed) and nearby,
	// both objects absorb different data afterwards; and a second message after a long first one and a Reset
	for _, lanes := range []int{1, 2, 4} {
		for k := 1; k <= 2; k++ {
			for _, d := range []int{-1, 0, 1} {
				total := 8192 + k*lanes*8192 + d
				for _, piece := range []int{total, 8192} {
					p := &Plan{Fam: "k12", Param: lanes, Seed: uint64(total + 3)}
					for left := total; left > 0; left -= piece {
						n := piece
						if n > left {
							n = left
						}
						p.Ops = append(p.Ops, Op{K: "write", N: n})
					}
					q := *p
					q.Ops = append(append([]Op{}, p.Ops...), Op{K: "reset"}, Op{K: "write", N: 17 * (1 + d)}, Op{K: "read", N: 64})
					p.Ops = append(p.Ops, Op{K: "clone"}, Op{K: "write", N: 100}, Op{K: "write", Obj: 1, N: 100}, Op{K: "read", N: 40}, Op{K: "read", Obj: 1, N: 40})
					out = append(out, p, &q)
				}
			}
		}
	}
	return out
}

func main() {
	core.Main(&core.Property{
		ID:    "C15",
		Level: "exploration",
		Rule: "seeded histories over long-lived objects: SHA3-224/256/384/512, SHAKE128/256, TurboSHAKE128/256 (D in 1..0x7f) through an overlay shim on internal/sha3; xof.XOF for all five ids; K12 with lanes 1/2/4 and customisation strings; expander XMD/XOF objects reused across calls with DST lengths around 255; keccakf1600 StateX2/X4 vs the scalar permutation per lane; Ascon-128/128a/80pq cipher objects reused across Seal/Open with dst prefixes, in-place operation and single-bit tamper faults. " +
			"Histories are 2..14 ops of Write(chunk)/Read(n)/Sum/Clone/Reset with chunk and read sizes biased to 0, 1, rate-1, rate, rate+1, 8191..8193, k*8192+-1 (k<=9), lanes*8192+-1; directed K12 corner lengths x piece sizes x lanes, clones at 8192+k*lanes*8192(+-1) continued with different data on both objects, a second message after a long one and Reset. non-trivial = a chunking/history/tamper fault fired; distinct = distinct abstract trace",
		Assumptions: []string{
			"reference models (refmodel/keccak, h2c, asconref) are pinned at start-up to x/crypto/sha3, the RFC 9861 / K12 I-D vectors, the RFC 9380 appendix K vectors and the LWC Ascon KAT files (3 x 1089 vectors)",
			"BLAKE2X reference is x/crypto/blake2b|blake2s one-shot (circl wraps the same library: only the wrapper is tested)",
			"Write after Read is a documented panic and is not generated",
			"Ascon 'releasing nothing' = returning nothing: Open documents that dst's spare capacity may be overwritten on failure",
		},
		Components: map[string]string{
			"internal/sha3 State (via overlay shim), xof, xof/k12 (lanes via overlay export), expander, simd/keccakf1600, cipher/ascon": "real",
			"caller's chunking of input and output": "stub: seeded chunking adversary",
			"specification oracles":                 "model: plain-Go Keccak-p / sponge / TurboSHAKE / KT128, RFC 9380 expanders, Ascon v1.2",
		},
		ProbeNames: []string{"write-straddled-8192-boundary", "write-straddled-lanes*8192-boundary", "squeeze-crossed-rate-boundary", "clone-between-absorb-and-squeeze", "dst-length-around-255"},
		Selftest: func() error {
			if err := keccak.Selftest(); err != nil {
				return err
			}
			if err := h2c.Selftest(core.VerifDir() + "/fixtures/rfc9380"); err != nil {
				return err
			}
			return asconref.Selftest(core.VerifDir() + "/fixtures/ascon")
		},
		Directed: directed,
		Gen:      gen,
		Exec:     exec,
		Runs:     map[string]int{"quick": 30000, "thorough": 1500000},
		WallCap:  map[string]time.Duration{"quick": 100 * time.Second, "thorough": 14 * time.Minute},
	})
}
