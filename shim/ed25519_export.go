//go:build verif

package ed25519

// A signer without the context-length limit, for the simulator (C02): other implementations
// exist, and what they sign reaches this package's verifier. Mapped into sign/ed25519 by go
// build -overlay; never committed to /repo.
func VerifSignAll(privateKey PrivateKey, message, ctx []byte, preHash bool) []byte {
	sig := make([]byte, SignatureSize)
	signAll(sig, privateKey, message, ctx, preHash)
	return sig
}
