#!/bin/bash
# C11 build step: instrument a copy of /repo's current sources for the seeded
# scheduler (yieldgen), then build the three engines: histories (plain), schedules
# (instrumented), schedules with the race detector (instrumented, -race).
set -u
export GOFLAGS=-mod=mod GOPROXY=off GOSUMDB=off GOTOOLCHAIN=local
SCR="$1"
V="$(cd "$(dirname "$0")/../../.." && pwd)"
REPO="${VERIF_REPO:-/repo}"
cd "$V/sim" || exit 2
go build -o "$SCR/yieldgen" ./cmd/yieldgen || exit 2
"$SCR/yieldgen" "$REPO" "$SCR/instr" "$SCR/instr-overlay.json" "$V/shim/verifsimrt/rt.go" > "$SCR/yieldgen.log" || { cat "$SCR/yieldgen.log"; exit 2; }
"$V/bin/mkoverlay" "$SCR/plain-overlay.json" || exit 2
"$V/bin/mkoverlay" "$SCR/sched-overlay.json" "$SCR/instr-overlay.json" || exit 2
go build ${VERIF_MODFLAG:-} -tags verif -overlay "$SCR/plain-overlay.json" -o "$SCR/c11hist" ./props/c11hist &
p1=$!
go build ${VERIF_MODFLAG:-} -tags verif -overlay "$SCR/sched-overlay.json" -o "$SCR/c11sched" ./props/c11sched &
p2=$!
go build ${VERIF_MODFLAG:-} -race -tags verif -overlay "$SCR/sched-overlay.json" -o "$SCR/c11sched_race" ./props/c11sched &
p3=$!
rc=0
wait $p1 || rc=2; wait $p2 || rc=2; wait $p3 || rc=2
exit $rc
