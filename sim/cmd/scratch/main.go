package main

import (
	"fmt"

	"circlsim/refmodel/hpkeref"
)

func main() { fmt.Println(hpkeref.Selftest("/verif/fixtures/rfc9180.json")) }
