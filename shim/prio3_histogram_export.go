//go:build verif

package histogram

// Adversarial-client seam for the simulator (see shim/prio3_internal_export.go). Mapped into
// vdaf/prio3/histogram by go build -overlay; never committed to /repo.
func (x *Histogram) VerifEncode(measurement uint64) (Vec, error) { return x.p.VerifEncode(measurement) }

func (x *Histogram) VerifShardEncoded(enc Vec, nonce *Nonce, rand []byte) (PublicShare, []InputShare, error) {
	return x.p.VerifShardEncoded(enc, nonce, rand)
}
