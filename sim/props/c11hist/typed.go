package main

// Typed key APIs (Pack / Unpack on *PublicKey / *PrivateKey of the KEM and signature
// packages): histories over long-lived key objects. Generated table, one kit per package.

import (
	"bytes"

	"circlsim/core"

	"github.com/cloudflare/circl/kem/frodo/frodo640shake"
	kyber1024 "github.com/cloudflare/circl/kem/kyber/kyber1024"
	kyber512 "github.com/cloudflare/circl/kem/kyber/kyber512"
	kyber768t "github.com/cloudflare/circl/kem/kyber/kyber768"
	mlkem1024 "github.com/cloudflare/circl/kem/mlkem/mlkem1024"
	mlkem512 "github.com/cloudflare/circl/kem/mlkem/mlkem512"
	mlkem768t "github.com/cloudflare/circl/kem/mlkem/mlkem768"
	"github.com/cloudflare/circl/kem/xwing"
	mode2 "github.com/cloudflare/circl/sign/dilithium/mode2"
	mode3 "github.com/cloudflare/circl/sign/dilithium/mode3"
	mode5 "github.com/cloudflare/circl/sign/dilithium/mode5"
	eddil2 "github.com/cloudflare/circl/sign/eddilithium2"
	eddil3 "github.com/cloudflare/circl/sign/eddilithium3"
	mldsa44 "github.com/cloudflare/circl/sign/mldsa/mldsa44"
	mldsa65 "github.com/cloudflare/circl/sign/mldsa/mldsa65"
	mldsa87 "github.com/cloudflare/circl/sign/mldsa/mldsa87"
)

type typedKit struct {
	name           string
	seedLen        int
	newKeys        func(seed []byte) (pk, sk any)
	newPK, newSK   func() any
	packPK, packSK func(k any) []byte
	unpackPK       func(k any, b []byte) bool // false: refused
	unpackSK       func(k any, b []byte) bool
	use            func(pk, sk any, r *core.PRNG) []byte
	pubOf          func(sk any) any // the object sk.Public() hands out
}

var typedKits []typedKit

// outBuf: the buffer a caller hands to Pack / EncapsulateTo / SignTo style functions: fresh and
// zeroed, or (dirtyOut) one that was used before and still holds old bytes.
var dirtyOut bool

// inPlace: KEM kits also decapsulate with the secret buffer overlapping the ciphertext buffer
// (the secret written over the first bytes of a copy of the ciphertext) and append that result.
var inPlace bool

func outBuf(n int) []byte {
	b := make([]byte, n)
	if dirtyOut {
		for i := range b {
			b[i] = 0xa5 ^ byte(i)
		}
	}
	return b
}

func init() {
	typedKits = append(typedKits, typedKit{name: "kem/kyber/kyber512", seedLen: kyber512.KeySeedSize,
		newKeys: func(seed []byte) (any, any) { return kyber512.NewKeyFromSeed(seed) },
		newPK:   func() any { return new(kyber512.PublicKey) }, newSK: func() any { return new(kyber512.PrivateKey) },
		pubOf: func(sk any) any { return sk.(*kyber512.PrivateKey).Public().(*kyber512.PublicKey) },
		packPK: func(k any) []byte {
			b := outBuf(kyber512.PublicKeySize)
			k.(*kyber512.PublicKey).Pack(b)
			return b
		},
		packSK: func(k any) []byte {
			b := outBuf(kyber512.PrivateKeySize)
			k.(*kyber512.PrivateKey).Pack(b)
			return b
		},
		unpackPK: func(k any, b []byte) bool {
			if len(b) != kyber512.PublicKeySize {
				return false
			}
			k.(*kyber512.PublicKey).Unpack(b)
			return true
		},
		unpackSK: func(k any, b []byte) bool {
			if len(b) != kyber512.PrivateKeySize {
				return false
			}
			k.(*kyber512.PrivateKey).Unpack(b)
			return true
		},
		use: func(pk, sk any, r *core.PRNG) []byte {
			ct, ss, ss2 := outBuf(kyber512.CiphertextSize), outBuf(kyber512.SharedKeySize), outBuf(kyber512.SharedKeySize)
			pk.(*kyber512.PublicKey).EncapsulateTo(ct, ss, r.Bytes(kyber512.EncapsulationSeedSize))
			sk.(*kyber512.PrivateKey).DecapsulateTo(ss2, ct)
			if inPlace {
				// the same decapsulation with the secret written over the start of the ciphertext buffer
				buf := append([]byte{}, ct...)
				sk.(*kyber512.PrivateKey).DecapsulateTo(buf[:len(ss2)], buf)
				ss2 = append(ss2, buf[:len(ss2)]...)
			}
			return append(append(ct[:32:32], ss...), ss2...)
		}})
	typedKits = append(typedKits, typedKit{name: "kem/kyber/kyber768", seedLen: kyber768t.KeySeedSize,
		newKeys: func(seed []byte) (any, any) { return kyber768t.NewKeyFromSeed(seed) },
		newPK:   func() any { return new(kyber768t.PublicKey) }, newSK: func() any { return new(kyber768t.PrivateKey) },
		pubOf: func(sk any) any { return sk.(*kyber768t.PrivateKey).Public().(*kyber768t.PublicKey) },
		packPK: func(k any) []byte {
			b := outBuf(kyber768t.PublicKeySize)
			k.(*kyber768t.PublicKey).Pack(b)
			return b
		},
		packSK: func(k any) []byte {
			b := outBuf(kyber768t.PrivateKeySize)
			k.(*kyber768t.PrivateKey).Pack(b)
			return b
		},
		unpackPK: func(k any, b []byte) bool {
			if len(b) != kyber768t.PublicKeySize {
				return false
			}
			k.(*kyber768t.PublicKey).Unpack(b)
			return true
		},
		unpackSK: func(k any, b []byte) bool {
			if len(b) != kyber768t.PrivateKeySize {
				return false
			}
			k.(*kyber768t.PrivateKey).Unpack(b)
			return true
		},
		use: func(pk, sk any, r *core.PRNG) []byte {
			ct, ss, ss2 := outBuf(kyber768t.CiphertextSize), outBuf(kyber768t.SharedKeySize), outBuf(kyber768t.SharedKeySize)
			pk.(*kyber768t.PublicKey).EncapsulateTo(ct, ss, r.Bytes(kyber768t.EncapsulationSeedSize))
			sk.(*kyber768t.PrivateKey).DecapsulateTo(ss2, ct)
			if inPlace {
				// the same decapsulation with the secret written over the start of the ciphertext buffer
				buf := append([]byte{}, ct...)
				sk.(*kyber768t.PrivateKey).DecapsulateTo(buf[:len(ss2)], buf)
				ss2 = append(ss2, buf[:len(ss2)]...)
			}
			return append(append(ct[:32:32], ss...), ss2...)
		}})
	typedKits = append(typedKits, typedKit{name: "kem/kyber/kyber1024", seedLen: kyber1024.KeySeedSize,
		newKeys: func(seed []byte) (any, any) { return kyber1024.NewKeyFromSeed(seed) },
		newPK:   func() any { return new(kyber1024.PublicKey) }, newSK: func() any { return new(kyber1024.PrivateKey) },
		pubOf: func(sk any) any { return sk.(*kyber1024.PrivateKey).Public().(*kyber1024.PublicKey) },
		packPK: func(k any) []byte {
			b := outBuf(kyber1024.PublicKeySize)
			k.(*kyber1024.PublicKey).Pack(b)
			return b
		},
		packSK: func(k any) []byte {
			b := outBuf(kyber1024.PrivateKeySize)
			k.(*kyber1024.PrivateKey).Pack(b)
			return b
		},
		unpackPK: func(k any, b []byte) bool {
			if len(b) != kyber1024.PublicKeySize {
				return false
			}
			k.(*kyber1024.PublicKey).Unpack(b)
			return true
		},
		unpackSK: func(k any, b []byte) bool {
			if len(b) != kyber1024.PrivateKeySize {
				return false
			}
			k.(*kyber1024.PrivateKey).Unpack(b)
			return true
		},
		use: func(pk, sk any, r *core.PRNG) []byte {
			ct, ss, ss2 := outBuf(kyber1024.CiphertextSize), outBuf(kyber1024.SharedKeySize), outBuf(kyber1024.SharedKeySize)
			pk.(*kyber1024.PublicKey).EncapsulateTo(ct, ss, r.Bytes(kyber1024.EncapsulationSeedSize))
			sk.(*kyber1024.PrivateKey).DecapsulateTo(ss2, ct)
			if inPlace {
				// the same decapsulation with the secret written over the start of the ciphertext buffer
				buf := append([]byte{}, ct...)
				sk.(*kyber1024.PrivateKey).DecapsulateTo(buf[:len(ss2)], buf)
				ss2 = append(ss2, buf[:len(ss2)]...)
			}
			return append(append(ct[:32:32], ss...), ss2...)
		}})
	typedKits = append(typedKits, typedKit{name: "kem/mlkem/mlkem512", seedLen: mlkem512.KeySeedSize,
		newKeys: func(seed []byte) (any, any) { return mlkem512.NewKeyFromSeed(seed) },
		newPK:   func() any { return new(mlkem512.PublicKey) }, newSK: func() any { return new(mlkem512.PrivateKey) },
		pubOf: func(sk any) any { return sk.(*mlkem512.PrivateKey).Public().(*mlkem512.PublicKey) },
		packPK: func(k any) []byte {
			b := outBuf(mlkem512.PublicKeySize)
			k.(*mlkem512.PublicKey).Pack(b)
			return b
		},
		packSK: func(k any) []byte {
			b := outBuf(mlkem512.PrivateKeySize)
			k.(*mlkem512.PrivateKey).Pack(b)
			return b
		},
		unpackPK: func(k any, b []byte) bool {
			if len(b) != mlkem512.PublicKeySize {
				return false
			}
			return k.(*mlkem512.PublicKey).Unpack(b) == nil
		},
		unpackSK: func(k any, b []byte) bool {
			if len(b) != mlkem512.PrivateKeySize {
				return false
			}
			return k.(*mlkem512.PrivateKey).Unpack(b) == nil
		},
		use: func(pk, sk any, r *core.PRNG) []byte {
			ct, ss, ss2 := outBuf(mlkem512.CiphertextSize), outBuf(mlkem512.SharedKeySize), outBuf(mlkem512.SharedKeySize)
			pk.(*mlkem512.PublicKey).EncapsulateTo(ct, ss, r.Bytes(mlkem512.EncapsulationSeedSize))
			sk.(*mlkem512.PrivateKey).DecapsulateTo(ss2, ct)
			if inPlace {
				// the same decapsulation with the secret written over the start of the ciphertext buffer
				buf := append([]byte{}, ct...)
				sk.(*mlkem512.PrivateKey).DecapsulateTo(buf[:len(ss2)], buf)
				ss2 = append(ss2, buf[:len(ss2)]...)
			}
			return append(append(ct[:32:32], ss...), ss2...)
		}})
	typedKits = append(typedKits, typedKit{name: "kem/mlkem/mlkem768", seedLen: mlkem768t.KeySeedSize,
		newKeys: func(seed []byte) (any, any) { return mlkem768t.NewKeyFromSeed(seed) },
		newPK:   func() any { return new(mlkem768t.PublicKey) }, newSK: func() any { return new(mlkem768t.PrivateKey) },
		pubOf: func(sk any) any { return sk.(*mlkem768t.PrivateKey).Public().(*mlkem768t.PublicKey) },
		packPK: func(k any) []byte {
			b := outBuf(mlkem768t.PublicKeySize)
			k.(*mlkem768t.PublicKey).Pack(b)
			return b
		},
		packSK: func(k any) []byte {
			b := outBuf(mlkem768t.PrivateKeySize)
			k.(*mlkem768t.PrivateKey).Pack(b)
			return b
		},
		unpackPK: func(k any, b []byte) bool {
			if len(b) != mlkem768t.PublicKeySize {
				return false
			}
			return k.(*mlkem768t.PublicKey).Unpack(b) == nil
		},
		unpackSK: func(k any, b []byte) bool {
			if len(b) != mlkem768t.PrivateKeySize {
				return false
			}
			return k.(*mlkem768t.PrivateKey).Unpack(b) == nil
		},
		use: func(pk, sk any, r *core.PRNG) []byte {
			ct, ss, ss2 := outBuf(mlkem768t.CiphertextSize), outBuf(mlkem768t.SharedKeySize), outBuf(mlkem768t.SharedKeySize)
			pk.(*mlkem768t.PublicKey).EncapsulateTo(ct, ss, r.Bytes(mlkem768t.EncapsulationSeedSize))
			sk.(*mlkem768t.PrivateKey).DecapsulateTo(ss2, ct)
			if inPlace {
				// the same decapsulation with the secret written over the start of the ciphertext buffer
				buf := append([]byte{}, ct...)
				sk.(*mlkem768t.PrivateKey).DecapsulateTo(buf[:len(ss2)], buf)
				ss2 = append(ss2, buf[:len(ss2)]...)
			}
			return append(append(ct[:32:32], ss...), ss2...)
		}})
	typedKits = append(typedKits, typedKit{name: "kem/mlkem/mlkem1024", seedLen: mlkem1024.KeySeedSize,
		newKeys: func(seed []byte) (any, any) { return mlkem1024.NewKeyFromSeed(seed) },
		newPK:   func() any { return new(mlkem1024.PublicKey) }, newSK: func() any { return new(mlkem1024.PrivateKey) },
		pubOf: func(sk any) any { return sk.(*mlkem1024.PrivateKey).Public().(*mlkem1024.PublicKey) },
		packPK: func(k any) []byte {
			b := outBuf(mlkem1024.PublicKeySize)
			k.(*mlkem1024.PublicKey).Pack(b)
			return b
		},
		packSK: func(k any) []byte {
			b := outBuf(mlkem1024.PrivateKeySize)
			k.(*mlkem1024.PrivateKey).Pack(b)
			return b
		},
		unpackPK: func(k any, b []byte) bool {
			if len(b) != mlkem1024.PublicKeySize {
				return false
			}
			return k.(*mlkem1024.PublicKey).Unpack(b) == nil
		},
		unpackSK: func(k any, b []byte) bool {
			if len(b) != mlkem1024.PrivateKeySize {
				return false
			}
			return k.(*mlkem1024.PrivateKey).Unpack(b) == nil
		},
		use: func(pk, sk any, r *core.PRNG) []byte {
			ct, ss, ss2 := outBuf(mlkem1024.CiphertextSize), outBuf(mlkem1024.SharedKeySize), outBuf(mlkem1024.SharedKeySize)
			pk.(*mlkem1024.PublicKey).EncapsulateTo(ct, ss, r.Bytes(mlkem1024.EncapsulationSeedSize))
			sk.(*mlkem1024.PrivateKey).DecapsulateTo(ss2, ct)
			if inPlace {
				// the same decapsulation with the secret written over the start of the ciphertext buffer
				buf := append([]byte{}, ct...)
				sk.(*mlkem1024.PrivateKey).DecapsulateTo(buf[:len(ss2)], buf)
				ss2 = append(ss2, buf[:len(ss2)]...)
			}
			return append(append(ct[:32:32], ss...), ss2...)
		}})
	typedKits = append(typedKits, typedKit{name: "sign/dilithium/mode2", seedLen: mode2.SeedSize,
		newKeys: func(seed []byte) (any, any) {
			var s [mode2.SeedSize]byte
			copy(s[:], seed)
			return mode2.NewKeyFromSeed(&s)
		},
		newPK: func() any { return new(mode2.PublicKey) }, newSK: func() any { return new(mode2.PrivateKey) },
		pubOf:  func(sk any) any { return sk.(*mode2.PrivateKey).Public().(*mode2.PublicKey) },
		packPK: func(k any) []byte { var b [mode2.PublicKeySize]byte; k.(*mode2.PublicKey).Pack(&b); return b[:] },
		packSK: func(k any) []byte { var b [mode2.PrivateKeySize]byte; k.(*mode2.PrivateKey).Pack(&b); return b[:] },
		// the typed Unpack takes a pointer to the caller's array: the array handed over IS the slice's memory
		unpackPK: func(k any, b []byte) bool {
			if len(b) != mode2.PublicKeySize {
				return false
			}
			k.(*mode2.PublicKey).Unpack((*[mode2.PublicKeySize]byte)(b))
			return true
		},
		unpackSK: func(k any, b []byte) bool {
			if len(b) != mode2.PrivateKeySize {
				return false
			}
			k.(*mode2.PrivateKey).Unpack((*[mode2.PrivateKeySize]byte)(b))
			return true
		},
		use: func(pk, sk any, r *core.PRNG) []byte {
			msg := r.Bytes(24)
			sig := outBuf(mode2.SignatureSize)
			mode2.SignTo(sk.(*mode2.PrivateKey), msg, sig)
			ok := mode2.Verify(pk.(*mode2.PublicKey), msg, sig)
			out := append([]byte{}, sig[:48]...)
			if ok {
				return append(out, 1)
			}
			return append(out, 0)
		}})
	typedKits = append(typedKits, typedKit{name: "sign/dilithium/mode3", seedLen: mode3.SeedSize,
		newKeys: func(seed []byte) (any, any) {
			var s [mode3.SeedSize]byte
			copy(s[:], seed)
			return mode3.NewKeyFromSeed(&s)
		},
		newPK: func() any { return new(mode3.PublicKey) }, newSK: func() any { return new(mode3.PrivateKey) },
		pubOf:  func(sk any) any { return sk.(*mode3.PrivateKey).Public().(*mode3.PublicKey) },
		packPK: func(k any) []byte { var b [mode3.PublicKeySize]byte; k.(*mode3.PublicKey).Pack(&b); return b[:] },
		packSK: func(k any) []byte { var b [mode3.PrivateKeySize]byte; k.(*mode3.PrivateKey).Pack(&b); return b[:] },
		// the typed Unpack takes a pointer to the caller's array: the array handed over IS the slice's memory
		unpackPK: func(k any, b []byte) bool {
			if len(b) != mode3.PublicKeySize {
				return false
			}
			k.(*mode3.PublicKey).Unpack((*[mode3.PublicKeySize]byte)(b))
			return true
		},
		unpackSK: func(k any, b []byte) bool {
			if len(b) != mode3.PrivateKeySize {
				return false
			}
			k.(*mode3.PrivateKey).Unpack((*[mode3.PrivateKeySize]byte)(b))
			return true
		},
		use: func(pk, sk any, r *core.PRNG) []byte {
			msg := r.Bytes(24)
			sig := outBuf(mode3.SignatureSize)
			mode3.SignTo(sk.(*mode3.PrivateKey), msg, sig)
			ok := mode3.Verify(pk.(*mode3.PublicKey), msg, sig)
			out := append([]byte{}, sig[:48]...)
			if ok {
				return append(out, 1)
			}
			return append(out, 0)
		}})
	typedKits = append(typedKits, typedKit{name: "sign/dilithium/mode5", seedLen: mode5.SeedSize,
		newKeys: func(seed []byte) (any, any) {
			var s [mode5.SeedSize]byte
			copy(s[:], seed)
			return mode5.NewKeyFromSeed(&s)
		},
		newPK: func() any { return new(mode5.PublicKey) }, newSK: func() any { return new(mode5.PrivateKey) },
		pubOf:  func(sk any) any { return sk.(*mode5.PrivateKey).Public().(*mode5.PublicKey) },
		packPK: func(k any) []byte { var b [mode5.PublicKeySize]byte; k.(*mode5.PublicKey).Pack(&b); return b[:] },
		packSK: func(k any) []byte { var b [mode5.PrivateKeySize]byte; k.(*mode5.PrivateKey).Pack(&b); return b[:] },
		// the typed Unpack takes a pointer to the caller's array: the array handed over IS the slice's memory
		unpackPK: func(k any, b []byte) bool {
			if len(b) != mode5.PublicKeySize {
				return false
			}
			k.(*mode5.PublicKey).Unpack((*[mode5.PublicKeySize]byte)(b))
			return true
		},
		unpackSK: func(k any, b []byte) bool {
			if len(b) != mode5.PrivateKeySize {
				return false
			}
			k.(*mode5.PrivateKey).Unpack((*[mode5.PrivateKeySize]byte)(b))
			return true
		},
		use: func(pk, sk any, r *core.PRNG) []byte {
			msg := r.Bytes(24)
			sig := outBuf(mode5.SignatureSize)
			mode5.SignTo(sk.(*mode5.PrivateKey), msg, sig)
			ok := mode5.Verify(pk.(*mode5.PublicKey), msg, sig)
			out := append([]byte{}, sig[:48]...)
			if ok {
				return append(out, 1)
			}
			return append(out, 0)
		}})
	typedKits = append(typedKits, typedKit{name: "sign/mldsa/mldsa44", seedLen: mldsa44.SeedSize,
		newKeys: func(seed []byte) (any, any) {
			var s [mldsa44.SeedSize]byte
			copy(s[:], seed)
			return mldsa44.NewKeyFromSeed(&s)
		},
		newPK: func() any { return new(mldsa44.PublicKey) }, newSK: func() any { return new(mldsa44.PrivateKey) },
		pubOf:  func(sk any) any { return sk.(*mldsa44.PrivateKey).Public().(*mldsa44.PublicKey) },
		packPK: func(k any) []byte { var b [mldsa44.PublicKeySize]byte; k.(*mldsa44.PublicKey).Pack(&b); return b[:] },
		packSK: func(k any) []byte { var b [mldsa44.PrivateKeySize]byte; k.(*mldsa44.PrivateKey).Pack(&b); return b[:] },
		// the typed Unpack takes a pointer to the caller's array: the array handed over IS the slice's memory
		unpackPK: func(k any, b []byte) bool {
			if len(b) != mldsa44.PublicKeySize {
				return false
			}
			k.(*mldsa44.PublicKey).Unpack((*[mldsa44.PublicKeySize]byte)(b))
			return true
		},
		unpackSK: func(k any, b []byte) bool {
			if len(b) != mldsa44.PrivateKeySize {
				return false
			}
			k.(*mldsa44.PrivateKey).Unpack((*[mldsa44.PrivateKeySize]byte)(b))
			return true
		},
		use: func(pk, sk any, r *core.PRNG) []byte {
			msg := r.Bytes(24)
			sig := outBuf(mldsa44.SignatureSize)
			mldsa44.SignTo(sk.(*mldsa44.PrivateKey), msg, nil, false, sig)
			ok := mldsa44.Verify(pk.(*mldsa44.PublicKey), msg, nil, sig)
			out := append([]byte{}, sig[:48]...)
			if ok {
				return append(out, 1)
			}
			return append(out, 0)
		}})
	typedKits = append(typedKits, typedKit{name: "sign/mldsa/mldsa65", seedLen: mldsa65.SeedSize,
		newKeys: func(seed []byte) (any, any) {
			var s [mldsa65.SeedSize]byte
			copy(s[:], seed)
			return mldsa65.NewKeyFromSeed(&s)
		},
		newPK: func() any { return new(mldsa65.PublicKey) }, newSK: func() any { return new(mldsa65.PrivateKey) },
		pubOf:  func(sk any) any { return sk.(*mldsa65.PrivateKey).Public().(*mldsa65.PublicKey) },
		packPK: func(k any) []byte { var b [mldsa65.PublicKeySize]byte; k.(*mldsa65.PublicKey).Pack(&b); return b[:] },
		packSK: func(k any) []byte { var b [mldsa65.PrivateKeySize]byte; k.(*mldsa65.PrivateKey).Pack(&b); return b[:] },
		// the typed Unpack takes a pointer to the caller's array: the array handed over IS the slice's memory
		unpackPK: func(k any, b []byte) bool {
			if len(b) != mldsa65.PublicKeySize {
				return false
			}
			k.(*mldsa65.PublicKey).Unpack((*[mldsa65.PublicKeySize]byte)(b))
			return true
		},
		unpackSK: func(k any, b []byte) bool {
			if len(b) != mldsa65.PrivateKeySize {
				return false
			}
			k.(*mldsa65.PrivateKey).Unpack((*[mldsa65.PrivateKeySize]byte)(b))
			return true
		},
		use: func(pk, sk any, r *core.PRNG) []byte {
			msg := r.Bytes(24)
			sig := outBuf(mldsa65.SignatureSize)
			mldsa65.SignTo(sk.(*mldsa65.PrivateKey), msg, nil, false, sig)
			ok := mldsa65.Verify(pk.(*mldsa65.PublicKey), msg, nil, sig)
			out := append([]byte{}, sig[:48]...)
			if ok {
				return append(out, 1)
			}
			return append(out, 0)
		}})
	typedKits = append(typedKits, typedKit{name: "sign/mldsa/mldsa87", seedLen: mldsa87.SeedSize,
		newKeys: func(seed []byte) (any, any) {
			var s [mldsa87.SeedSize]byte
			copy(s[:], seed)
			return mldsa87.NewKeyFromSeed(&s)
		},
		newPK: func() any { return new(mldsa87.PublicKey) }, newSK: func() any { return new(mldsa87.PrivateKey) },
		pubOf:  func(sk any) any { return sk.(*mldsa87.PrivateKey).Public().(*mldsa87.PublicKey) },
		packPK: func(k any) []byte { var b [mldsa87.PublicKeySize]byte; k.(*mldsa87.PublicKey).Pack(&b); return b[:] },
		packSK: func(k any) []byte { var b [mldsa87.PrivateKeySize]byte; k.(*mldsa87.PrivateKey).Pack(&b); return b[:] },
		// the typed Unpack takes a pointer to the caller's array: the array handed over IS the slice's memory
		unpackPK: func(k any, b []byte) bool {
			if len(b) != mldsa87.PublicKeySize {
				return false
			}
			k.(*mldsa87.PublicKey).Unpack((*[mldsa87.PublicKeySize]byte)(b))
			return true
		},
		unpackSK: func(k any, b []byte) bool {
			if len(b) != mldsa87.PrivateKeySize {
				return false
			}
			k.(*mldsa87.PrivateKey).Unpack((*[mldsa87.PrivateKeySize]byte)(b))
			return true
		},
		use: func(pk, sk any, r *core.PRNG) []byte {
			msg := r.Bytes(24)
			sig := outBuf(mldsa87.SignatureSize)
			mldsa87.SignTo(sk.(*mldsa87.PrivateKey), msg, nil, false, sig)
			ok := mldsa87.Verify(pk.(*mldsa87.PublicKey), msg, nil, sig)
			out := append([]byte{}, sig[:48]...)
			if ok {
				return append(out, 1)
			}
			return append(out, 0)
		}})
	typedKits = append(typedKits, typedKit{name: "sign/eddilithium2", seedLen: eddil2.SeedSize,
		newKeys: func(seed []byte) (any, any) {
			var s [eddil2.SeedSize]byte
			copy(s[:], seed)
			return eddil2.NewKeyFromSeed(&s)
		},
		newPK: func() any { return new(eddil2.PublicKey) }, newSK: func() any { return new(eddil2.PrivateKey) },
		pubOf:  func(sk any) any { return sk.(*eddil2.PrivateKey).Public().(*eddil2.PublicKey) },
		packPK: func(k any) []byte { var b [eddil2.PublicKeySize]byte; k.(*eddil2.PublicKey).Pack(&b); return b[:] },
		packSK: func(k any) []byte { var b [eddil2.PrivateKeySize]byte; k.(*eddil2.PrivateKey).Pack(&b); return b[:] },
		// the typed Unpack takes a pointer to the caller's array: the array handed over IS the slice's memory
		unpackPK: func(k any, b []byte) bool {
			if len(b) != eddil2.PublicKeySize {
				return false
			}
			k.(*eddil2.PublicKey).Unpack((*[eddil2.PublicKeySize]byte)(b))
			return true
		},
		unpackSK: func(k any, b []byte) bool {
			if len(b) != eddil2.PrivateKeySize {
				return false
			}
			k.(*eddil2.PrivateKey).Unpack((*[eddil2.PrivateKeySize]byte)(b))
			return true
		},
		use: func(pk, sk any, r *core.PRNG) []byte {
			msg := r.Bytes(24)
			sig := outBuf(eddil2.SignatureSize)
			eddil2.SignTo(sk.(*eddil2.PrivateKey), msg, sig)
			ok := eddil2.Verify(pk.(*eddil2.PublicKey), msg, sig)
			out := append([]byte{}, sig[:48]...)
			if ok {
				return append(out, 1)
			}
			return append(out, 0)
		}})
	typedKits = append(typedKits, typedKit{name: "sign/eddilithium3", seedLen: eddil3.SeedSize,
		newKeys: func(seed []byte) (any, any) {
			var s [eddil3.SeedSize]byte
			copy(s[:], seed)
			return eddil3.NewKeyFromSeed(&s)
		},
		newPK: func() any { return new(eddil3.PublicKey) }, newSK: func() any { return new(eddil3.PrivateKey) },
		pubOf:  func(sk any) any { return sk.(*eddil3.PrivateKey).Public().(*eddil3.PublicKey) },
		packPK: func(k any) []byte { var b [eddil3.PublicKeySize]byte; k.(*eddil3.PublicKey).Pack(&b); return b[:] },
		packSK: func(k any) []byte { var b [eddil3.PrivateKeySize]byte; k.(*eddil3.PrivateKey).Pack(&b); return b[:] },
		// the typed Unpack takes a pointer to the caller's array: the array handed over IS the slice's memory
		unpackPK: func(k any, b []byte) bool {
			if len(b) != eddil3.PublicKeySize {
				return false
			}
			k.(*eddil3.PublicKey).Unpack((*[eddil3.PublicKeySize]byte)(b))
			return true
		},
		unpackSK: func(k any, b []byte) bool {
			if len(b) != eddil3.PrivateKeySize {
				return false
			}
			k.(*eddil3.PrivateKey).Unpack((*[eddil3.PrivateKeySize]byte)(b))
			return true
		},
		use: func(pk, sk any, r *core.PRNG) []byte {
			msg := r.Bytes(24)
			sig := outBuf(eddil3.SignatureSize)
			eddil3.SignTo(sk.(*eddil3.PrivateKey), msg, sig)
			ok := eddil3.Verify(pk.(*eddil3.PublicKey), msg, sig)
			out := append([]byte{}, sig[:48]...)
			if ok {
				return append(out, 1)
			}
			return append(out, 0)
		}})
	typedKits = append(typedKits, typedKit{name: "kem/frodo/frodo640shake", seedLen: frodo640shake.KeySeedSize,
		newKeys: func(seed []byte) (any, any) {
			pk, sk := frodo640shake.Scheme().DeriveKeyPair(seed)
			return pk.(*frodo640shake.PublicKey), sk.(*frodo640shake.PrivateKey)
		},
		newPK: func() any { return new(frodo640shake.PublicKey) }, newSK: func() any { return new(frodo640shake.PrivateKey) },
		pubOf: func(sk any) any { return sk.(*frodo640shake.PrivateKey).Public().(*frodo640shake.PublicKey) },
		packPK: func(k any) []byte {
			b := outBuf(frodo640shake.PublicKeySize)
			k.(*frodo640shake.PublicKey).Pack(b)
			return b
		},
		packSK: func(k any) []byte {
			b := outBuf(frodo640shake.PrivateKeySize)
			k.(*frodo640shake.PrivateKey).Pack(b)
			return b
		},
		unpackPK: func(k any, b []byte) bool {
			if len(b) != frodo640shake.PublicKeySize {
				return false
			}
			k.(*frodo640shake.PublicKey).Unpack(b)
			return true
		},
		unpackSK: func(k any, b []byte) bool {
			if len(b) != frodo640shake.PrivateKeySize {
				return false
			}
			k.(*frodo640shake.PrivateKey).Unpack(b)
			return true
		},
		use: func(pk, sk any, r *core.PRNG) []byte {
			ct, ss, ss2 := outBuf(frodo640shake.CiphertextSize), outBuf(frodo640shake.SharedKeySize), outBuf(frodo640shake.SharedKeySize)
			pk.(*frodo640shake.PublicKey).EncapsulateTo(ct, ss, r.Bytes(frodo640shake.EncapsulationSeedSize))
			sk.(*frodo640shake.PrivateKey).DecapsulateTo(ss2, ct)
			if inPlace {
				// the same decapsulation with the secret written over the start of the ciphertext buffer
				buf := append([]byte{}, ct...)
				sk.(*frodo640shake.PrivateKey).DecapsulateTo(buf[:len(ss2)], buf)
				ss2 = append(ss2, buf[:len(ss2)]...)
			}
			return append(append(ct[:32:32], ss...), ss2...)
		}})
	typedKits = append(typedKits, typedKit{name: "kem/xwing", seedLen: xwing.SeedSize,
		newKeys: func(seed []byte) (any, any) { sk, pk := xwing.DeriveKeyPair(seed); return pk, sk },
		newPK:   func() any { return new(xwing.PublicKey) }, newSK: func() any { return new(xwing.PrivateKey) },
		pubOf:  func(sk any) any { return sk.(*xwing.PrivateKey).Public().(*xwing.PublicKey) },
		packPK: func(k any) []byte { b := outBuf(xwing.PublicKeySize); k.(*xwing.PublicKey).Pack(b); return b },
		packSK: func(k any) []byte { b := outBuf(xwing.PrivateKeySize); k.(*xwing.PrivateKey).Pack(b); return b },
		unpackPK: func(k any, b []byte) bool {
			if len(b) != xwing.PublicKeySize {
				return false
			}
			return k.(*xwing.PublicKey).Unpack(b) == nil
		},
		unpackSK: func(k any, b []byte) bool {
			if len(b) != xwing.PrivateKeySize {
				return false
			}
			k.(*xwing.PrivateKey).Unpack(b)
			return true
		},
		use: func(pk, sk any, r *core.PRNG) []byte {
			ct, ss, ss2 := outBuf(xwing.CiphertextSize), outBuf(xwing.SharedKeySize), outBuf(xwing.SharedKeySize)
			pk.(*xwing.PublicKey).EncapsulateTo(ct, ss, r.Bytes(xwing.EncapsulationSeedSize))
			sk.(*xwing.PrivateKey).DecapsulateTo(ss2, ct)
			if inPlace {
				// the same decapsulation with the secret written over the start of the ciphertext buffer
				buf := append([]byte{}, ct...)
				sk.(*xwing.PrivateKey).DecapsulateTo(buf[:len(ss2)], buf)
				ss2 = append(ss2, buf[:len(ss2)]...)
			}
			return append(append(ct[:32:32], ss...), ss2...)
		}})
}

// typedFamily: for every kit, a history over two key pairs A and B.
func typedFamily() *family {
	f := &family{name: "typed-keys"}
	for i := range typedKits {
		k := typedKits[i]
		f.ops = append(f.ops, opDef{k.name, "", nil, func(r any, _ []any, imm uint64) any {
			typedHistory(r.(*core.Run), &k, imm)
			return nil
		}})
	}
	return f
}

func typedHistory(run *core.Run, k *typedKit, imm uint64) {
	comp := "hist[typed-keys]." + k.name
	r := core.NewPRNG(imm)
	seedA, seedB := r.Bytes(k.seedLen), r.Bytes(k.seedLen)
	pkA, skA := k.newKeys(seedA)
	pkB, skB := k.newKeys(seedB)
	bA, sA, bB, sB := k.packPK(pkA), k.packSK(skA), k.packPK(pkB), k.packSK(skB)
	useSeed := r.Uint64()
	// baselines on objects that are never touched again
	fa, fsa := k.newPK(), k.newSK()
	fb, fsb := k.newPK(), k.newSK()
	if !k.unpackPK(fa, append([]byte{}, bA...)) || !k.unpackSK(fsa, append([]byte{}, sA...)) || !k.unpackPK(fb, append([]byte{}, bB...)) || !k.unpackSK(fsb, append([]byte{}, sB...)) {
		run.Violate(comp, "rejects-own-encoding", "a packed key does not unpack")
		return
	}
	tA := k.use(fa, fsa, core.NewPRNG(useSeed))
	tB := k.use(fb, fsb, core.NewPRNG(useSeed))
	// output buffers that were used before: what is written must not depend on what they held
	dirtyOut = true
	dA, dsA, dtA := k.packPK(pkA), k.packSK(skA), k.use(fa, fsa, core.NewPRNG(useSeed))
	dirtyOut = false
	run.Fault("history:output-buffer-used-before")
	inPlace = true
	ip := k.use(fa, fsa, core.NewPRNG(useSeed))
	inPlace = false
	if len(ip) > len(tA) {
		// a KEM kit: the tail is the secret of the overlapping call, the bytes before it the
		// secret of the ordinary one
		extra := ip[len(tA):]
		if !bytes.Equal(ip[:len(tA)], tA) || !bytes.Equal(extra, tA[len(tA)-len(extra):]) {
			run.Violate(comp, "result-depends-on-buffer-overlap", "decapsulating with the secret buffer laid over the start of the ciphertext buffer gives another secret than with separate buffers")
			return
		}
		run.Fault("aliasing:secret-buffer-overlaps-ciphertext")
	}
	if !bytes.Equal(dA, bA) || !bytes.Equal(dsA, sA) || !bytes.Equal(dtA, tA) {
		run.Violate(comp, "output-depends-on-old-buffer-contents", "packing a key or encapsulating / signing into a buffer that held other bytes gives another result than into a zeroed one (public key equal=%v, private key equal=%v, use equal=%v)", bytes.Equal(dA, bA), bytes.Equal(dsA, sA), bytes.Equal(dtA, tA))
		return
	}
	if !bytes.Equal(k.use(pkA, skA, core.NewPRNG(useSeed)), tA) {
		run.Violate(comp, "decode-into-fresh-object-differs", "keys restored from their packed form behave differently from the generated ones")
		return
	}
	siblings := func(when string) bool {
		// B's objects and the untouched halves must be what they were
		if !bytes.Equal(k.packPK(pkB), bB) || !bytes.Equal(k.packSK(skB), sB) {
			run.Violate(comp, "operation-modifies-another-object", "%s: another key pair's objects pack differently", when)
			return false
		}
		return true
	}
	run.Fault("history:typed-key-object-reused")
	// 1. optionally a refused / garbage decode into A's public-key object first
	if imm&1 == 1 {
		junk := core.NewPRNG(imm ^ 0xbad).Bytes(len(bA))
		for i := range junk {
			junk[i] |= 0xf0
		}
		core.Try(func() { k.unpackPK(pkA, junk) })
		// the private key that was generated together with pkA is a different object
		if !bytes.Equal(k.packSK(skA), sA) || !bytes.Equal(k.use(fa, skA, core.NewPRNG(useSeed)), tA) {
			run.Violate(comp, "operation-modifies-another-object", "after a refused / garbage Unpack into the public-key object returned by key generation, the private key from the same call packs or behaves differently")
			return
		}
	}
	// 2. key B into the object that held A, from a buffer that is recycled at once
	buf := append([]byte{}, bB...)
	if !k.unpackPK(pkA, buf) {
		run.Violate(comp, "decode-into-used-object-fails", "public key")
		return
	}
	core.Recycle(buf)
	if !bytes.Equal(k.packPK(pkA), bB) {
		run.Violate(comp, "retains-the-callers-buffer-or-stale-state", "a public key unpacked into a used object from a buffer that is then reused packs differently from the key")
		return
	}
	if !bytes.Equal(k.packSK(skA), sA) || !bytes.Equal(k.use(fa, skA, core.NewPRNG(useSeed)), tA) {
		run.Violate(comp, "operation-modifies-another-object", "after Unpack of another key into the public-key object returned by key generation, the private key from the same call packs or behaves differently")
		return
	}
	if !bytes.Equal(k.use(pkA, fsb, core.NewPRNG(useSeed)), tB) {
		run.Violate(comp, "decode-into-used-object-differs", "public key B decoded into the object that held A behaves differently from B decoded into a fresh object")
		return
	}
	if !siblings("after Unpack into A's public key") {
		return
	}
	// 3. the same for the private key
	sbuf := append([]byte{}, sB...)
	if !k.unpackSK(skA, sbuf) {
		run.Violate(comp, "decode-into-used-object-fails", "private key")
		return
	}
	core.Recycle(sbuf)
	if !bytes.Equal(k.packSK(skA), sB) {
		run.Violate(comp, "retains-the-callers-buffer-or-stale-state", "a private key unpacked into a used object from a buffer that is then reused packs differently from the key")
		return
	}
	if !bytes.Equal(k.use(fb, skA, core.NewPRNG(useSeed)), tB) {
		run.Violate(comp, "decode-into-used-object-differs", "private key B decoded into the object that held A behaves differently from B decoded into a fresh object")
		return
	}
	if !siblings("after Unpack into A's private key") {
		return
	}
	// 3b. the object Public() hands out is the caller's: decoding another key (or garbage) into
	// it leaves the private key as it was
	if k.pubOf != nil {
		skC := k.newSK()
		if !k.unpackSK(skC, append([]byte{}, sB...)) {
			return
		}
		out := k.pubOf(skC)
		if !bytes.Equal(k.packPK(out), bB) {
			run.Violate(comp, "public-of-restored-key-differs", "Public() of a private key restored from bytes packs differently from the public key")
			return
		}
		junk := core.NewPRNG(imm ^ 0xbad2).Bytes(len(bB))
		core.Try(func() { k.unpackPK(out, junk) })
		k.unpackPK(out, append([]byte{}, bA...))
		if !bytes.Equal(k.packSK(skC), sB) || !bytes.Equal(k.use(fb, skC, core.NewPRNG(useSeed)), tB) {
			run.Violate(comp, "modifying-a-returned-value-changes-later-results", "decoding another key into the object returned by Public() changed the private key it came from")
			return
		}
		if again := k.pubOf(skC); !bytes.Equal(k.packPK(again), bB) {
			run.Violate(comp, "modifying-a-returned-value-changes-later-results", "Public() returns another key after the object it returned earlier was overwritten by its holder")
			return
		}
	}
	// 3c. the other direction: another key decoded into the PRIVATE key object leaves the public
	// key object that was generated with it, and the one Public() handed out earlier, as they were
	pkD, skD := k.newKeys(seedA)
	var outD any
	if k.pubOf != nil {
		outD = k.pubOf(skD)
	}
	if !k.unpackSK(skD, append([]byte{}, sB...)) {
		return
	}
	if !bytes.Equal(k.packPK(pkD), bA) || !bytes.Equal(k.use(pkD, fsa, core.NewPRNG(useSeed)), tA) {
		run.Violate(comp, "operation-modifies-another-object", "after Unpack of another key into the private-key object returned by key generation, the public key from the same call packs or behaves differently")
		return
	}
	if outD != nil && (!bytes.Equal(k.packPK(outD), bA) || !bytes.Equal(k.use(outD, fsa, core.NewPRNG(useSeed)), tA)) {
		run.Violate(comp, "modifying-a-returned-value-changes-later-results", "the public key object Public() returned changes when another key is decoded into the private key it came from")
		return
	}
	// 4. packing does not hand out internal memory: scribbling over a packed copy changes nothing
	p1 := k.packPK(pkB)
	core.Recycle(p1)
	if !bytes.Equal(k.packPK(pkB), bB) {
		run.Violate(comp, "modifying-a-returned-value-changes-later-results", "the packed public key shares memory with the key")
	}
}
