// C19 — Prio3 aggregates equal the true aggregate and invalid reports are
// rejected. netsim: clients shard measurements, 2..N aggregator nodes prepare
// and aggregate, a collector unshards. Every protocol message crosses the
// transport in marshalled form; links corrupt, replace and truncate messages, a
// nonce is altered for one aggregator, malicious clients perturb a share,
// reports are lost, aggregators restart between preparation rounds.
package main

import (
	"bytes"
	"encoding/json"
	"fmt"
	"math/bits"
	"reflect"
	"time"

	"circlsim/core"

	"github.com/cloudflare/circl/vdaf/prio3/count"
	"github.com/cloudflare/circl/vdaf/prio3/histogram"
	"github.com/cloudflare/circl/vdaf/prio3/mhcv"
	"github.com/cloudflare/circl/vdaf/prio3/sum"
	"github.com/cloudflare/circl/vdaf/prio3/sumvec"
	prio3shim "github.com/cloudflare/circl/vdaf/prio3/verifshim"
)

type Params = prio3shim.Params

type Report struct {
	Meas  uint64 `json:"meas"`           // seed of the measurement
	Edge  string `json:"edge,omitempty"` // "" | zero | max
	Fault string `json:"fault,omitempty"`
	Agg   int    `json:"agg,omitempty"` // aggregator whose link is faulty
	Pos   int    `json:"pos,omitempty"`
}

type Plan struct {
	Type    string   `json:"type"` // count | sum | sumvec | histogram | mhcv | ctor
	Shares  int      `json:"shares"`
	A       uint64   `json:"a"` // sum: max; sumvec/histogram/mhcv: length
	B       uint64   `json:"b"` // sumvec: bits; mhcv: max weight; histogram: chunk length
	C       uint64   `json:"c"` // sumvec/mhcv: chunk length
	Seed    uint64   `json:"seed"`
	Reports []Report `json:"reports"`
	Restart int      `json:"restart,omitempty"` // aggregator (1-based) that restarts between prep rounds, 0 none
}

var faults = []string{"", "", "", "input-flip", "input-trunc", "input-swap", "public-flip", "nonce", "prepshare-flip", "prepshare-swap", "prepmsg-flip", "malicious-share", "lost", "client-invalid-measurement", "prepmsg-blank", "adversarial-encoding", "adversarial-encoding"}

func gen(r *core.PRNG, tier string) any {
	p := &Plan{Seed: r.Uint64()}
	p.Shares = []int{2, 2, 3, 4, 5, 8, 9, 16}[r.Intn(8)]
	if r.Chance(1, 40) {
		p.Shares = []int{33, 100, 127, 128, 200, 255}[r.Intn(6)]
	}
	switch r.Pick(14, 20, 20, 20, 20, 6) {
	case 0:
		p.Type = "count"
	case 1:
		p.Type = "sum"
		p.A = []uint64{0, 1, 2, 3, 4, 255, 256, 1000, 1<<32 - 1, 1 << 32, 1<<62 + 5, 1<<63 - 1, r.Uint64() >> uint(1+r.Intn(63))}[r.Intn(13)]
	case 2:
		p.Type = "sumvec"
		p.A, p.B, p.C = uint64(r.Range(1, 9)), uint64(r.Range(1, 10)), uint64(r.Range(1, 6))
	case 3:
		p.Type = "histogram"
		p.A, p.B = uint64(r.Range(1, 12)), uint64(r.Range(1, 6))
	case 4:
		p.Type = "mhcv"
		p.A = uint64(r.Range(1, 10))
		p.B, p.C = uint64(r.Range(1, int(p.A))), uint64(r.Range(1, 5))
	case 5:
		p.Type = "ctor"
		p.Shares = []int{0, 1, 2, 3}[r.Intn(4)]
		p.A = []uint64{0, 1, 4, 1 << 62, 1 << 63, 1<<64 - 1, 1<<63 + 12345}[r.Intn(7)]
		p.B = []uint64{0, 1, 2, 64, 65}[r.Intn(5)]
		p.C = []uint64{0, 1, 2}[r.Intn(3)]
		return p
	}
	// large circuits (64 or more gadget calls switch the proof polynomials to NTT multiplication)
	if p.Type != "count" && p.Type != "sum" && r.Chance(1, 7) {
		calls := []int{63, 64, 65, 100, 127, 128, 129, 200}[r.Intn(8)]
		chunk := []int{1, 2, 3, 5, 8}[r.Intn(5)]
		switch p.Type {
		case "sumvec":
			bits := r.Range(1, 8)
			p.A, p.B, p.C = uint64((calls*chunk+bits-1)/bits), uint64(bits), uint64(chunk)
		case "histogram":
			p.A, p.B = uint64(calls*chunk-r.Intn(chunk)), uint64(chunk)
		case "mhcv":
			p.A, p.C = uint64(calls*chunk-r.Intn(chunk)), uint64(chunk)
			p.B = uint64(r.Range(1, 4))
		}
	}
	n := r.Range(1, 8)
	if p.A > 64 {
		n = r.Range(1, 3)
	}
	for i := 0; i < n; i++ {
		rep := Report{Meas: r.Uint64(), Edge: []string{"", "", "zero", "max"}[r.Intn(4)], Agg: r.Intn(p.Shares), Pos: r.Intn(1 << 16)}
		rep.Fault = faults[r.Intn(len(faults))]
		p.Reports = append(p.Reports, rep)
	}
	if r.Chance(1, 4) {
		p.Restart = 1 + r.Intn(p.Shares)
	}
	return p
}

func directed(tier string) []any {
	var out []any
	types := []Plan{{Type: "count"}, {Type: "sum", A: 1000}, {Type: "sum", A: 1<<63 - 1}, {Type: "sum", A: 0}, {Type: "sumvec", A: 4, B: 4, C: 3}, {Type: "histogram", A: 5, B: 2}, {Type: "mhcv", A: 5, B: 2, C: 3}}
	for _, t := range types {
		for _, sh := range []int{2, 3, 9} {
			for _, f := range faults[2:] {
				p := t
				p.Shares, p.Seed = sh, 7
				p.Reports = []Report{{Meas: 1, Edge: "max"}, {Meas: 2, Fault: f, Agg: sh - 1, Pos: 13}, {Meas: 3, Edge: "zero"}, {Meas: 4, Fault: f, Agg: 0, Pos: 2}}
				p.Restart = 1
				pp := p
				out = append(out, &pp)
			}
		}
	}
	// many aggregators: every count around the places where 8-bit arithmetic on the number of
	// shares (seeds, blinds, two per aggregator) would wrap
	for _, t := range types {
		for _, sh := range []int{63, 64, 85, 86, 127, 128, 129, 200, 254, 255} {
			p := t
			p.Shares, p.Seed = sh, 13
			p.Reports = []Report{{Meas: 1, Edge: "max"}, {Meas: 2}}
			pp := p
			out = append(out, &pp)
		}
	}
	// circuits at the boundary where proof polynomials switch from schoolbook to NTT multiplication
	for _, t := range []Plan{{Type: "histogram", A: 126, B: 2}, {Type: "histogram", A: 128, B: 2}, {Type: "histogram", A: 130, B: 2}, {Type: "histogram", A: 400, B: 3},
		{Type: "sumvec", A: 16, B: 8, C: 2}, {Type: "sumvec", A: 100, B: 8, C: 10}, {Type: "mhcv", A: 128, B: 2, C: 2}, {Type: "mhcv", A: 200, B: 3, C: 3}} {
		for _, sh := range []int{2, 3} {
			p := t
			p.Shares, p.Seed = sh, 11
			p.Reports = []Report{{Meas: 1, Edge: "max"}, {Meas: 2, Fault: "malicious-share", Agg: sh - 1, Pos: 13}, {Meas: 3}, {Meas: 4, Fault: "input-flip", Agg: 0, Pos: 77}}
			pp := p
			out = append(out, &pp)
		}
	}
	// constructor corner cases
	for _, c := range []Plan{{Type: "ctor", Shares: 2, A: 4, B: 0, C: 0}, {Type: "ctor", Shares: 1, A: 4, B: 2, C: 2}, {Type: "ctor", Shares: 0, A: 4, B: 2, C: 2},
		{Type: "ctor", Shares: 2, A: 1 << 63, B: 2, C: 2}, {Type: "ctor", Shares: 2, A: 1<<64 - 1, B: 64, C: 1}, {Type: "ctor", Shares: 2, A: 0, B: 1, C: 1}, {Type: "ctor", Shares: 2, A: 4, B: 65, C: 1}} {
		cc := c
		out = append(out, &cc)
	}
	return out
}

// ---- generic protocol driver ----

type vdaf[M, A, AggShare, InputShare, OutShare, PrepShare, PrepState any] interface {
	Params() Params
	Shard(M, *count.Nonce, []byte) (count.PublicShare, []InputShare, error)
	PrepInit(*count.VerifyKey, *count.Nonce, uint8, count.PublicShare, InputShare) (*PrepState, *PrepShare, error)
	PrepSharesToPrep([]PrepShare) (*count.PrepMessage, error)
	PrepNext(*PrepState, *count.PrepMessage) (*OutShare, error)
	AggregateInit() AggShare
	AggregateUpdate(*AggShare, *OutShare)
	Unshard([]AggShare, uint) (*A, error)
}

type marshaler interface {
	MarshalBinary() ([]byte, error)
	UnmarshalBinary([]byte) error
}

// ship marshals x, lets the link corrupt the bytes, and unmarshals into a fresh
// value allocated with New(params[, aggID]). It returns nil if decoding fails.
func ship[T any](run *core.Run, comp string, x *T, par *Params, corrupt func([]byte) []byte, extra ...uint) (*T, bool) {
	b, err := any(x).(marshaler).MarshalBinary()
	if err != nil {
		run.Violate(comp, "marshal-error", "%T: %v", x, err)
		return nil, false
	}
	intact := corrupt == nil
	y := new(T)
	if n, ok := any(y).(interface{ New(*Params) *T }); ok {
		n.New(par)
	} else if n, ok := any(y).(interface{ New(*Params, uint) *T }); ok {
		n.New(par, extra[0])
	}
	// the sender queues this encoding and encodes something else (here: an empty message of the
	// same type) before the first is sent: what a marshaler returned stays what it was
	keep := append([]byte{}, b...)
	core.Try(func() { _, _ = any(y).(marshaler).MarshalBinary() })
	if !bytes.Equal(b, keep) {
		run.Violate(comp, "returned-encoding-overwritten-by-a-later-call", "%T: the %d bytes returned by MarshalBinary changed when another message was marshalled", x, len(b))
		return nil, false
	}
	if corrupt != nil {
		b = corrupt(append([]byte{}, b...))
	}
	var uerr error
	rbuf := append([]byte{}, b...)
	pan, v, st := core.Try(func() { uerr = any(y).(marshaler).UnmarshalBinary(rbuf) })
	core.Recycle(rbuf) // the receive buffer is reused once the message is decoded
	if pan {
		run.Violate(comp, core.PanicClass(v), "%T.UnmarshalBinary of %d bytes: %s at %s", y, len(b), v, st)
		return nil, false
	}
	if uerr != nil {
		if intact {
			run.Violate(comp, "message-does-not-survive-marshalling", "%T: %v", y, uerr)
			return nil, false
		}
		return nil, true
	}
	if intact {
		b2, _ := any(y).(marshaler).MarshalBinary()
		if string(b2) != string(b) {
			run.Violate(comp, "message-does-not-survive-marshalling", "%T re-marshals differently", y)
			return nil, false
		}
	}
	return y, true
}

func flipAt(pos int) func([]byte) []byte {
	return func(b []byte) []byte {
		if len(b) == 0 {
			return []byte{1}
		}
		i := pos % (len(b) * 8)
		b[i/8] ^= 1 << (i % 8)
		return b
	}
}

func runVDAF[M, A, AggShare, InputShare, OutShare, PrepShare, PrepState any](
	p *Plan, run *core.Run, comp string,
	v vdaf[M, A, AggShare, InputShare, OutShare, PrepShare, PrepState], // the aggregators' and the collector's instance
	vc vdaf[M, A, AggShare, InputShare, OutShare, PrepShare, PrepState], // the clients' instance (another process: an object of its own)
	meas func(seed uint64, edge string) M,
	plain func(accepted []M) A,
	invalid func(seed uint64) (M, bool), // a measurement outside the valid set, if the type has one
	// adversarial: a malicious client that encodes m, moves the encoding out of the valid set
	// (variant), and runs the honest prover and sharding on the result (nil: not available)
	adversarial func(m M, variant int, nonce *count.Nonce, rnd []byte) (count.PublicShare, []InputShare, string, error),
) {
	par := v.Params()
	shares := int(par.Shares())
	data := core.NewPRNG(p.Seed)
	var vk count.VerifyKey
	copy(vk[:], data.Bytes(len(vk)))
	aggs := make([]AggShare, shares)
	for i := range aggs {
		aggs[i] = v.AggregateInit()
	}
	var accepted []M
	hasJR := par.JointRandLength() > 0
	trivial := par.MeasurementLength() == 0 // e.g. Sum with bound 0: nothing to prove, nothing a fault could break
	type pending struct {
		m      M
		pub    count.PublicShare
		inputs []InputShare
		nonce  count.Nonce
	}
	var prev *pending
	for ri, rep := range p.Reports {
		m := meas(rep.Meas, rep.Edge)
		badMeas := false
		if rep.Fault == "client-invalid-measurement" {
			if bm, ok := invalid(rep.Meas); ok {
				m, badMeas = bm, true
			} else {
				rep.Fault = ""
			}
		}
		var nonce count.Nonce
		copy(nonce[:], data.Bytes(len(nonce)))
		randb := data.Bytes(int(par.RandSize()))
		var pub count.PublicShare
		var inputs []InputShare
		var err error
		advWhat := ""
		pan, pv, stk := core.Try(func() {
			if rep.Fault == "adversarial-encoding" && adversarial != nil {
				pub, inputs, advWhat, err = adversarial(m, rep.Pos, &nonce, randb)
				return
			}
			pub, inputs, err = vc.Shard(m, &nonce, randb)
		})
		if rep.Fault == "adversarial-encoding" && (adversarial == nil || advWhat == "") {
			rep.Fault = "" // no way to leave the valid set for this instance / variant: an honest report
			if adversarial != nil && !pan && err == nil && inputs == nil {
				pan, pv, stk = core.Try(func() { pub, inputs, err = vc.Shard(m, &nonce, randb) })
			}
		}
		if pan {
			run.Violate(comp+".Shard", core.PanicClass(pv), "report %d (measurement outside the valid set: %v): %s at %s", ri, badMeas, pv, stk)
			return
		}
		// the client refills its randomness buffer for the next report while this one is still queued
		core.Recycle(randb)
		run.Fault("history:client-randomness-buffer-refilled")
		if badMeas && err != nil {
			run.Fault("client:invalid-measurement")
			run.T("client-invalid-measurement", "refused-by-shard")
			continue // refused at the source: contributes nothing
		}
		if err != nil {
			run.Violate(comp+".Shard", "error-on-valid-measurement", "report %d: %v", ri, err)
			return
		}
		cur := &pending{m, pub, inputs, nonce}
		run.Tick(1)
		fault := rep.Fault
		agg := rep.Agg
		if agg < 0 || agg >= shares {
			agg = 0
		}
		if fault == "lost" {
			run.Fault("transport:report-lost")
			run.T("lost")
			prev = cur
			continue
		}
		if fault == "public-flip" && !hasJR {
			fault = "" // no joint randomness: the public share is empty
		}
		if (fault == "prepmsg-flip" || fault == "prepmsg-blank") && !hasJR {
			fault = ""
		}
		if fault == "input-swap" && prev == nil {
			fault = ""
		}
		if trivial && (fault == "nonce" || fault == "malicious-share" || fault == "prepshare-swap") {
			fault = ""
		}
		applied := fault != ""
		rejected := false
		// --- upload: public share and one input share per aggregator cross the transport ---
		states := make([]*PrepState, shares)
		pshares := make([]PrepShare, shares)
		for i := 0; i < shares && !rejected; i++ {
			var cPub, cIn func([]byte) []byte
			in := cur.inputs[i]
			n := cur.nonce
			if i == agg {
				switch fault {
				case "input-flip":
					cIn = flipAt(rep.Pos)
				case "input-trunc":
					cIn = func(b []byte) []byte { return b[:rep.Pos%len(b)] }
				case "input-swap":
					in = prev.inputs[i] // the share of another report
				case "public-flip":
					cPub = flipAt(rep.Pos)
				case "nonce":
					n[rep.Pos%len(n)] ^= 1 << (rep.Pos % 8)
				case "malicious-share":
					// the client perturbs one field element of this share: flip a low bit inside
					// the encoded share so that the summed measurement leaves the valid set
					cIn = func(b []byte) []byte {
						if len(b) >= 8 {
							b[(rep.Pos%(len(b)/8))*8] ^= 1
						}
						return b
					}
				}
			}
			pubR, ok := ship(run, comp+".PublicShare", &cur.pub, &par, cPub)
			if !ok {
				return
			}
			inR, ok2 := ship(run, comp+".InputShare", &in, &par, cIn, uint(i))
			if !ok2 {
				return
			}
			if pubR == nil || inR == nil {
				rejected = true // undecodable upload: the aggregator drops the report
				break
			}
			var st *PrepState
			var ps *PrepShare
			var err error
			// misconfiguration: an aggregator numbered past the last one (ids are 0..shares-1)
			if ri == 0 && i == shares-1 && shares < 255 {
				var e2 error
				if pan, _, _ := core.Try(func() { _, _, e2 = v.PrepInit(&vk, &n, uint8(shares), *pubR, *inR) }); !pan && e2 == nil {
					run.Violate(comp+".PrepInit", "accepts-aggregator-id-out-of-range", "%d aggregators (ids 0..%d): PrepInit with aggregator id %d returns no error", shares, shares-1, shares)
					return
				}
				run.Fault("misconfig:aggregator-id-out-of-range")
			}
			pan, pv, stk := core.Try(func() { st, ps, err = v.PrepInit(&vk, &n, uint8(i), *pubR, *inR) })
			if pan {
				run.Violate(comp+".PrepInit", core.PanicClass(pv), "report %d aggregator %d fault %q: %s at %s", ri, i, fault, pv, stk)
				return
			}
			if err != nil {
				if !applied {
					run.Violate(comp+".PrepInit", "error-on-valid-report", "report %d aggregator %d: %v", ri, i, err)
					return
				}
				rejected = true
				break
			}
			states[i], pshares[i] = st, *ps
			// history: the aggregator decodes the next upload into the same input-share object while
			// this report's preparation state is still pending (here: the same share with one byte
			// changed). What PrepInit returned must not depend on what happens to its argument later.
			if p.Seed%2 == 0 && !applied {
				if mm, ok := any(inR).(marshaler); ok {
					if nb, err := mm.MarshalBinary(); err == nil && len(nb) > 9 {
						nb[8] ^= 1
						core.Try(func() { _ = mm.UnmarshalBinary(nb) })
						run.Fault("history:input-share-object-reused-while-state-pending")
					}
				}
			}
		}
		// --- aggregators exchange prep shares ---
		var msg *count.PrepMessage
		if !rejected {
			exch := make([]PrepShare, shares)
			for i := range pshares {
				var c func([]byte) []byte
				if i == agg && fault == "prepshare-flip" {
					c = flipAt(rep.Pos)
				}
				r, ok := ship(run, comp+".PrepShare", &pshares[i], &par, c)
				if !ok {
					return
				}
				if r == nil {
					rejected = true
					break
				}
				exch[i] = *r
			}
			if !rejected && fault == "prepshare-swap" && shares >= 2 {
				// the same prep share delivered for two aggregators
				exch[agg] = exch[(agg+1)%shares]
			}
			if !rejected {
				var err error
				pan, pv, stk := core.Try(func() { msg, err = v.PrepSharesToPrep(exch) })
				if pan {
					run.Violate(comp+".PrepSharesToPrep", core.PanicClass(pv), "report %d fault %q: %s at %s", ri, fault, pv, stk)
					return
				}
				if err != nil {
					if !applied {
						run.Violate(comp+".PrepSharesToPrep", "rejects-valid-report", "report %d (%d aggregators): %v", ri, shares, err)
						return
					}
					rejected = true
				}
			}
		}
		// --- prep message back to every aggregator, possibly after a restart ---
		outs := make([]*OutShare, shares)
		if !rejected {
			for i := 0; i < shares; i++ {
				st := states[i]
				if p.Restart == i+1 {
					r, ok := ship(run, comp+".PrepState", st, &par, nil)
					if !ok {
						return
					}
					st = r
					run.Fault("disk:aggregator-restart-between-rounds")
				}
				var c func([]byte) []byte
				if i == agg && fault == "prepmsg-flip" {
					c = flipAt(rep.Pos)
				}
				mR, ok := ship(run, comp+".PrepMessage", msg, &par, c)
				if !ok {
					return
				}
				if mR == nil {
					rejected = true
					break
				}
				if i == agg && fault == "prepmsg-blank" {
					// the joint-randomness seed was stripped: the aggregator is handed a message without one
					mR = new(count.PrepMessage)
				}
				var o *OutShare
				var err error
				pan, pv, stk := core.Try(func() { o, err = v.PrepNext(st, mR) })
				if pan {
					run.Violate(comp+".PrepNext", core.PanicClass(pv), "report %d aggregator %d fault %q: %s at %s", ri, i, fault, pv, stk)
					return
				}
				if err != nil {
					if !applied {
						run.Violate(comp+".PrepNext", "rejects-valid-report", "report %d aggregator %d: %v", ri, i, err)
						return
					}
					rejected = true
					break
				}
				oR, ok := ship(run, comp+".OutShare", o, &par, nil)
				if !ok {
					return
				}
				outs[i] = oR
			}
		}
		run.Event("report", fmt.Sprint(ri), fault, rejected)
		if applied {
			run.Fault("transport:" + fault)
			run.T(fault, fmt.Sprint(rejected))
			if !rejected {
				run.Violate(comp, "accepts-report-after-"+fault, "report %d with fault %s %s on aggregator %d's link (pos %d) was accepted by all %d aggregators", ri, fault, advWhat, agg, rep.Pos, shares)
				return
			}
		} else {
			run.T("ok")
		}
		if !rejected {
			for i := range aggs {
				v.AggregateUpdate(&aggs[i], outs[i])
			}
			accepted = append(accepted, m)
		}
		prev = cur
	}
	if len(accepted) == 0 {
		return
	}
	// --- collect ---
	final := make([]AggShare, shares)
	for i := range aggs {
		r, ok := ship(run, comp+".AggShare", &aggs[i], &par, nil)
		if !ok {
			return
		}
		final[i] = *r
	}
	var got *A
	var err error
	pan, pv, stk := core.Try(func() { got, err = v.Unshard(final, uint(len(accepted))) })
	if pan {
		run.Violate(comp+".Unshard", core.PanicClass(pv), "%s at %s", pv, stk)
		return
	}
	if err != nil {
		run.Violate(comp+".Unshard", "error", "%v", err)
		return
	}
	want := plain(accepted)
	run.Event("collector", "unshard", fmt.Sprint(*got))
	if !reflect.DeepEqual(*got, want) {
		run.Violate(comp+".Unshard", "aggregate-differs-from-true-aggregate", "%d accepted reports over %d aggregators: got %v, true aggregate %v", len(accepted), shares, *got, want)
		return
	}
	// the same instance collects a second, empty batch: the aggregate is the aggregate of nothing,
	// and what was handed out for the first batch stays what it was
	firstCopy := fmt.Sprint(*got)
	empty := make([]AggShare, shares)
	for i := range empty {
		empty[i] = v.AggregateInit()
	}
	if got0, err0 := v.Unshard(empty, 0); err0 == nil {
		run.Fault("history:second-batch-on-the-same-instance")
		if want0 := plain(nil); !reflect.DeepEqual(*got0, want0) {
			run.Violate(comp+".Unshard", "second-batch-carries-state-of-the-first", "an empty batch collected after a batch of %d reports unshards to %v, expected %v", len(accepted), *got0, want0)
			return
		}
		if fmt.Sprint(*got) != firstCopy {
			run.Violate(comp+".Unshard", "modifying-a-returned-value-changes-later-results", "the aggregate returned for the first batch changed when a second batch was unsharded")
			return
		}
	}
	// unsharding twice and marshalling afterwards must give the same answers
	got2, err := v.Unshard(final, uint(len(accepted)))
	if err != nil || !reflect.DeepEqual(*got2, want) {
		var shown any = "nothing"
		if got2 != nil {
			shown = *got2
		}
		run.Violate(comp+".Unshard", "second-unshard-differs", "err=%v got %v want %v", err, shown, want)
	}
}

// fpElt: a field element that can be set to a small integer.
type fpElt[E any] interface {
	*E
	SetUint64(uint64) error
}

// advClient builds the malicious client of one instance: encode the (valid) measurement,
// put one element outside {0,1} or apply the instance-specific move, then prove and shard.
func advClient[M any, IS any, V ~[]E, E any, PE fpElt[E]](
	encode func(M) (V, error),
	shard func(V, *count.Nonce, []byte) (count.PublicShare, []IS, error),
	extra func(enc V, set func(i int, v uint64)) string,
) func(M, int, *count.Nonce, []byte) (count.PublicShare, []IS, string, error) {
	return func(m M, variant int, nonce *count.Nonce, rnd []byte) (count.PublicShare, []IS, string, error) {
		enc, err := encode(m)
		if err != nil || len(enc) == 0 {
			return nil, nil, "", err
		}
		set := func(i int, v uint64) { _ = PE(&enc[i]).SetUint64(v) }
		what := ""
		switch variant % 4 {
		case 0:
			set(len(enc)-1, 2)
			what = fmt.Sprintf("last of %d encoded elements set to 2", len(enc))
		case 1:
			set(0, 2)
			what = "first encoded element set to 2"
		case 2:
			i := (variant / 4) % len(enc)
			set(i, 2+uint64(variant/64)%5)
			what = fmt.Sprintf("encoded element %d of %d set outside {0,1}", i, len(enc))
		default:
			if extra != nil {
				what = extra(enc, set)
			}
			if what == "" {
				set(len(enc)-1, 3)
				what = fmt.Sprintf("last of %d encoded elements set to 3", len(enc))
			}
		}
		pub, ins, err := shard(enc, nonce, rnd)
		return pub, ins, what, err
	}
}

const fieldP64 = 18446744069414584321 // 2^64 - 2^32 + 1

func execCtor(p *Plan, run *core.Run) {
	ctx := []byte("circlsim")
	sh := uint8(p.Shares)
	type ctor struct {
		name string
		f    func() error
		must bool // parameters are degenerate: an error is required
	}
	sumDegenerate := bits.Len64(p.A) >= 64 // 2^bits >= field modulus: a valid measurement cannot be represented
	cs := []ctor{
		{"count.New", func() error { _, e := count.New(sh, ctx); return e }, sh < 2},
		{"sum.New", func() error { _, e := sum.New(sh, p.A, ctx); return e }, sh < 2 || sumDegenerate},
		// "must" lists only what the property calls degenerate: fewer than two aggregators, a zero
		// chunk length, a bound that does not fit the field; other odd parameters are no-panic only
		{"sumvec.New", func() error { _, e := sumvec.New(sh, uint(p.A%64), uint(p.B), uint(p.C), ctx); return e }, sh < 2 || p.C == 0},
		{"histogram.New", func() error { _, e := histogram.New(sh, uint(p.A%64), uint(p.C), ctx); return e }, sh < 2 || p.C == 0},
		{"mhcv.New", func() error { _, e := mhcv.New(sh, uint(p.A%64), uint(p.B), uint(p.C), ctx); return e }, sh < 2 || p.C == 0},
	}
	run.T("ctor", fmt.Sprint(p.Shares), fmt.Sprint(p.A), fmt.Sprint(p.B), fmt.Sprint(p.C))
	for _, c := range cs {
		var err error
		pan, v, st := core.Try(func() { err = c.f() })
		if c.must {
			run.Fault("config:degenerate-parameters")
		}
		if pan {
			run.Violate("prio3/"+c.name, core.PanicClass(v), "shares=%d a=%d b=%d c=%d: %s at %s", p.Shares, p.A, p.B, p.C, v, st)
			continue
		}
		run.Event("ctor", c.name, err)
		if c.must && err == nil {
			run.Violate("prio3/"+c.name, "accepts-degenerate-parameters", "shares=%d a=%d b=%d c=%d returned no error", p.Shares, p.A, p.B, p.C)
		}
	}
}

func exec(planJSON []byte, run *core.Run) {
	var p Plan
	if json.Unmarshal(planJSON, &p) != nil {
		run.Bad("json")
		return
	}
	if p.Type == "ctor" {
		execCtor(&p, run)
		return
	}
	if p.Shares < 2 || p.Shares > 255 || len(p.Reports) > 40 {
		run.Bad("params")
		return
	}
	// the application context reaches the constructor in a buffer that its owner refills afterwards
	ctx := []byte("circlsim")
	ctxBuf := append([]byte{}, ctx...)
	ctx = ctxBuf
	recycleCtx := func() {
		core.Recycle(ctxBuf)
		run.Fault("history:constructor-context-buffer-refilled")
	}
	sh := uint8(p.Shares)
	run.T(p.Type, fmt.Sprint(p.Shares))
	switch p.Type {
	case "count":
		v, err := count.New(sh, ctx)
		vc, errc := count.New(sh, append([]byte{}, ctxBuf...))
		if err == nil && errc != nil {
			panic("HARNESS: the client-side instance could not be built: " + errc.Error())
		}
		if err != nil {
			run.Violate("prio3/count.New", "error-on-valid-parameters", "%v", err)
			return
		}
		recycleCtx()
		runVDAF[bool, uint64, count.AggShare, count.InputShare, count.OutShare, count.PrepShare, count.PrepState](&p, run, "prio3/count", v, vc,
			func(s uint64, e string) bool { return e == "max" || (e == "" && s&1 == 1) },
			func(a []bool) uint64 {
				var n uint64
				for _, x := range a {
					if x {
						n++
					}
				}
				return n
			},
			func(uint64) (bool, bool) { return false, false },
			advClient[bool, count.InputShare, count.Vec, count.Fp](vc.VerifEncode, vc.VerifShardEncoded, nil))
	case "sum":
		if bits.Len64(p.A) >= 64 {
			run.Bad("sum bound")
			return
		}
		v, err := sum.New(sh, p.A, ctx)
		vc, errc := sum.New(sh, p.A, append([]byte{}, ctxBuf...))
		if err == nil && errc != nil {
			panic("HARNESS: the client-side instance could not be built: " + errc.Error())
		}
		if err != nil {
			run.Violate("prio3/sum.New", "error-on-valid-parameters", "max=%d: %v", p.A, err)
			return
		}
		// keep the true aggregate below the field modulus
		if p.A > 0 && uint64(len(p.Reports)) > (fieldP64-1)/p.A {
			p.Reports = p.Reports[:1]
		}
		recycleCtx()
		runVDAF[uint64, uint64, sum.AggShare, sum.InputShare, sum.OutShare, sum.PrepShare, sum.PrepState](&p, run, "prio3/sum", v, vc,
			func(s uint64, e string) uint64 {
				switch e {
				case "zero":
					return 0
				case "max":
					return p.A
				}
				if p.A == ^uint64(0) {
					return s
				}
				return s % (p.A + 1)
			},
			func(a []uint64) uint64 {
				var n uint64
				for _, x := range a {
					n += x
				}
				return n
			},
			func(s uint64) (uint64, bool) {
				if p.A == ^uint64(0) {
					return 0, false
				}
				return []uint64{p.A + 1, ^uint64(0), p.A + 1 + s%(^uint64(0)-p.A)}[s%3], true
			},
			advClient[uint64, sum.InputShare, sum.Vec, sum.Fp](vc.VerifEncode, vc.VerifShardEncoded, nil))
	case "sumvec":
		l, b, c := uint(p.A), uint(p.B), uint(p.C)
		if l < 1 || l > 2048 || b < 1 || b > 32 || c < 1 || c > 64 {
			run.Bad("sumvec params")
			return
		}
		v, err := sumvec.New(sh, l, b, c, ctx)
		vc, errc := sumvec.New(sh, l, b, c, append([]byte{}, ctxBuf...))
		if err == nil && errc != nil {
			panic("HARNESS: the client-side instance could not be built: " + errc.Error())
		}
		if err != nil {
			run.Violate("prio3/sumvec.New", "error-on-valid-parameters", "length=%d bits=%d chunk=%d: %v", l, b, c, err)
			return
		}
		recycleCtx()
		runVDAF[[]uint64, []uint64, sumvec.AggShare, sumvec.InputShare, sumvec.OutShare, sumvec.PrepShare, sumvec.PrepState](&p, run, "prio3/sumvec", v, vc,
			func(s uint64, e string) []uint64 {
				r := core.NewPRNG(s)
				out := make([]uint64, l)
				for i := range out {
					switch e {
					case "zero":
					case "max":
						out[i] = 1<<b - 1
					default:
						out[i] = r.Uint64() % (1 << b)
					}
				}
				return out
			},
			func(a [][]uint64) []uint64 {
				out := make([]uint64, l)
				for _, x := range a {
					for i := range x {
						out[i] += x[i]
					}
				}
				return out
			},
			func(s uint64) ([]uint64, bool) {
				r := core.NewPRNG(s)
				switch s % 4 {
				case 0: // one entry just above the bit width
					out := make([]uint64, l)
					out[r.Intn(int(l))] = 1 << b
					return out, true
				case 1:
					out := make([]uint64, l)
					out[r.Intn(int(l))] = ^uint64(0)
					return out, true
				case 2:
					return make([]uint64, l+1), true
				}
				return make([]uint64, l-1), true
			},
			advClient[[]uint64, sumvec.InputShare, sumvec.Vec, sumvec.Fp](vc.VerifEncode, vc.VerifShardEncoded, nil))
	case "histogram":
		l, c := uint(p.A), uint(p.B)
		if l < 1 || l > 2048 || c < 1 || c > 64 {
			run.Bad("histogram params")
			return
		}
		v, err := histogram.New(sh, l, c, ctx)
		vc, errc := histogram.New(sh, l, c, append([]byte{}, ctxBuf...))
		if err == nil && errc != nil {
			panic("HARNESS: the client-side instance could not be built: " + errc.Error())
		}
		if err != nil {
			run.Violate("prio3/histogram.New", "error-on-valid-parameters", "length=%d chunk=%d: %v", l, c, err)
			return
		}
		recycleCtx()
		runVDAF[uint64, []uint64, histogram.AggShare, histogram.InputShare, histogram.OutShare, histogram.PrepShare, histogram.PrepState](&p, run, "prio3/histogram", v, vc,
			func(s uint64, e string) uint64 {
				switch e {
				case "zero":
					return 0
				case "max":
					return uint64(l - 1)
				}
				return s % uint64(l)
			},
			func(a []uint64) []uint64 {
				out := make([]uint64, l)
				for _, x := range a {
					out[x]++
				}
				return out
			},
			func(s uint64) (uint64, bool) {
				return []uint64{uint64(l), uint64(l) + 1, ^uint64(0), uint64(l) + s%1000}[s%4], true
			},
			advClient[uint64, histogram.InputShare, histogram.Vec, histogram.Fp](vc.VerifEncode, vc.VerifShardEncoded,
				func(enc histogram.Vec, set func(int, uint64)) string {
					// two-hot: a second bucket is incremented as well (every element stays a bit)
					if len(enc) < 2 {
						return ""
					}
					one := histogram.Fp{}
					one.SetOne()
					for i := range enc {
						if enc[i] != one {
							set(i, 1)
							return fmt.Sprintf("two-hot histogram: bucket %d set as well", i)
						}
					}
					return ""
				}))
	case "mhcv":
		l, w, c := uint(p.A), uint(p.B), uint(p.C)
		if l < 1 || l > 2048 || w < 1 || w > l || c < 1 || c > 64 {
			run.Bad("mhcv params")
			return
		}
		v, err := mhcv.New(sh, l, w, c, ctx)
		vc, errc := mhcv.New(sh, l, w, c, append([]byte{}, ctxBuf...))
		if err == nil && errc != nil {
			panic("HARNESS: the client-side instance could not be built: " + errc.Error())
		}
		if err != nil {
			run.Violate("prio3/mhcv.New", "error-on-valid-parameters", "length=%d weight=%d chunk=%d: %v", l, w, c, err)
			return
		}
		recycleCtx()
		runVDAF[[]bool, []uint64, mhcv.AggShare, mhcv.InputShare, mhcv.OutShare, mhcv.PrepShare, mhcv.PrepState](&p, run, "prio3/mhcv", v, vc,
			func(s uint64, e string) []bool {
				r := core.NewPRNG(s)
				out := make([]bool, l)
				weight := uint(r.Intn(int(w) + 1))
				if e == "zero" {
					weight = 0
				}
				if e == "max" {
					weight = w
				}
				for _, i := range r.Perm(int(l))[:weight] {
					out[i] = true
				}
				return out
			},
			func(a [][]bool) []uint64 {
				out := make([]uint64, l)
				for _, x := range a {
					for i := range x {
						if x[i] {
							out[i]++
						}
					}
				}
				return out
			},
			func(s uint64) ([]bool, bool) {
				r := core.NewPRNG(s)
				switch s % 3 {
				case 0: // one more one-entry than the weight bound allows
					if w >= l {
						return nil, false
					}
					out := make([]bool, l)
					for _, i := range r.Perm(int(l))[:w+1] {
						out[i] = true
					}
					return out, true
				case 1:
					return make([]bool, l+1), true
				}
				return make([]bool, l-1), true
			},
			advClient[[]bool, mhcv.InputShare, mhcv.Vec, mhcv.Fp](vc.VerifEncode, vc.VerifShardEncoded,
				func(enc mhcv.Vec, set func(int, uint64)) string {
					// weight max+1, reported consistently: by the specification the encoding is the l
					// entries followed by the bits of (weight + offset), offset = 2^bits - 1 - max; for
					// weight max+1 that sum is 2^bits, i.e. the top "bit" is 2 and the others are 0
					nb := bits.Len(uint(w))
					if uint(len(enc)) != l+uint(nb) || w+1 > l {
						return ""
					}
					for i := uint(0); i < l; i++ {
						v := uint64(0)
						if i <= w {
							v = 1
						}
						set(int(i), v)
					}
					for i := 0; i < nb; i++ {
						set(int(l)+i, 0)
					}
					set(int(l)+nb-1, 2)
					return fmt.Sprintf("weight %d > max %d reported consistently (top weight bit = 2)", w+1, w)
				}))
	default:
		run.Bad("type")
	}
}

func main() {
	core.Main(&core.Property{
		ID:    "C19",
		Level: "exploration",
		Rule: "seeded plans: Count, Sum (bounds 0..2^63-1), SumVec, Histogram, MultihotCountVec with generated parameters, 2..16 aggregators (thorough: up to 255), 1..8 reports incl. the extremes 0 and max; every message (public share, input shares, prep shares, prep state, prep message, out shares, agg shares) is marshalled and re-parsed on its link; per report one fault {input share bit flip / truncation / replaced by another report's share, public share bit flip, nonce altered for one aggregator, prep share bit flip or duplicated, prep message bit flip, malicious client perturbing a field element of a share, report lost} and an aggregator restart between preparation rounds; constructor calls with degenerate parameters; " +
			"non-trivial = a fault fired; distinct = distinct abstract trace",
		Assumptions: []string{
			"rejection is asserted only for faults the VDAF detects: the nonce fault is per link, public-share / prep-message faults only for circuits with joint randomness",
			"FLP soundness error (<= 2^-50) is ignored; batches keep the true aggregate below the field modulus",
			"for Sum a bound with 2^bitlen(bound) >= field modulus (bound >= 2^63) is degenerate, as in the VDAF specification's constructor check",
		},
		Components: map[string]string{
			"vdaf/prio3 count, sum, sumvec, histogram, mhcv (shard, prep, aggregate, unshard, all marshalers)": "real",
			"links client->aggregators, aggregator<->aggregator, aggregators->collector":                       "stub: simulated transport (marshal, corrupt, replace, lose)",
			"aggregator state between rounds": "stub: simulated disk (PrepState marshalled)",
			"plain aggregates":                "model: integer arithmetic",
		},
		Directed: directed,
		Gen:      gen,
		Exec:     exec,
		Runs:     map[string]int{"quick": 40000, "thorough": 2000000},
		WallCap:  map[string]time.Duration{"quick": 100 * time.Second, "thorough": 14 * time.Minute},
	})
}
