#!/bin/bash
# Determinism proof: for every engine, the event-log digests of the first N runs must be identical across
# processes and across GOMAXPROCS 1 / 4 / 16 (two processes each). Prints one line per binary.
set -u
export GOFLAGS=-mod=mod GOPROXY=off GOSUMDB=off GOTOOLCHAIN=local
V=/verif; N=${1:-120}
D=$(mktemp -d /var/tmp/circlsim.det.XXXXXX); trap 'rm -rf "$D"' EXIT
"$V/bin/mkoverlay" "$D/ov.json"
cd "$V/sim"
go build -o "$D/yieldgen" ./cmd/yieldgen && "$D/yieldgen" /repo "$D/instr" "$D/instr-ov.json" "$V/shim/verifsimrt/rt.go" >/dev/null
"$V/bin/mkoverlay" "$D/sched.json" "$D/instr-ov.json"
rc=0
for p in c01 c02 c07 c08 c09 c10 c11hist c15 c16 c17 c18 c19 c20 c14prim c11sched; do
  ov="$D/ov.json"; [ "$p" = c11sched ] && ov="$D/sched.json"
  go build -tags verif -overlay "$ov" -o "$D/$p" "./props/$p" || { echo "$p: build failed"; rc=2; continue; }
  n=$N; [ "$p" = c20 ] && n=24; [ "$p" = c10 ] && n=60; [ "$p" = c09 ] && n=60
  ref=""
  ok=1
  for gmp in 1 4 16; do for rep in 1 2; do
    h=$(cd "$V" && GOMAXPROCS=$gmp VERIF_DIR=$V "$D/$p" digests quick $n | sha256sum | cut -c1-16)
    [ -z "$ref" ] && ref=$h
    [ "$h" != "$ref" ] && ok=0
  done; done
  if [ $ok = 1 ]; then echo "$p: $n runs x 6 processes (GOMAXPROCS 1,4,16 x2): identical ($ref)"; else echo "$p: DIGESTS DIFFER"; rc=1; fi
done
exit $rc
