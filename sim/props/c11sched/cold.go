package main

import (
	"bytes"
	"crypto"
	"crypto/sha256"
	"encoding/binary"
	"fmt"
	"math/big"

	"circlsim/codec"
	"circlsim/core"
	"circlsim/fixtures"

	"github.com/cloudflare/circl/abe/cpabe/tkn20"
	"github.com/cloudflare/circl/blindsign/blindrsa"
	"github.com/cloudflare/circl/blindsign/blindrsa/partiallyblindrsa"
	"github.com/cloudflare/circl/dh/csidh"
	bls12381 "github.com/cloudflare/circl/ecc/bls12381"
	"github.com/cloudflare/circl/ecc/p384"
	"github.com/cloudflare/circl/group"
	"github.com/cloudflare/circl/hpke"
	kemschemes "github.com/cloudflare/circl/kem/schemes"
	"github.com/cloudflare/circl/oprf"
	"github.com/cloudflare/circl/sign/bls"
	signschemes "github.com/cloudflare/circl/sign/schemes"
	"github.com/cloudflare/circl/simd/keccakf1600"
	tssrsa "github.com/cloudflare/circl/tss/rsa"
)

// coldFam: callers that share NO object — each task sets up a system of its own (an
// authority, a key pair, a suite) and uses it — so the only thing the tasks have in common
// is what the packages keep at package level: lazily built constants and tables, caches,
// pools, scratch space. There is no counting pass and no warm-up: nothing of the family's ops
// runs in the process before the scheduled tasks do, so the first use of whatever a package
// initialises lazily happens inside the schedule (under the race engine every run is a fresh
// process; under the plain engine the first cold run of each worker process is). Pre-emption
// points are absolute statement numbers on a logarithmic scale, or "right after the task's
// k-th sync / atomic operation", resolved while the task runs. The expected values are
// computed afterwards, sequentially, by the same ops.
func coldFam() famDef {
	digest := func(parts ...[]byte) []byte {
		h := sha256.New()
		for _, p := range parts {
			h.Write([]byte{byte(len(p)), byte(len(p) >> 8)})
			h.Write(p)
		}
		return h.Sum(nil)
	}
	groups := []group.Group{group.P256, group.P384, group.P521, group.Ristretto255}
	suites := []oprf.Suite{oprf.SuiteRistretto255, oprf.SuiteP256, oprf.SuiteP384}
	kems := []hpke.KEM{hpke.KEM_X25519_HKDF_SHA256, hpke.KEM_X448_HKDF_SHA512, hpke.KEM_P256_HKDF_SHA256, hpke.KEM_X25519_KYBER768_DRAFT00}
	return famDef{name: "cold", cold: true, late: true, kinds: []string{"tkn20", "bls", "group", "kem", "sign", "oprf", "hpke", "pairing", "keccak.x2", "keccak.x4", "p384", "tss", "tss1", "tkn20"}, build: func(seed uint64) *shared {
		return &shared{ops: map[string]func(uint64) []byte{
			"tkn20": func(a uint64) []byte {
				pk, msk, err := tkn20.Setup(core.NewStream(seed + 100 + a))
				if err != nil {
					return []byte("!!FAILED: setup-err")
				}
				var pol tkn20.Policy
				if pol.FromString("a: x and not b: y") != nil {
					return []byte("!!FAILED: policy-err")
				}
				ct, err := pk.Encrypt(core.NewStream(seed+200+a), pol, msgOf(a))
				if err != nil {
					return []byte("!!FAILED: encrypt-err")
				}
				var at tkn20.Attributes
				at.FromMap(map[string]string{"a": "x", "b": "z"})
				k, err := msk.KeyGen(core.NewStream(seed+300+a), at)
				if err != nil {
					return []byte("!!FAILED: keygen-err")
				}
				pt, err := k.Decrypt(ct)
				if err != nil {
					return []byte("!!FAILED: own-ciphertext-undecryptable: " + err.Error())
				}
				pb, _ := pk.MarshalBinary()
				return digest(pb, ct, pt)
			},
			"bls": func(a uint64) []byte {
				ikm := core.NewPRNG(seed + 400 + a).Bytes(32)
				k1, err1 := bls.KeyGen[bls.KeyG1SigG2](ikm, nil, nil)
				k2, err2 := bls.KeyGen[bls.KeyG2SigG1](ikm, nil, nil)
				if err1 != nil || err2 != nil {
					return []byte("!!FAILED: keygen-err")
				}
				s1, s2 := bls.Sign(k1, msgOf(a)), bls.Sign(k2, msgOf(a))
				return digest(s1, s2, b2(bls.Verify(k1.PublicKey(), msgOf(a), s1)), b2(bls.Verify(k2.PublicKey(), msgOf(a), s2)))
			},
			"group": func(a uint64) []byte {
				g := groups[(a+seed)%uint64(len(groups))]
				e := g.HashToElement(msgOf(a), []byte("cold-dst"))
				k := g.HashToScalar(msgOf(a+1), []byte("cold-dst"))
				eb, _ := g.NewElement().Mul(e, k).MarshalBinaryCompress()
				gb, _ := g.NewElement().MulGen(k).MarshalBinary()
				r := g.RandomElement(core.NewStream(seed + 500 + a))
				rb, _ := r.MarshalBinary()
				return digest(eb, gb, rb)
			},
			"kem": func(a uint64) []byte {
				all := kemschemes.All()
				s := all[(a+seed)%uint64(len(all))]
				pk, sk := s.DeriveKeyPair(core.NewPRNG(seed + 600 + a).Bytes(s.SeedSize()))
				ct, ss, err := s.EncapsulateDeterministically(pk, core.NewPRNG(seed+601+a).Bytes(s.EncapsulationSeedSize()))
				if err != nil {
					return []byte("!!FAILED: encap-err:" + s.Name())
				}
				ss2, err := s.Decapsulate(sk, ct)
				if err != nil {
					return []byte("!!FAILED: decap-err:" + s.Name())
				}
				return digest([]byte(s.Name()), ct, ss, ss2)
			},
			"sign": func(a uint64) []byte {
				all := signschemes.All()
				s := all[(a+seed)%uint64(len(all))]
				pk, sk := s.DeriveKey(core.NewPRNG(seed + 700 + a).Bytes(s.SeedSize()))
				sg := s.Sign(sk, msgOf(a), nil)
				return digest([]byte(s.Name()), sg[:32], b2(s.Verify(pk, msgOf(a), sg, nil)))
			},
			"oprf": func(a uint64) []byte {
				su := suites[(a+seed)%uint64(len(suites))]
				k, err := oprf.DeriveKey(su, oprf.VerifiableMode, core.NewPRNG(seed+800+a).Bytes(32), nil)
				if err != nil {
					return []byte("!!FAILED: derive-err")
				}
				srv := oprf.NewVerifiableServer(su, k)
				cl := oprf.NewVerifiableClient(su, k.Public())
				fin, req, err := cl.Blind([][]byte{msgOf(a)})
				if err != nil {
					return []byte("!!FAILED: blind-err")
				}
				ev, err := srv.Evaluate(req)
				if err != nil {
					return []byte("!!FAILED: evaluate-err")
				}
				out, err := cl.Finalize(fin, ev)
				if err != nil {
					return []byte("!!FAILED: finalize-err: " + err.Error())
				}
				full, _ := srv.FullEvaluate(msgOf(a))
				return digest(out[0], full)
			},
			"hpke": func(a uint64) []byte {
				id := kems[(a+seed)%uint64(len(kems))]
				s := id.Scheme()
				pk, sk := s.DeriveKeyPair(core.NewPRNG(seed + 900 + a).Bytes(s.SeedSize()))
				suite := hpke.NewSuite(id, hpke.KDF_HKDF_SHA256, hpke.AEAD_ChaCha20Poly1305)
				snd, err := suite.NewSender(pk, []byte("cold"))
				if err != nil {
					return []byte("!!FAILED: sender-err")
				}
				enc, sealer, err := snd.Setup(core.NewStream(seed + 901 + a))
				if err != nil {
					return []byte("!!FAILED: setup-err")
				}
				ct, err := sealer.Seal(msgOf(a), nil)
				if err != nil {
					return []byte("!!FAILED: seal-err")
				}
				rcv, err := suite.NewReceiver(sk, []byte("cold"))
				if err != nil {
					return []byte("!!FAILED: receiver-err")
				}
				op, err := rcv.Setup(enc)
				if err != nil {
					return []byte("!!FAILED: receiver-setup-err")
				}
				pt, err := op.Open(ct, nil)
				if err != nil {
					return []byte("!!FAILED: open-err")
				}
				return digest(enc, ct, pt)
			},
			// multi-lane Keccak states of the task's own (the generic code path de-interleaves
			// the lanes into scratch space): 2 and 4 lanes, full and reduced rounds
			"keccak.x2": func(a uint64) []byte {
				var st keccakf1600.StateX2
				w := st.Initialize(a&1 == 1)
				r := core.NewPRNG(seed + 1100 + a)
				for i := range w[:50] {
					w[i] = r.Uint64()
				}
				for i := 0; i < 3; i++ {
					st.Permute()
				}
				out := make([]byte, 0, 400)
				for _, x := range w[:50] {
					out = binary.LittleEndian.AppendUint64(out, x)
				}
				return digest(out)
			},
			"keccak.x4": func(a uint64) []byte {
				var st keccakf1600.StateX4
				w := st.Initialize(a&1 == 1)
				r := core.NewPRNG(seed + 1200 + a)
				for i := range w[:100] {
					w[i] = r.Uint64()
				}
				for i := 0; i < 3; i++ {
					st.Permute()
				}
				out := make([]byte, 0, 800)
				for _, x := range w[:100] {
					out = binary.LittleEndian.AppendUint64(out, x)
				}
				return digest(out)
			},
			// P-384 with operands of the task's own: the curve keeps precomputed tables of
			// multiples of the generator at package level
			"p384": func(a uint64) []byte {
				c := p384.P384()
				r := core.NewPRNG(seed + 1300 + a)
				k, m, n := r.Bytes(48), r.Bytes(48), r.Bytes(48)
				qx, qy := c.ScalarBaseMult(k)
				x1, y1 := c.CombinedMult(qx, qy, m, n)
				x2, y2 := c.ScalarMult(qx, qy, n)
				x3, y3 := c.Add(x1, y1, x2, y2)
				return digest(x1.Bytes(), y1.Bytes(), x2.Bytes(), y2.Bytes(), x3.Bytes(), y3.Bytes())
			},
			// threshold RSA with a deal of the task's own, of another size than the other tasks'
			"tss": func(a uint64) []byte {
				key := fixtures.RSAKey("std-1024-a")
				l := uint(3 + 2*(a%3))
				shares, err := tssrsa.Deal(core.NewStream(seed+1400+a), l, 2, key, a%2 == 0)
				if err != nil {
					return []byte("!!FAILED: deal-err")
				}
				ph, err := tssrsa.PadHash(&tssrsa.PKCS1v15Padder{}, crypto.SHA256, &key.PublicKey, msgOf(a))
				if err != nil {
					return []byte("!!FAILED: pad-err")
				}
				var sss []tssrsa.SignShare
				for i := 0; i < 2; i++ {
					ss, err := shares[i].Sign(core.NewStream(seed+1500+a), &key.PublicKey, ph, false)
					if err != nil {
						return []byte("!!FAILED: sign-err")
					}
					sss = append(sss, ss)
				}
				sig, err := tssrsa.CombineSignShares(&key.PublicKey, sss, ph)
				if err != nil {
					return []byte("!!FAILED: combine-err: " + err.Error())
				}
				return digest(sig)
			},
			// one partial signature with a share that has no cached exponent, from a deal of
			// the task's own size: the only call into whatever the package keeps per player count
			"tss1": func(a uint64) []byte {
				key := fixtures.RSAKey("std-1024-a")
				l := uint(3 + 2*(a%3))
				shares, err := tssrsa.Deal(core.NewStream(seed+1600+a), l, 2, key, false)
				if err != nil {
					return []byte("!!FAILED: deal-err")
				}
				ph, err := tssrsa.PadHash(&tssrsa.PKCS1v15Padder{}, crypto.SHA256, &key.PublicKey, msgOf(a))
				if err != nil {
					return []byte("!!FAILED: pad-err")
				}
				ss, err := shares[0].Sign(core.NewStream(seed+1700+a), &key.PublicKey, ph, false)
				if err != nil {
					return []byte("!!FAILED: sign-err")
				}
				b, _ := ss.MarshalBinary()
				return digest(b)
			},
			"pairing": func(a uint64) []byte {
				var k bls12381.Scalar
				k.SetUint64(seed%1000 + a + 2)
				var p bls12381.G1
				p.ScalarMult(&k, bls12381.G1Generator())
				var q bls12381.G2
				q.Hash(msgOf(a), []byte("cold-dst"))
				e := bls12381.Pair(&p, &q)
				var e2 bls12381.Gt
				e2.Exp(bls12381.Pair(bls12381.G1Generator(), &q), &k)
				eb, _ := e.MarshalBinary()
				return digest(eb, b2(e.IsEqual(&e2)), p.BytesCompressed(), q.BytesCompressed())
			},
		}}
	}}
}

var _ = fmt.Sprint

// blindFam: one blind-RSA client / verifier / signer set shared by several callers (they wrap
// a key and look read-only): blinding different messages, verifying, blind-signing.
func blindFam() famDef {
	return famDef{name: "blindrsa", kinds: []string{"pb.blind", "pb.blind", "pb.verify", "pb.sign", "blind", "verify", "sign"}, build: func(seed uint64) *shared {
		key := fixtures.RSAKey("safe-1024-a")
		N := key.N
		pv := partiallyblindrsa.NewVerifier(&key.PublicKey, crypto.SHA384)
		ps, err := partiallyblindrsa.NewSigner(key, crypto.SHA384)
		if err != nil {
			panic("HARNESS: pbrsa.NewSigner: " + err.Error())
		}
		meta := []byte("metadata")
		pr := core.NewPRNG(seed)
		blindOf := func(a uint64) (r, rInv []byte) {
			q := core.NewPRNG(seed + 50 + a)
			for {
				x := new(big.Int).SetBytes(q.Bytes(len(N.Bytes())))
				x.Mod(x, N)
				if inv := new(big.Int).ModInverse(x, N); inv != nil && x.Sign() != 0 {
					return x.Bytes(), inv.Bytes()
				}
			}
		}
		longMsg := func(a uint64) []byte { return bytes.Repeat(msgOf(a), 40) }
		// a finished partially blind signature and a blinded message, made before the tasks run
		salt0 := pr.Bytes(48)
		r0, ri0 := blindOf(99)
		bm0, st0, err := pv.FixedBlind(longMsg(0), meta, salt0, r0, ri0)
		if err != nil {
			panic("HARNESS: FixedBlind: " + err.Error())
		}
		bs0, err := ps.BlindSign(bm0, meta)
		if err != nil {
			panic("HARNESS: BlindSign: " + err.Error())
		}
		sig0, err := st0.Finalize(bs0)
		if err != nil {
			panic("HARNESS: Finalize: " + err.Error())
		}
		// plain variant
		cl, err := blindrsa.NewClient(blindrsa.SHA384PSSDeterministic, &key.PublicKey)
		if err != nil {
			panic("HARNESS: NewClient")
		}
		sg := blindrsa.NewSigner(key)
		cbm0, cst0, err := cl.Blind(core.NewStream(seed+7), longMsg(0))
		if err != nil {
			panic("HARNESS: Blind")
		}
		cbs0, err := sg.BlindSign(cbm0)
		if err != nil {
			panic("HARNESS: BlindSign")
		}
		csig0, err := cl.Finalize(cst0, cbs0)
		if err != nil {
			panic("HARNESS: Finalize")
		}
		return &shared{ops: map[string]func(uint64) []byte{
			"pb.blind": func(a uint64) []byte {
				r, ri := blindOf(a)
				bm, st, err := pv.FixedBlind(longMsg(a), meta, core.NewPRNG(seed+60+a).Bytes(48), r, ri)
				if err != nil {
					return []byte("err: " + err.Error())
				}
				bs, err := ps.BlindSign(bm, meta)
				if err != nil {
					return []byte("sign-err: " + err.Error())
				}
				sig, err := st.Finalize(bs)
				if err != nil {
					return []byte("finalize-err: " + err.Error())
				}
				return append(bm[:16:16], sig[:16]...)
			},
			"pb.verify": func(uint64) []byte { return b2(pv.Verify(longMsg(0), meta, sig0) == nil) },
			"pb.sign": func(uint64) []byte {
				bs, err := ps.BlindSign(bm0, meta)
				if err != nil {
					return []byte("err")
				}
				return bs
			},
			"blind": func(a uint64) []byte {
				bm, st, err := cl.Blind(core.NewStream(seed+70+a), longMsg(a))
				if err != nil {
					return []byte("err")
				}
				bs, err := sg.BlindSign(bm)
				if err != nil {
					return []byte("sign-err")
				}
				sig, err := cl.Finalize(st, bs)
				if err != nil {
					return []byte("finalize-err: " + err.Error())
				}
				return append(bm[:16:16], sig[:16]...)
			},
			"verify": func(uint64) []byte { return b2(cl.Verify(longMsg(0), csig0) == nil) },
			"sign": func(uint64) []byte {
				bs, err := sg.BlindSign(cbm0)
				if err != nil {
					return []byte("err")
				}
				return bs
			},
		}}
	}}
}

// csidhFam: one CSIDH private key and one peer public key used by several callers at once
// (public-key derivation, validation of the peer's key, key agreement).
func csidhFam() famDef {
	return famDef{name: "csidh", kinds: []string{"derive", "pub", "validate"}, build: func(seed uint64) *shared {
		var sk, peerSk csidh.PrivateKey
		var peer csidh.PublicKey
		if csidh.GeneratePrivateKey(&sk, core.NewStream(seed)) != nil || csidh.GeneratePrivateKey(&peerSk, core.NewStream(seed+1)) != nil {
			panic("HARNESS: csidh.GeneratePrivateKey")
		}
		csidh.GeneratePublicKey(&peer, &peerSk, core.NewStream(seed+2))
		return &shared{ops: map[string]func(uint64) []byte{
			"pub": func(a uint64) []byte {
				var pk csidh.PublicKey
				csidh.GeneratePublicKey(&pk, &sk, core.NewStream(seed+10+a))
				out := make([]byte, csidh.PublicKeySize)
				pk.Export(out)
				return out
			},
			"derive": func(a uint64) []byte {
				var ss [64]byte
				if !csidh.DeriveSecret(&ss, &peer, &sk, core.NewStream(seed+20+a)) {
					return []byte("rejected")
				}
				return ss[:]
			},
			"validate": func(a uint64) []byte { return b2(csidh.Validate(&peer, core.NewStream(seed+30+a))) },
		}}
	}}
}

// decodersFam: several callers decode the SAME byte buffer at once (a peer's static key, a
// stored ciphertext), each into an object of its own. A decoder that scribbles on its input
// and restores it before returning looks clean to a single caller and is not to two. One
// registry entry (codecsim's decoding entry points, the cheap ones) per run, chosen by the seed.
func decodersFam() famDef {
	var cheap []string
	for _, n := range codec.Names() {
		if e := codec.Get(n); e.Cost <= 10 && e.Call != nil && e.Valid != nil {
			cheap = append(cheap, n)
		}
	}
	return famDef{name: "decoders", kinds: []string{"decode", "decode", "decode.b"}, build: func(seed uint64) *shared {
		e := codec.Get(cheap[seed%uint64(len(cheap))])
		in0 := append([]byte{}, codec.Valid(e, seed/7)...)
		in1 := append([]byte{}, codec.Valid(e, seed/7+1)...)
		res := func(r codec.Result) []byte {
			return append(append(b2(r.Accepted), b2(r.Member)...), r.Reenc...)
		}
		name := []byte(e.Name)
		return &shared{ops: map[string]func(uint64) []byte{
			"decode":   func(uint64) []byte { return append(res(e.Call(in0)), name...) },
			"decode.b": func(uint64) []byte { return append(res(e.Call(in1)), name...) },
		}}
	}}
}
