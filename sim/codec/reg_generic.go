package codec

import (
	"strings"

	"circlsim/core"

	"github.com/cloudflare/circl/hpke"
	"github.com/cloudflare/circl/kem"
	kemschemes "github.com/cloudflare/circl/kem/schemes"
	"github.com/cloudflare/circl/kem/sike/sikep434"
	"github.com/cloudflare/circl/pki"
	"github.com/cloudflare/circl/sign"
	signschemes "github.com/cloudflare/circl/sign/schemes"
)

func seedBytes(seed uint64, n int) []byte {
	return core.NewPRNG(seed*0x9e3779b97f4a7c15 + 12345).Bytes(n)
}

// AllKEMs is the list of KEM schemes the simulator drives (used by C01 too).
func AllKEMs() []kem.Scheme {
	out := append([]kem.Scheme{}, kemschemes.All()...)
	out = append(out, hpke.KEM_X25519_KYBER768_DRAFT00.Scheme(), hpke.KEM_XWING.Scheme())
	return out
}

func kemCost(name string) int {
	switch {
	case strings.Contains(name, "Frodo"):
		return 300
	case strings.Contains(name, "P521"):
		return 150
	case strings.Contains(name, "P384"):
		return 40
	case strings.Contains(name, "SIKE"):
		return 300
	}
	return 6
}

func registerKEM(s kem.Scheme, label string) {
	name := "kem[" + label + "]"
	cost := kemCost(s.Name())
	isMLKEM := strings.HasPrefix(s.Name(), "ML-KEM")
	keys := func(seed uint64) (kem.PublicKey, kem.PrivateKey) {
		return s.DeriveKeyPair(seedBytes(seed, s.SeedSize()))
	}
	Register(&Entry{
		Name: name + ".UnmarshalBinaryPublicKey", Cost: cost, Seeds: 4,
		Valid: func(seed uint64) []byte { pk, _ := keys(seed); b, _ := pk.MarshalBinary(); return b },
		Call: func(in []byte) Result {
			pk, err := s.UnmarshalBinaryPublicKey(in)
			if err != nil {
				return Result{}
			}
			b, err := pk.MarshalBinary()
			if err != nil {
				panic("accepted public key cannot be marshalled: " + err.Error())
			}
			return Result{Accepted: true, Reenc: b}
		},
		Canon: isMLKEM,
		Aware: mlkemAware(isMLKEM),
	})
	Register(&Entry{
		Name: name + ".UnmarshalBinaryPrivateKey", Cost: cost, Seeds: 4,
		Valid: func(seed uint64) []byte { _, sk := keys(seed); b, _ := sk.MarshalBinary(); return b },
		Call: func(in []byte) Result {
			sk, err := s.UnmarshalBinaryPrivateKey(in)
			if err != nil {
				return Result{}
			}
			// an accepted key must be usable
			sk.Public()
			if _, err := sk.MarshalBinary(); err != nil {
				panic("accepted private key cannot be marshalled: " + err.Error())
			}
			return Result{Accepted: true}
		},
	})
	Register(&Entry{
		Name: name + ".Decapsulate", Cost: cost, Seeds: 4,
		Valid: func(seed uint64) []byte {
			pk, _ := keys(seed & 1)
			ct, _, err := s.EncapsulateDeterministically(pk, seedBytes(seed+99, s.EncapsulationSeedSize()))
			if err != nil {
				panic("HARNESS: encapsulate: " + err.Error())
			}
			return ct
		},
		Call: func(in []byte) Result {
			_, sk := keys(0)
			_, err := s.Decapsulate(sk, in)
			return Result{Accepted: err == nil}
		},
	})
}

// mlkemAware: coefficient-level faults on an ML-KEM encapsulation key: set a
// 12-bit coefficient to q, q+1, 4095 (FIPS 203 modulus check).
func mlkemAware(on bool) []func([]byte, int) []byte {
	if !on {
		return nil
	}
	set := func(val int) func([]byte, int) []byte {
		return func(v []byte, a int) []byte {
			ncoef := (len(v) - 32) * 2 / 3
			if ncoef <= 0 {
				return nil
			}
			i := (a * 37) % ncoef
			o := (i / 2) * 3
			if i%2 == 0 {
				v[o] = byte(val)
				v[o+1] = v[o+1]&0xf0 | byte(val>>8)
			} else {
				v[o+1] = v[o+1]&0x0f | byte(val<<4)
				v[o+2] = byte(val >> 4)
			}
			return v
		}
	}
	return []func([]byte, int) []byte{set(3329), set(3330), set(4095), set(3328 + 3329 - 3328)}
}

func registerSign(s sign.Scheme) {
	name := "sign[" + s.Name() + "]"
	cost := 10
	if strings.Contains(s.Name(), "ilithium") || strings.Contains(s.Name(), "ML-DSA") {
		cost = 12
	}
	keys := func(seed uint64) (sign.PublicKey, sign.PrivateKey) {
		return s.DeriveKey(seedBytes(seed, s.SeedSize()))
	}
	msg := []byte("circlsim codec message")
	Register(&Entry{
		Name: name + ".UnmarshalBinaryPublicKey", Cost: cost, Seeds: 4,
		Valid: func(seed uint64) []byte { pk, _ := keys(seed); b, _ := pk.MarshalBinary(); return b },
		Call: func(in []byte) Result {
			pk, err := s.UnmarshalBinaryPublicKey(in)
			if err != nil {
				return Result{}
			}
			if _, err := pk.MarshalBinary(); err != nil {
				panic("accepted public key cannot be marshalled")
			}
			return Result{Accepted: true}
		},
	})
	Register(&Entry{
		Name: name + ".UnmarshalBinaryPrivateKey", Cost: cost, Seeds: 4,
		Valid: func(seed uint64) []byte { _, sk := keys(seed); b, _ := sk.MarshalBinary(); return b },
		Call: func(in []byte) Result {
			sk, err := s.UnmarshalBinaryPrivateKey(in)
			if err != nil {
				return Result{}
			}
			sk.Public()
			return Result{Accepted: true}
		},
	})
	Register(&Entry{
		Name: name + ".Verify(signature)", Cost: cost * 2, Seeds: 4,
		Valid: func(seed uint64) []byte { _, sk := keys(0); return s.Sign(sk, append(msg, byte(seed)), nil) },
		Call: func(in []byte) Result {
			pk, _ := keys(0)
			ok := false
			for i := 0; i < 4 && !ok; i++ {
				ok = s.Verify(pk, append(msg, byte(i)), in, nil)
			}
			return Result{Accepted: ok}
		},
	})
	Register(&Entry{
		Name: name + ".Verify(publickey)", Cost: cost * 2, Seeds: 2,
		Valid: func(seed uint64) []byte { pk, _ := keys(seed & 1); b, _ := pk.MarshalBinary(); return b },
		Call: func(in []byte) Result {
			pk, err := s.UnmarshalBinaryPublicKey(in)
			if err != nil {
				return Result{}
			}
			_, sk := keys(0)
			sig := s.Sign(sk, msg, nil)
			_, sk1 := keys(1)
			sig1 := s.Sign(sk1, msg, nil)
			return Result{Accepted: s.Verify(pk, msg, sig, nil) || s.Verify(pk, msg, sig1, nil)}
		},
	})
	if _, ok := s.(pki.CertificateScheme); !ok {
		return
	}
	Register(&Entry{
		Name: "pki[" + s.Name() + "].UnmarshalPKIXPublicKey", Cost: cost, Seeds: 2,
		Valid: func(seed uint64) []byte {
			pk, _ := keys(seed)
			b, err := pki.MarshalPKIXPublicKey(pk)
			if err != nil {
				panic("HARNESS: " + err.Error())
			}
			return b
		},
		Call: func(in []byte) Result { _, err := pki.UnmarshalPKIXPublicKey(in); return Result{Accepted: err == nil} },
	})
	Register(&Entry{
		Name: "pki[" + s.Name() + "].UnmarshalPKIXPrivateKey", Cost: cost, Seeds: 2,
		Valid: func(seed uint64) []byte {
			_, sk := keys(seed)
			b, err := pki.MarshalPKIXPrivateKey(sk)
			if err != nil {
				panic("HARNESS: " + err.Error())
			}
			return b
		},
		Call: func(in []byte) Result { _, err := pki.UnmarshalPKIXPrivateKey(in); return Result{Accepted: err == nil} },
	})
	Register(&Entry{
		Name: "pki[" + s.Name() + "].UnmarshalPEMPublicKey", Cost: cost, Seeds: 2, Text: true,
		Valid: func(seed uint64) []byte {
			pk, _ := keys(seed)
			b, err := pki.MarshalPEMPublicKey(pk)
			if err != nil {
				panic("HARNESS: " + err.Error())
			}
			return b
		},
		Call: func(in []byte) Result { _, err := pki.UnmarshalPEMPublicKey(in); return Result{Accepted: err == nil} },
	})
	Register(&Entry{
		Name: "pki[" + s.Name() + "].UnmarshalPEMPrivateKey", Cost: cost, Seeds: 2, Text: true,
		Valid: func(seed uint64) []byte {
			_, sk := keys(seed)
			b, err := pki.MarshalPEMPrivateKey(sk)
			if err != nil {
				panic("HARNESS: " + err.Error())
			}
			return b
		},
		Call: func(in []byte) Result { _, err := pki.UnmarshalPEMPrivateKey(in); return Result{Accepted: err == nil} },
	})
}

func init() {
	for _, s := range kemschemes.All() {
		registerKEM(s, s.Name())
	}
	registerKEM(hpke.KEM_X25519_KYBER768_DRAFT00.Scheme(), "hpke:"+hpke.KEM_X25519_KYBER768_DRAFT00.Scheme().Name())
	registerKEM(hpke.KEM_XWING.Scheme(), "hpke:X-Wing")
	registerKEM(sikep434.Scheme(), sikep434.Scheme().Name())
	for _, s := range signschemes.All() {
		registerSign(s)
	}
}
