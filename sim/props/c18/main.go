// C18 — blind RSA yields standard RSA-PSS signatures and verifies like
// crypto/rsa. netsim: client, signer and verifier nodes plus reference
// verifiers (crypto/rsa and a big-exponent PSS model); blinded messages, blind
// signatures and final signatures cross a faulty transport; the entropy device
// feeds preparation, salt and blinding and can fail.
package main

import (
	"bytes"
	"crypto"
	"crypto/rand"
	"crypto/rsa"
	"crypto/sha512"
	"encoding/binary"
	"encoding/json"
	"errors"
	"fmt"
	"io"
	"math/big"
	"time"

	"circlsim/core"
	"circlsim/fixtures"
	"circlsim/refmodel/pssref"

	"github.com/cloudflare/circl/blindsign/blindrsa"
	"github.com/cloudflare/circl/blindsign/blindrsa/partiallyblindrsa"
	"golang.org/x/crypto/hkdf"
)

type Plan struct {
	Kind    string `json:"kind"` // brsa | pbrsa
	Key     string `json:"key"`
	Variant int    `json:"variant"` // brsa: 0..3
	Seed    uint64 `json:"seed"`
	MsgLen  int    `json:"msg_len"`
	MetaLen int    `json:"meta_len"`
	Fault   string `json:"fault,omitempty"`
	Pos     int    `json:"pos,omitempty"`
	Twice   bool   `json:"twice,omitempty"` // finalise twice with the same state
}

var faults = []string{"", "", "blindsig-flip", "blindsig-zero", "blindsig-one", "blindsig-Nminus1", "blindsig-N", "blindsig-short", "blindsig-long",
	"blinded-N", "blinded-Nplus1", "blinded-short", "blinded-long", "blinded-zero",
	"sig-flip", "sig-zero", "sig-one", "sig-Nminus1", "sig-N", "sig-Nplus1", "sig-plusN", "sig-short", "sig-long", "msg-alter", "meta-alter",
	"blindsig-plusN", "sig-forged-padding", "sig-forged-leading-octet", "two-blinds", "entropy-error", "retry-after-bad-blindsig"}

func gen(r *core.PRNG, tier string) any {
	p := &Plan{Seed: r.Uint64(), MsgLen: r.EdgeLen(100, 0, 1, 48), MetaLen: r.EdgeLen(40, 0, 1), Pos: r.Intn(1 << 16)}
	if r.Chance(3, 4) {
		p.Kind = "brsa"
		p.Variant = r.Intn(4)
		p.Key = []string{"std-1024-a", "std-1024-b", "std-1025-a", "std-1025-b", "std-1536-a", "std-2048-a", "std-2049-a", "safe-1024-a", "std-3072-a", "std-4096-a"}[r.Pick(10, 10, 10, 10, 4, 3, 3, 5, 1, 1)]
	} else {
		p.Kind = "pbrsa"
		p.Key = []string{"safe-1024-a", "safe-1024-b", "safe-2048-a"}[r.Pick(5, 5, 1)]
	}
	p.Fault = faults[r.Intn(len(faults))]
	p.Twice = r.Chance(1, 5)
	return p
}

func directed(tier string) []any {
	var out []any
	for v := 0; v < 4; v++ {
		for _, k := range []string{"std-1024-a", "std-1025-a", "std-2049-a"} {
			for _, f := range faults[1:] {
				out = append(out, &Plan{Kind: "brsa", Key: k, Variant: v, Seed: uint64(v + 1), MsgLen: 20, Fault: f, Pos: 11, Twice: true})
			}
		}
	}
	for _, f := range faults[1:] {
		out = append(out, &Plan{Kind: "pbrsa", Key: "safe-1024-a", Seed: 5, MsgLen: 20, MetaLen: 6, Fault: f, Pos: 11, Twice: true})
	}
	return out
}

// splitReader serves the first n bytes from a, the rest from b.
type splitReader struct {
	a, b io.Reader
	n    int
}

func (s *splitReader) Read(p []byte) (int, error) {
	if s.n > 0 {
		if len(p) > s.n {
			p = p[:s.n]
		}
		k, err := s.a.Read(p)
		s.n -= k
		return k, err
	}
	return s.b.Read(p)
}

func special(kind string, n *big.Int, k int) []byte {
	one := big.NewInt(1)
	switch kind {
	case "zero":
		return make([]byte, k)
	case "one":
		return one.FillBytes(make([]byte, k))
	case "Nminus1":
		return new(big.Int).Sub(n, one).FillBytes(make([]byte, k))
	case "N":
		return new(big.Int).Set(n).FillBytes(make([]byte, k))
	case "Nplus1":
		v := new(big.Int).Add(n, one)
		if (v.BitLen()+7)/8 > k {
			return nil
		}
		return v.FillBytes(make([]byte, k))
	}
	return nil
}

// derived public exponent of the partially blind scheme, from the specification
// (draft-amjad-cfrg-partially-blind-rsa, DerivePublicKey).
func derivedExponent(n *big.Int, metadata []byte) *big.Int {
	modLen := (n.BitLen() + 7) / 8
	lambdaLen := modLen / 2
	ikm := append(append([]byte("key"), metadata...), 0)
	salt := n.FillBytes(make([]byte, modLen))
	out := make([]byte, lambdaLen+16)
	if _, err := io.ReadFull(hkdf.New(sha512.New384, ikm, salt, []byte("PBRSA")), out); err != nil {
		panic("HARNESS: hkdf")
	}
	e := out[:lambdaLen]
	e[0] &= 0x3f
	e[lambdaLen-1] |= 1
	return new(big.Int).SetBytes(e)
}

func pbMessage(msg, metadata []byte) []byte {
	b := []byte{'m', 's', 'g', 0, 0, 0, 0}
	binary.BigEndian.PutUint32(b[3:], uint32(len(metadata)))
	return append(append(b, metadata...), msg...)
}

func exec(planJSON []byte, run *core.Run) {
	var p Plan
	if json.Unmarshal(planJSON, &p) != nil {
		run.Bad("json")
		return
	}
	key := fixtures.RSAKey(p.Key)
	if key == nil || p.MsgLen < 0 || p.MsgLen > 2000 || p.MetaLen < 0 || p.MetaLen > 500 || p.Variant < 0 || p.Variant > 3 {
		run.Bad("params")
		return
	}
	rand.Reader = core.NewStream(p.Seed + 1000)
	N := key.N
	k := (N.BitLen() + 7) / 8
	data := core.NewPRNG(p.Seed)
	msg := data.Bytes(p.MsgLen)
	meta := data.Bytes(p.MetaLen)
	pb := p.Kind == "pbrsa"
	comp := "blindrsa"
	if pb {
		comp = "partiallyblindrsa"
	} else {
		comp = fmt.Sprintf("blindrsa[%v]", blindrsa.Variant(p.Variant))
	}
	if N.BitLen()%8 == 1 {
		run.Probe("modulus-of-8k+1-bits")
	}
	run.T(comp, p.Key, p.Fault)

	saltLen := 48
	if !pb && (p.Variant == 1 || p.Variant == 3) {
		saltLen = 0
	}
	// --- reference verification of (message, signature) ---
	refVerify := func(m, md, sig []byte) bool {
		if pb {
			return pssref.Verify(N, derivedExponent(N, md), crypto.SHA384, pbMessage(m, md), sig, saltLen) == nil
		}
		return pssref.Verify(N, big.NewInt(int64(key.E)), crypto.SHA384, m, sig, saltLen) == nil
	}

	// --- protocol objects ---
	var client blindrsa.Client
	var signer blindrsa.Signer
	var pverifier partiallyblindrsa.Verifier
	var psigner partiallyblindrsa.Signer
	var err error
	// history: the caller keeps "the current public key" in one variable; it held another key
	// (used for a verification) before the key of this run was assigned to it in place
	pubSlot := &key.PublicKey
	if p.Seed%3 == 1 {
		other := fixtures.RSAKey("std-1024-b")
		if pb {
			other = fixtures.RSAKey("safe-1024-b")
		}
		if other.N.Cmp(key.N) != 0 {
			slot := other.PublicKey
			pubSlot = &slot
			core.Try(func() {
				if pb {
					_ = partiallyblindrsa.NewVerifier(pubSlot, crypto.SHA384).Verify([]byte("earlier"), []byte("md"), make([]byte, (other.N.BitLen()+7)/8))
				} else if c0, e0 := blindrsa.NewClient(blindrsa.Variant(p.Variant), pubSlot); e0 == nil {
					_ = c0.Verify([]byte("earlier"), make([]byte, (other.N.BitLen()+7)/8))
				}
			})
			*pubSlot = key.PublicKey // key rotation through the same variable
			run.Fault("history:public-key-variable-reassigned-in-place")
		}
	}
	if pb {
		pverifier = partiallyblindrsa.NewVerifier(pubSlot, crypto.SHA384)
		psigner, err = partiallyblindrsa.NewSigner(key, crypto.SHA384)
		if err != nil {
			run.Violate(comp+".NewSigner", "rejects-safe-prime-key", "%v", err)
			return
		}
	} else {
		client, err = blindrsa.NewClient(blindrsa.Variant(p.Variant), pubSlot)
		if err != nil {
			run.Violate(comp+".NewClient", "error", "%v", err)
			return
		}
		signer = blindrsa.NewSigner(key)
	}
	// history: the verifier and signer objects served an earlier session whose metadata sat
	// in the same caller buffer, which is then refilled in place for this session
	if pb && len(meta) > 0 && p.Seed%3 != 0 {
		mbuf := make([]byte, len(meta))
		for i := range mbuf {
			mbuf[i] = ^meta[i]
		}
		core.Try(func() {
			if bm, st, err := pverifier.Blind(core.NewStream(p.Seed+4242), msg, mbuf); err == nil {
				if bs, err := psigner.BlindSign(bm, mbuf); err == nil {
					if sg, err := st.Finalize(bs); err == nil {
						_ = pverifier.Verify(msg, mbuf, sg)
					}
				}
			}
		})
		copy(mbuf, meta)
		meta = mbuf
		run.Fault("history:objects-reused-metadata-buffer-refilled")
	}

	// aliasing: the caller keeps its metadata in a larger frame; the slice it hands over has
	// spare capacity holding live data, which nothing may touch
	if pb {
		frame := make([]byte, len(meta)+8)
		copy(frame, meta)
		for i := len(meta); i < len(frame); i++ {
			frame[i] = 0xa5
		}
		meta = frame[:len(meta)]
		run.Fault("aliasing:metadata-slice-with-live-spare-capacity")
		defer func() {
			for i := len(meta); i < len(frame); i++ {
				if frame[i] != 0xa5 {
					run.Violate(comp, "modifies-caller-buffer-beyond-metadata", "byte %d after the %d-byte metadata slice in the caller's frame changed from a5 to %02x", i-len(meta), len(meta), frame[i])
					return
				}
			}
		}()
	}
	// entropy seam: a call that is handed a randomness source takes all its randomness from it;
	// the process-wide source is replaced by a tripwire for the duration of the call
	withTripwire := func(what string, f func()) bool {
		keep := rand.Reader
		trip := core.NewStream(p.Seed + 999)
		rand.Reader = trip
		f()
		rand.Reader = keep
		if trip.Calls > 0 {
			run.Violate(comp+"."+what, "reads-process-wide-entropy-instead-of-the-supplied-reader", "%s was handed a randomness source but also read %d bytes from crypto/rand.Reader", what, trip.Served)
			return false
		}
		return true
	}
	if p.Seed%2 == 0 {
		run.Fault("entropy:explicit-reader-with-tripwire-on-global")
		var berr error
		ok := true
		if pb {
			ok = withTripwire("Blind", func() { _, _, berr = pverifier.Blind(core.NewStream(p.Seed+77), msg, meta) })
		} else {
			ok = withTripwire("Prepare+Blind", func() {
				var pm []byte
				if pm, berr = client.Prepare(core.NewStream(p.Seed+78), msg); berr == nil {
					_, _, berr = client.Blind(core.NewStream(p.Seed+77), pm)
				}
			})
		}
		if !ok {
			return
		}
		if berr != nil {
			run.Violate(comp+".Blind", "error", "with a working randomness source: %v", berr)
			return
		}
	}

	// blind: returns blinded message and a finaliser
	type session struct {
		blinded  []byte
		finalize func([]byte) ([]byte, error)
		prepared []byte
	}
	blind := func(prepSeed, saltSeed, blindSeed uint64, entErr bool) (*session, error) {
		s := &session{}
		if pb {
			salt := core.NewPRNG(saltSeed).Bytes(48)
			r, _ := rand.Int(core.NewStream(blindSeed), N)
			for r.Sign() == 0 || new(big.Int).GCD(nil, nil, r, N).Cmp(big.NewInt(1)) != 0 {
				r.Add(r, big.NewInt(1))
			}
			rInv := new(big.Int).ModInverse(r, N)
			var st partiallyblindrsa.VerifierState
			var err error
			if entErr {
				bad := core.NewStream(blindSeed)
				bad.FailAfter, bad.Err = p.Pos%8, errors.New("entropy device failure")
				s.blinded, st, err = pverifier.Blind(bad, msg, meta)
			} else {
				s.blinded, st, err = pverifier.FixedBlind(msg, meta, salt, r.Bytes(), rInv.Bytes())
			}
			if err != nil {
				return nil, err
			}
			s.prepared = msg
			s.finalize = func(bs []byte) ([]byte, error) { return st.Finalize(bs) }
			return s, nil
		}
		prepared, err := client.Prepare(core.NewStream(prepSeed), msg)
		if err != nil {
			return nil, err
		}
		s.prepared = prepared
		var rd io.Reader = &splitReader{a: core.NewStream(saltSeed), b: core.NewStream(blindSeed), n: saltLen}
		if entErr {
			bad := core.NewStream(blindSeed)
			bad.FailAfter, bad.Err = p.Pos%(saltLen+8), errors.New("entropy device failure")
			rd = bad
		}
		var st blindrsa.State
		s.blinded, st, err = client.Blind(rd, prepared)
		if err != nil {
			return nil, err
		}
		s.finalize = func(bs []byte) ([]byte, error) { return client.Finalize(st, bs) }
		return s, nil
	}
	sign := func(blinded []byte) ([]byte, error) {
		if pb {
			return psigner.BlindSign(blinded, meta)
		}
		return signer.BlindSign(blinded)
	}
	libVerify := func(m, md, sig []byte) (ok bool, fine bool) {
		var err error
		pan, v, st := core.Try(func() {
			if pb {
				err = pverifier.Verify(m, md, sig)
			} else {
				err = client.Verify(m, sig)
			}
		})
		if pan {
			run.Violate(comp+".Verify", core.PanicClass(v), "signature of %d bytes: %s at %s", len(sig), v, st)
			return false, false
		}
		return err == nil, true
	}

	if pb && p.Seed%4 == 0 {
		// a caller of FixedBlind brings a salt of another length than the variant's (the hash
		// size): refused, or else what the protocol then produces is a signature the library's
		// own verifier accepts
		saltN := []int{0, 32, 47, 49}[(p.Seed/4)%4]
		r, _ := rand.Int(core.NewStream(p.Seed+31), N)
		for r.Sign() == 0 || new(big.Int).GCD(nil, nil, r, N).Cmp(big.NewInt(1)) != 0 {
			r.Add(r, big.NewInt(1))
		}
		bm, st, err := pverifier.FixedBlind(msg, meta, core.NewPRNG(p.Seed+32).Bytes(saltN), r.Bytes(), new(big.Int).ModInverse(r, N).Bytes())
		run.Fault("misuse:salt-of-another-length")
		if err == nil {
			if bs, err := sign(bm); err == nil {
				if sg, err := st.Finalize(bs); err == nil {
					if ok, fine := libVerify(msg, meta, sg); fine && !ok {
						run.Violate(comp+".FixedBlind", "produces-a-signature-its-own-verifier-rejects", "FixedBlind accepts a %d-byte salt; blind-sign and Finalize succeed; the library's Verify refuses the result", saltN)
						return
					}
				}
			}
		}
	}
	if p.Fault == "entropy-error" {
		run.Fault("entropy:error")
		s, err := blind(p.Seed+1, p.Seed+2, p.Seed+3, true)
		run.Event("client", "blind-entropy-error", err)
		if err == nil && s != nil {
			run.Violate(comp+".Blind", "blinded-message-from-partial-entropy", "the entropy device failed but a blinded message was produced")
		}
		return
	}

	s1, err := blind(p.Seed+1, p.Seed+2, p.Seed+3, false)
	if err != nil {
		run.Violate(comp+".Blind", "error", "%v", err)
		return
	}
	if len(s1.blinded) != k {
		run.Violate(comp+".Blind", "wrong-length", "blinded message of %d bytes for a %d-byte modulus", len(s1.blinded), k)
		return
	}
	run.Event("client", "blind", s1.blinded)
	run.Tick(1)

	// --- signer-side faults on the blinded message ---
	switch p.Fault {
	case "blinded-N", "blinded-Nplus1", "blinded-short", "blinded-long", "blinded-zero":
		var in []byte
		switch p.Fault {
		case "blinded-N":
			in = special("N", N, k)
		case "blinded-Nplus1":
			in = special("Nplus1", N, k)
		case "blinded-short":
			in = s1.blinded[:k-1]
		case "blinded-long":
			in = append(append([]byte{}, s1.blinded...), 0)
		case "blinded-zero":
			in = make([]byte, k)
		}
		if in == nil {
			return
		}
		run.Fault("transport:" + p.Fault)
		var out []byte
		var err error
		pan, v, st := core.Try(func() { out, err = sign(in) })
		if pan {
			run.Violate(comp+".BlindSign", core.PanicClass(v), "%s: %s at %s", p.Fault, v, st)
			return
		}
		run.Event("signer", "blindsign", p.Fault, err)
		if p.Fault != "blinded-zero" && err == nil {
			run.Violate(comp+".BlindSign", "signs-"+p.Fault, "the signer accepted an input that is not a %d-byte string below the modulus and returned %x…", k, out[:8])
		}
		return
	}

	bs, err := sign(s1.blinded)
	if err != nil {
		run.Violate(comp+".BlindSign", "error-on-honest-input", "%v", err)
		return
	}
	run.Event("signer", "blindsign", bs)
	run.Tick(1)

	// --- faults on the blind signature ---
	switch p.Fault {
	case "blindsig-flip", "blindsig-zero", "blindsig-one", "blindsig-Nminus1", "blindsig-N", "blindsig-plusN", "blindsig-short", "blindsig-long", "retry-after-bad-blindsig":
		bad := append([]byte{}, bs...)
		switch p.Fault {
		case "blindsig-plusN":
			// another representative of the same residue: the blind signature is altered, finalisation must fail
			v := new(big.Int).Add(new(big.Int).SetBytes(bad), N)
			if (v.BitLen()+7)/8 > k {
				break
			}
			bad = v.FillBytes(make([]byte, k))
		case "blindsig-flip", "retry-after-bad-blindsig":
			b := p.Pos % (len(bad) * 8)
			bad[b/8] ^= 1 << (b % 8)
		case "blindsig-zero":
			bad = special("zero", N, k)
		case "blindsig-one":
			bad = special("one", N, k)
		case "blindsig-Nminus1":
			bad = special("Nminus1", N, k)
		case "blindsig-N":
			bad = special("N", N, k)
		case "blindsig-short":
			bad = bad[:k-1]
		case "blindsig-long":
			bad = append(bad, 0)
		}
		if bytes.Equal(bad, bs) {
			break // the alteration does not apply to this key size
		}
		run.Fault("transport:" + p.Fault)
		var sig []byte
		var err error
		pan, v, st := core.Try(func() { sig, err = s1.finalize(bad) })
		if pan {
			run.Violate(comp+".Finalize", core.PanicClass(v), "%s: %s at %s", p.Fault, v, st)
			return
		}
		run.Event("client", "finalize", p.Fault, err)
		if err == nil {
			run.Violate(comp+".Finalize", "accepts-"+p.Fault, "finalisation succeeded with an altered blind signature and returned %x…", sig[:8])
			return
		}
		if p.Fault != "retry-after-bad-blindsig" {
			return
		}
		// the transport retransmits the genuine blind signature: the same state must still work
	}

	sig, err := s1.finalize(bs)
	if err != nil {
		run.Violate(comp+".Finalize", "error-on-honest-blind-signature", "fault=%q: %v", p.Fault, err)
		return
	}
	run.Event("client", "finalize", sig)
	run.Tick(1)
	if p.Twice {
		run.Fault("history:finalize-twice")
		sig2, err := s1.finalize(bs)
		if err != nil || !bytes.Equal(sig, sig2) {
			run.Violate(comp+".Finalize", "second-finalize-differs", "finalising twice with one state: err=%v", err)
			return
		}
		// after a successful finalisation, trivial values must still be refused
		for _, sp := range []string{"one", "zero"} {
			if o, err := s1.finalize(special(sp, N, k)); err == nil {
				run.Violate(comp+".Finalize", "accepts-blindsig-"+sp+"-after-finalize", "returned %x…", o[:8])
				return
			}
		}
	}
	ok, fine := libVerify(s1.prepared, meta, sig)
	if !fine {
		return
	}
	if !ok {
		run.Violate(comp+".Verify", "rejects-honest-signature", "key %s (%d bits)", p.Key, N.BitLen())
		return
	}
	if !refVerify(s1.prepared, meta, sig) {
		run.Violate(comp, "signature-not-valid-RSASSA-PSS", "the final signature is rejected by the RFC 8017 reference verifier (key %s, %d bits, salt %d)", p.Key, N.BitLen(), saltLen)
		return
	}
	if !pb {
		d := sha512.Sum384(s1.prepared)
		opts := &rsa.PSSOptions{SaltLength: saltLen, Hash: crypto.SHA384}
		if saltLen == 0 {
			opts.SaltLength = rsa.PSSSaltLengthAuto
		}
		if err := rsa.VerifyPSS(&key.PublicKey, crypto.SHA384, d[:], sig, opts); err != nil {
			run.Violate(comp, "signature-rejected-by-crypto/rsa", "%v", err)
			return
		}
	}

	switch p.Fault {
	case "two-blinds":
		// same preparation randomness and salt, different blinding factor
		s2, err := blind(p.Seed+1, p.Seed+2, p.Seed+99, false)
		if err != nil {
			run.Violate(comp+".Blind", "error", "%v", err)
			return
		}
		if bytes.Equal(s2.blinded, s1.blinded) {
			panic("HARNESS: blinds did not differ")
		}
		bs2, err := sign(s2.blinded)
		if err != nil {
			run.Violate(comp+".BlindSign", "error-on-honest-input", "%v", err)
			return
		}
		sig2, err := s2.finalize(bs2)
		if err != nil {
			run.Violate(comp+".Finalize", "error-on-honest-blind-signature", "%v", err)
			return
		}
		run.Fault("entropy:different-blind-same-salt")
		if !bytes.Equal(sig, sig2) {
			run.Violate(comp, "signature-depends-on-blinding-factor", "same prepared message and salt, two blinds: %x… vs %x…", sig[:8], sig2[:8])
		}
		return
	case "sig-forged-padding":
		// the key holder signs an EMSA-PSS encoding of its own making: a junk octet in the
		// zero padding, and / or another salt length. The library and crypto/rsa must agree.
		if pb {
			return // crypto/rsa cannot take the derived (large) exponent
		}
		d := sha512.Sum384(s1.prepared)
		sl := saltLen
		var junk byte
		switch p.Pos % 3 {
		case 0:
			junk = byte(1 + p.Pos%250)
		case 1:
			junk, sl = byte(2+p.Pos%250), 5
		case 2:
			sl = 7
		}
		if junk == 0x01 {
			junk = 0x02
		}
		em := pssref.Encode(crypto.SHA384, d[:], core.NewPRNG(p.Seed+6).Bytes(sl), N.BitLen()-1, junk)
		if em == nil {
			return
		}
		forged := new(big.Int).Exp(new(big.Int).SetBytes(em), key.D, N).FillBytes(make([]byte, k))
		run.Fault("adversary:key-holder-signs-nonstandard-encoding")
		got, fine := libVerify(s1.prepared, meta, forged)
		if !fine {
			return
		}
		opts := &rsa.PSSOptions{SaltLength: saltLen, Hash: crypto.SHA384}
		if saltLen == 0 {
			opts.SaltLength = rsa.PSSSaltLengthAuto
		}
		want := rsa.VerifyPSS(&key.PublicKey, crypto.SHA384, d[:], forged, opts) == nil
		run.Event("verifier", "verify-forged-encoding", p.Pos%3, got, want)
		if got != want {
			run.Violate(comp+".Verify", "disagrees-with-crypto/rsa", "encoding with junk octet %#x in the padding and a %d-byte salt signed by the key holder: library says %v, crypto/rsa.VerifyPSS says %v (key %s)", junk, sl, got, want, p.Key)
		}
		return
	case "sig-forged-leading-octet":
		// 8k+1-bit moduli: the representative has one octet more than the encoded message. The key
		// holder signs EM + 2^(8*emLen) for a regular encoding EM: RFC 8017 8.1.2 step 2c (I2OSP to
		// emLen octets fails) and crypto/rsa refuse it; a verifier that keeps the trailing emLen
		// octets without looking at the leading one accepts it.
		if pb || N.BitLen()%8 != 1 {
			return
		}
		d := sha512.Sum384(s1.prepared)
		emLen := (N.BitLen() - 1 + 7) / 8
		top := new(big.Int).Lsh(big.NewInt(1), uint(8*emLen))
		var m *big.Int
		for try := uint64(0); try < 64 && m == nil; try++ {
			em := pssref.Encode(crypto.SHA384, d[:], core.NewPRNG(p.Seed+7+try).Bytes(saltLen), N.BitLen()-1, 0)
			if em == nil {
				return
			}
			if v := new(big.Int).Add(new(big.Int).SetBytes(em), top); v.Cmp(N) < 0 {
				m = v
			}
		}
		if m == nil {
			return
		}
		forged := new(big.Int).Exp(m, key.D, N).FillBytes(make([]byte, k))
		run.Fault("adversary:key-holder-signs-encoding-with-leading-octet")
		got, fine := libVerify(s1.prepared, meta, forged)
		if !fine {
			return
		}
		opts := &rsa.PSSOptions{SaltLength: saltLen, Hash: crypto.SHA384}
		if saltLen == 0 {
			opts.SaltLength = rsa.PSSSaltLengthAuto
		}
		want := rsa.VerifyPSS(&key.PublicKey, crypto.SHA384, d[:], forged, opts) == nil
		if ref := refVerify(s1.prepared, meta, forged); ref != want {
			panic("HARNESS: pssref and crypto/rsa disagree on an encoding with a leading octet")
		}
		run.Event("verifier", "verify-leading-octet", got, want)
		if got != want {
			run.Violate(comp+".Verify", "disagrees-with-crypto/rsa", "EM + 2^(8*emLen) for a regular encoding EM signed by the key holder (%d-bit modulus): library says %v, crypto/rsa.VerifyPSS says %v (key %s)", N.BitLen(), got, want, p.Key)
		}
		return
	case "sig-flip", "sig-zero", "sig-one", "sig-Nminus1", "sig-N", "sig-Nplus1", "sig-plusN", "sig-short", "sig-long", "msg-alter", "meta-alter":
		vm, vmd, vs := append([]byte{}, s1.prepared...), append([]byte{}, meta...), append([]byte{}, sig...)
		switch p.Fault {
		case "sig-flip":
			b := p.Pos % (len(vs) * 8)
			vs[b/8] ^= 1 << (b % 8)
		case "sig-plusN":
			// the same residue, another representative: s + N (fits in k bytes for 8k+1-bit moduli)
			v := new(big.Int).Add(new(big.Int).SetBytes(vs), N)
			if (v.BitLen()+7)/8 > k {
				return
			}
			vs = v.FillBytes(make([]byte, k))
		case "sig-short":
			vs = vs[:k-1]
		case "sig-long":
			vs = append(vs, 0)
		case "msg-alter":
			vm = append(vm, 1)
		case "meta-alter":
			if !pb {
				return
			}
			vmd = append(vmd, 1)
		default:
			vs = special(p.Fault[4:], N, k)
			if vs == nil {
				return
			}
		}
		run.Fault("transport:" + p.Fault)
		got, fine := libVerify(vm, vmd, vs)
		if !fine {
			return
		}
		want := refVerify(vm, vmd, vs)
		run.Event("verifier", "verify", p.Fault, got, want)
		if got != want {
			run.Violate(comp+".Verify", "disagrees-with-reference-verifier", "fault %s: library says %v, RFC 8017 verification says %v (key %s, %d bits)", p.Fault, got, want, p.Key, N.BitLen())
		}
	}
}

func main() {
	core.Main(&core.Property{
		ID:    "C18",
		Level: "exploration",
		Rule: "seeded plans: four RSABSSA variants over fixture keys of 1024..4096 bits incl. 8k+1-bit moduli, and the partially blind variant over safe-prime keys with metadata; messages 0..100 bytes; one fault {blind signature bit flip / 0 / 1 / N-1 / N / short / long, blinded message N / N+1 / short / long / 0 at the signer, final signature bit flip / 0 / 1 / N-1 / N / N+1 / short / long, altered message or metadata, a nonstandard encoding or EM + 2^(8 emLen) signed by the key holder, two blinds with equal salt and preparation, entropy error during Blind, retransmission after a bad blind signature, finalising twice}; directed: every variant x {1024, 1025, 2049-bit} x every fault; " +
			"non-trivial = a fault fired; distinct = distinct abstract trace",
		Assumptions: []string{
			"the big-exponent PSS reference (refmodel/pssref, RFC 8017 9.1.2) is pinned to crypto/rsa.SignPSS at start-up on 1024/1025/2049-bit keys",
			"the partially blind public exponent is derived in the harness from the draft's DerivePublicKey text (HKDF-SHA384, info 'PBRSA')",
			"crypto/rsa.VerifyPSS is applied to the four basic variants (auto salt length for the zero-salt ones)",
		},
		Components: map[string]string{
			"blindrsa Client/Signer/Verifier, partiallyblindrsa Verifier/Signer/VerifierState": "real",
			"transport of blinded message, blind signature, signature":                         "stub: simulated transport with replacement / corruption faults",
			"preparation, salt and blinding randomness":                                        "stub: deterministic entropy device (split streams, error faults)",
			"reference verifiers": "model: crypto/rsa.VerifyPSS and pssref",
		},
		ProbeNames: []string{"modulus-of-8k+1-bits"},
		Selftest: func() error {
			return pssref.Selftest([]*rsa.PrivateKey{fixtures.RSAKey("std-1024-a"), fixtures.RSAKey("std-1025-a"), fixtures.RSAKey("std-2049-a")})
		},
		Directed: directed,
		Gen:      gen,
		Exec:     exec,
		Runs:     map[string]int{"quick": 2500, "thorough": 120000},
		WallCap:  map[string]time.Duration{"quick": 100 * time.Second, "thorough": 14 * time.Minute},
	})
}
