// C11 (histories) — results depend only on explicit arguments: no aliasing, no
// stale state. histsim: a pool of long-lived library objects per family is
// driven through seeded operation sequences that deliberately alias receivers
// and operands, reuse receivers, decode into used objects and mutate objects
// returned by constructors. A value model ("an object is its canonical bytes")
// predicts every operation on freshly built objects; library-global constants
// are re-read after every step.
package main

import (
	"bytes"
	"crypto"
	"crypto/rand"
	"encoding/json"
	"fmt"
	"math/big"
	"time"

	"circlsim/core"
	"circlsim/fixtures"

	"github.com/cloudflare/circl/dh/csidh"
	"github.com/cloudflare/circl/ecc/bls12381"
	"github.com/cloudflare/circl/ecc/bls12381/ff"
	"github.com/cloudflare/circl/ecc/fourq"
	"github.com/cloudflare/circl/ecc/goldilocks"
	"github.com/cloudflare/circl/expander"
	"github.com/cloudflare/circl/group"
	"github.com/cloudflare/circl/kem/kyber/kyber768"
	"github.com/cloudflare/circl/kem/mlkem/mlkem768"
	"github.com/cloudflare/circl/math/mlsbset"
	"github.com/cloudflare/circl/math/polynomial"
	"github.com/cloudflare/circl/oprf"
	"github.com/cloudflare/circl/secretsharing"
	"github.com/cloudflare/circl/sign/bls"
	"github.com/cloudflare/circl/sign/eddilithium2"
	"github.com/cloudflare/circl/sign/eddilithium3"
	tssrsa "github.com/cloudflare/circl/tss/rsa"
)

// ---- value-model engine ----

type opDef struct {
	name string
	recv string                                     // kind of the receiver slot
	args []string                                   // kinds of operand slots
	do   func(recv any, args []any, imm uint64) any // returns the object now living in the receiver slot (recv itself for in-place ops)
}

type constDef struct {
	name string
	get  func() []byte
}

type family struct {
	name   string
	kinds  []string
	enc    map[string]func(any) []byte
	dec    map[string]func([]byte) any
	init   map[string]func(seed uint64) any
	ops    []opDef
	consts []constDef
}

type Op struct {
	Op   int    `json:"op"`
	Recv int    `json:"recv"`
	Args []int  `json:"args,omitempty"`
	Imm  uint64 `json:"imm,omitempty"`
}

type Plan struct {
	Fam   string `json:"fam"`
	Slots int    `json:"slots"`
	Seed  uint64 `json:"seed"`
	Ops   []Op   `json:"ops"`
}

var entropyTick uint64

var families = map[string]*family{}
var famNames []string

func register(f *family) {
	families[f.name] = f
	famNames = append(famNames, f.name)
}

func gen(r *core.PRNG, tier string) any {
	f := families[famNames[r.Intn(len(famNames))]]
	p := &Plan{Fam: f.name, Slots: r.Range(2, 5), Seed: r.Uint64()}
	n := r.Range(4, 40)
	if len(f.kinds) == 0 { // scenario family: each op is a self-contained scenario
		n = r.Range(1, 4)
	}
	for i := 0; i < n; i++ {
		oi := r.Intn(len(f.ops))
		o := Op{Op: oi, Recv: r.Intn(p.Slots), Imm: r.Uint64()}
		for range f.ops[oi].args {
			a := r.Intn(p.Slots)
			if r.Chance(1, 3) {
				a = o.Recv // deliberate aliasing z = x
			}
			o.Args = append(o.Args, a)
		}
		if len(o.Args) >= 2 && r.Chance(1, 4) {
			o.Args[1] = o.Args[0] // x = y
		}
		p.Ops = append(p.Ops, o)
	}
	return p
}

func exec(planJSON []byte, run *core.Run) {
	var p Plan
	if json.Unmarshal(planJSON, &p) != nil {
		run.Bad("json")
		return
	}
	f := families[p.Fam]
	if f == nil || p.Slots < 1 || p.Slots > 8 || len(p.Ops) > 200 {
		run.Bad("plan")
		return
	}
	rand.Reader = core.NewStream(p.Seed + 31)
	entropyTick = p.Seed
	comp := "hist[" + f.name + "]"
	run.T(f.name)
	// constants as first read
	base := map[string][]byte{}
	for _, c := range f.consts {
		base[c.name] = c.get()
	}
	pool := map[string][]any{}
	for _, k := range f.kinds {
		for s := 0; s < p.Slots; s++ {
			pool[k] = append(pool[k], f.init[k](p.Seed+uint64(s)*977))
		}
	}
	snapshot := func() map[string][][]byte {
		m := map[string][][]byte{}
		for _, k := range f.kinds {
			for s := 0; s < p.Slots; s++ {
				// what a marshaler returns belongs to the caller: it is copied out and scribbled over,
				// so an encoding that shares memory with the object corrupts the object visibly
				b := f.enc[k](pool[k][s])
				m[k] = append(m[k], append([]byte{}, b...))
				core.Recycle(b)
			}
		}
		return m
	}
	for i, op := range p.Ops {
		if op.Op < 0 || op.Op >= len(f.ops) || op.Recv < 0 || op.Recv >= p.Slots {
			run.Bad("op")
			return
		}
		od := f.ops[op.Op]
		if len(op.Args) != len(od.args) {
			run.Bad("arity")
			return
		}
		for _, a := range op.Args {
			if a < 0 || a >= p.Slots {
				run.Bad("arg slot")
				return
			}
		}
		before := snapshot()
		var want []byte
		var real any
		aliased := false
		if od.recv != "" {
			// model: the same operation on freshly built, pairwise distinct objects
			mrecv := f.dec[od.recv](before[od.recv][op.Recv])
			margs := make([]any, len(od.args))
			rargs := make([]any, len(od.args))
			for j, k := range od.args {
				margs[j] = f.dec[k](before[k][op.Args[j]])
				rargs[j] = pool[k][op.Args[j]]
				if k == od.recv && op.Args[j] == op.Recv {
					aliased = true
				}
				for j2 := 0; j2 < j; j2++ {
					if od.args[j2] == k && op.Args[j2] == op.Args[j] {
						aliased = true
					}
				}
			}
			pan, v, st := core.Try(func() { want = f.enc[od.recv](od.do(mrecv, margs, op.Imm)) })
			if pan {
				// the operation panics even on fresh objects (e.g. inverse of zero): not an aliasing matter
				run.Event("op", od.name, "model-panic", core.PanicClass(v), st)
				continue
			}
			pan, v, st = core.Try(func() { real = od.do(pool[od.recv][op.Recv], rargs, op.Imm) })
			if pan {
				run.Violate(comp+"."+od.name, core.PanicClass(v), "op %d on a reused/aliased pool panics but not on fresh objects: %s at %s", i, v, st)
				return
			}
			pool[od.recv][op.Recv] = real
		} else {
			// scenario op: self-contained, reports through the run
			pan, v, st := core.Try(func() { od.do(run, nil, op.Imm) })
			if pan {
				run.Violate(comp+"."+od.name, core.PanicClass(v), "%s at %s", v, st)
				return
			}
			if len(run.Viol) > 0 {
				return
			}
		}
		if aliased {
			run.Fault("aliasing:" + od.name)
		} else {
			run.Fault("reuse:" + od.name)
		}
		run.T(od.name, fmt.Sprint(aliased))
		run.Tick(1)
		after := snapshot()
		for _, k := range f.kinds {
			for s := 0; s < p.Slots; s++ {
				if k == od.recv && s == op.Recv {
					run.Event("op", od.name, op.Recv, op.Args, after[k][s])
					if !bytes.Equal(after[k][s], want) {
						run.Violate(comp+"."+od.name, "result-differs-from-fresh-objects", "op %d %s(recv=%d, args=%v, aliased=%v): pool object gives %x, the same call on freshly built equal objects gives %x", i, od.name, op.Recv, op.Args, aliased, after[k][s], want)
						return
					}
					continue
				}
				if !bytes.Equal(after[k][s], before[k][s]) {
					run.Violate(comp+"."+od.name, "modifies-an-operand-or-bystander", "op %d %s(recv=%d, args=%v): %s slot %d changed from %x to %x although it is not the receiver", i, od.name, op.Recv, op.Args, k, s, before[k][s], after[k][s])
					return
				}
			}
		}
		for _, c := range f.consts {
			if now := c.get(); !bytes.Equal(now, base[c.name]) {
				run.Violate(comp+"."+c.name, "constant-changed", "after op %d (%s) %s returns %x, at the start of the run %x", i, od.name, c.name, now, base[c.name])
				return
			}
		}
	}
}

// ---- families ----

func groupFamily(g group.Group, name string) *family {
	encE := func(x any) []byte { b, _ := x.(group.Element).MarshalBinary(); return b }
	encS := func(x any) []byte { b, _ := x.(group.Scalar).MarshalBinary(); return b }
	f := &family{name: "group/" + name, kinds: []string{"elt", "scl"},
		enc: map[string]func(any) []byte{"elt": encE, "scl": encS},
		dec: map[string]func([]byte) any{
			"elt": func(b []byte) any {
				e := g.NewElement()
				if err := e.UnmarshalBinary(b); err != nil {
					panic("HARNESS: element decode: " + err.Error())
				}
				return e
			},
			"scl": func(b []byte) any {
				s := g.NewScalar()
				if err := s.UnmarshalBinary(b); err != nil {
					panic("HARNESS: scalar decode: " + err.Error())
				}
				return s
			},
		},
		init: map[string]func(uint64) any{
			"elt": func(seed uint64) any {
				switch seed % 5 {
				case 0:
					return g.Identity()
				case 1:
					return g.Generator()
				}
				return g.HashToElement(core.NewPRNG(seed).Bytes(8), []byte("c11"))
			},
			"scl": func(seed uint64) any {
				switch seed % 5 {
				case 0:
					return g.NewScalar()
				case 1:
					return g.NewScalar().SetUint64(1)
				}
				return g.HashToScalar(core.NewPRNG(seed).Bytes(8), []byte("c11"))
			},
		},
	}
	E := func(x any) group.Element { return x.(group.Element) }
	S := func(x any) group.Scalar { return x.(group.Scalar) }
	f.ops = []opDef{
		{"Element.Add", "elt", []string{"elt", "elt"}, func(r any, a []any, _ uint64) any { return E(r).Add(E(a[0]), E(a[1])) }},
		{"Element.Dbl", "elt", []string{"elt"}, func(r any, a []any, _ uint64) any { return E(r).Dbl(E(a[0])) }},
		{"Element.Neg", "elt", []string{"elt"}, func(r any, a []any, _ uint64) any { return E(r).Neg(E(a[0])) }},
		{"Element.Mul", "elt", []string{"elt", "scl"}, func(r any, a []any, _ uint64) any { return E(r).Mul(E(a[0]), S(a[1])) }},
		{"Element.MulGen", "elt", []string{"scl"}, func(r any, a []any, _ uint64) any { return E(r).MulGen(S(a[0])) }},
		{"Element.Set", "elt", []string{"elt"}, func(r any, a []any, _ uint64) any { return E(r).Set(E(a[0])) }},
		{"Element.Copy", "elt", []string{"elt"}, func(r any, a []any, _ uint64) any { return E(a[0]).Copy() }},
		{"Element.CMov", "elt", []string{"elt"}, func(r any, a []any, imm uint64) any { return E(r).CMov(int(imm&1), E(a[0])) }},
		{"Element.CSelect", "elt", []string{"elt", "elt"}, func(r any, a []any, imm uint64) any { return E(r).CSelect(int(imm&1), E(a[0]), E(a[1])) }},
		{"Element.UnmarshalBinary(into-used)", "elt", []string{"elt"}, func(r any, a []any, imm uint64) any {
			var b []byte
			if imm&1 == 0 {
				b, _ = E(a[0]).MarshalBinary()
			} else {
				b, _ = E(a[0]).MarshalBinaryCompress()
			}
			if err := E(r).UnmarshalBinary(b); err != nil {
				panic("decode of own encoding failed: " + err.Error())
			}
			return r
		}},
		{"Group.Generator(then-mutate)", "elt", []string{"scl"}, func(r any, a []any, _ uint64) any {
			gg := g.Generator()
			gg.Mul(gg, S(a[0])) // mutating a returned object must not change what later calls return
			return gg
		}},
		{"Group.Identity(then-mutate)", "elt", []string{"elt"}, func(r any, a []any, _ uint64) any {
			id := g.Identity()
			id.Add(id, E(a[0]))
			return id
		}},
		{"Scalar.Add", "scl", []string{"scl", "scl"}, func(r any, a []any, _ uint64) any { return S(r).Add(S(a[0]), S(a[1])) }},
		{"Scalar.Sub", "scl", []string{"scl", "scl"}, func(r any, a []any, _ uint64) any { return S(r).Sub(S(a[0]), S(a[1])) }},
		{"Scalar.Mul", "scl", []string{"scl", "scl"}, func(r any, a []any, _ uint64) any { return S(r).Mul(S(a[0]), S(a[1])) }},
		{"Scalar.Neg", "scl", []string{"scl"}, func(r any, a []any, _ uint64) any { return S(r).Neg(S(a[0])) }},
		{"Scalar.Inv", "scl", []string{"scl"}, func(r any, a []any, _ uint64) any {
			if S(a[0]).IsZero() {
				return S(r).Set(S(a[0]))
			}
			return S(r).Inv(S(a[0]))
		}},
		{"Scalar.Set", "scl", []string{"scl"}, func(r any, a []any, _ uint64) any { return S(r).Set(S(a[0])) }},
		{"Scalar.Copy", "scl", []string{"scl"}, func(r any, a []any, _ uint64) any { return S(a[0]).Copy() }},
		{"Scalar.SetUint64", "scl", nil, func(r any, a []any, imm uint64) any { return S(r).SetUint64(imm) }},
		{"Scalar.CMov", "scl", []string{"scl"}, func(r any, a []any, imm uint64) any { return S(r).CMov(int(imm&1), S(a[0])) }},
		{"Scalar.CSelect", "scl", []string{"scl", "scl"}, func(r any, a []any, imm uint64) any { return S(r).CSelect(int(imm&1), S(a[0]), S(a[1])) }},
		{"Scalar.UnmarshalBinary(into-used)", "scl", []string{"scl"}, func(r any, a []any, _ uint64) any {
			b, _ := S(a[0]).MarshalBinary()
			if err := S(r).UnmarshalBinary(b); err != nil {
				panic("decode of own encoding failed")
			}
			return r
		}},
		{"Group.RandomScalar(reader)", "scl", nil, func(r any, a []any, imm uint64) any {
			// the value must be a function of the reader that is passed, nothing else
			entropyTick++ // the process-wide device differs between the model call and the pool call on purpose
			rand.Reader = core.NewStream(entropyTick)
			return g.RandomScalar(core.NewStream(imm))
		}},
	}
	f.consts = []constDef{
		{"Generator()", func() []byte { return encE(g.Generator()) }},
		{"Identity()", func() []byte { return encE(g.Identity()) }},
		{"HashToElement(fixed)", func() []byte { return encE(g.HashToElement([]byte("m"), []byte("d"))) }},
		{"MulGen(1)", func() []byte { return encE(g.NewElement().MulGen(g.NewScalar().SetUint64(1))) }},
	}
	return f
}

func blsFamily() *family {
	enc1 := func(x any) []byte { return x.(*bls12381.G1).BytesCompressed() }
	enc2 := func(x any) []byte { return x.(*bls12381.G2).BytesCompressed() }
	encS := func(x any) []byte { b, _ := x.(*bls12381.Scalar).MarshalBinary(); return b }
	f := &family{name: "bls12381", kinds: []string{"g1", "g2", "scl"},
		enc: map[string]func(any) []byte{"g1": enc1, "g2": enc2, "scl": encS},
		dec: map[string]func([]byte) any{
			"g1":  func(b []byte) any { p := new(bls12381.G1); must(p.SetBytes(b)); return p },
			"g2":  func(b []byte) any { p := new(bls12381.G2); must(p.SetBytes(b)); return p },
			"scl": func(b []byte) any { s := new(bls12381.Scalar); must(s.UnmarshalBinary(b)); return s },
		},
		init: map[string]func(uint64) any{
			"g1": func(seed uint64) any {
				p := new(bls12381.G1)
				if seed%4 == 0 {
					p.SetIdentity()
				} else {
					p.Hash(core.NewPRNG(seed).Bytes(8), []byte("c11"))
				}
				return p
			},
			"g2": func(seed uint64) any {
				p := new(bls12381.G2)
				if seed%4 == 0 {
					p.SetIdentity()
				} else {
					p.Hash(core.NewPRNG(seed).Bytes(8), []byte("c11"))
				}
				return p
			},
			"scl": func(seed uint64) any { s := new(bls12381.Scalar); s.SetBytes(core.NewPRNG(seed).Bytes(40)); return s },
		},
	}
	G1 := func(x any) *bls12381.G1 { return x.(*bls12381.G1) }
	G2 := func(x any) *bls12381.G2 { return x.(*bls12381.G2) }
	S := func(x any) *bls12381.Scalar { return x.(*bls12381.Scalar) }
	f.ops = []opDef{
		{"G1.Add", "g1", []string{"g1", "g1"}, func(r any, a []any, _ uint64) any { G1(r).Add(G1(a[0]), G1(a[1])); return r }},
		{"G1.Double", "g1", nil, func(r any, a []any, _ uint64) any { G1(r).Double(); return r }},
		{"G1.Neg", "g1", nil, func(r any, a []any, _ uint64) any { G1(r).Neg(); return r }},
		{"G1.ScalarMult", "g1", []string{"scl", "g1"}, func(r any, a []any, _ uint64) any { G1(r).ScalarMult(S(a[0]), G1(a[1])); return r }},
		{"G1.SetBytes(into-used)", "g1", []string{"g1"}, func(r any, a []any, imm uint64) any {
			b := G1(a[0]).Bytes()
			if imm&1 == 1 {
				b = G1(a[0]).BytesCompressed()
			}
			must(G1(r).SetBytes(b))
			return r
		}},
		{"G1Generator(then-mutate)", "g1", []string{"scl"}, func(r any, a []any, _ uint64) any {
			gg := bls12381.G1Generator()
			gg.ScalarMult(S(a[0]), gg)
			return gg
		}},
		{"G2.Add", "g2", []string{"g2", "g2"}, func(r any, a []any, _ uint64) any { G2(r).Add(G2(a[0]), G2(a[1])); return r }},
		{"G2.Double", "g2", nil, func(r any, a []any, _ uint64) any { G2(r).Double(); return r }},
		{"G2.Neg", "g2", nil, func(r any, a []any, _ uint64) any { G2(r).Neg(); return r }},
		{"G2.ScalarMult", "g2", []string{"scl", "g2"}, func(r any, a []any, _ uint64) any { G2(r).ScalarMult(S(a[0]), G2(a[1])); return r }},
		{"G2Generator(then-mutate)", "g2", []string{"scl"}, func(r any, a []any, _ uint64) any {
			gg := bls12381.G2Generator()
			gg.ScalarMult(S(a[0]), gg)
			return gg
		}},
		{"Scalar.Add", "scl", []string{"scl", "scl"}, func(r any, a []any, _ uint64) any { S(r).Add(S(a[0]), S(a[1])); return r }},
		{"Scalar.Mul", "scl", []string{"scl", "scl"}, func(r any, a []any, _ uint64) any { S(r).Mul(S(a[0]), S(a[1])); return r }},
		{"Scalar.Sub", "scl", []string{"scl", "scl"}, func(r any, a []any, _ uint64) any { S(r).Sub(S(a[0]), S(a[1])); return r }},
		{"Scalar.Neg", "scl", nil, func(r any, a []any, _ uint64) any { S(r).Neg(); return r }},
		{"Scalar.Sqr", "scl", []string{"scl"}, func(r any, a []any, _ uint64) any { S(r).Sqr(S(a[0])); return r }},
		{"Scalar.Inv", "scl", []string{"scl"}, func(r any, a []any, _ uint64) any { S(r).Inv(S(a[0])); return r }},
	}
	f.consts = []constDef{
		{"G1Generator()", func() []byte { return bls12381.G1Generator().BytesCompressed() }},
		{"G2Generator()", func() []byte { return bls12381.G2Generator().BytesCompressed() }},
		{"Order()", func() []byte { return append([]byte{}, bls12381.Order()...) }},
	}
	return f
}

func must(err error) {
	if err != nil {
		panic("decode of own encoding failed: " + err.Error())
	}
}

func goldilocksFamily() *family {
	var c goldilocks.Curve
	encP := func(x any) []byte { b, _ := x.(*goldilocks.Point).MarshalBinary(); return b }
	encS := func(x any) []byte { s := *x.(*goldilocks.Scalar); s.Red(); return append([]byte{}, s[:]...) }
	f := &family{name: "goldilocks", kinds: []string{"pt", "scl"},
		enc: map[string]func(any) []byte{"pt": encP, "scl": encS},
		dec: map[string]func([]byte) any{
			"pt":  func(b []byte) any { p, err := goldilocks.FromBytes(b); must(err); return p },
			"scl": func(b []byte) any { s := new(goldilocks.Scalar); s.FromBytes(b); return s },
		},
		init: map[string]func(uint64) any{
			"pt": func(seed uint64) any {
				if seed%4 == 0 {
					return c.Identity()
				}
				var k goldilocks.Scalar
				k.FromBytes(core.NewPRNG(seed).Bytes(56))
				return c.ScalarBaseMult(&k)
			},
			"scl": func(seed uint64) any {
				s := new(goldilocks.Scalar)
				s.FromBytes(core.NewPRNG(seed).Bytes(56))
				return s
			},
		},
	}
	P := func(x any) *goldilocks.Point { return x.(*goldilocks.Point) }
	S := func(x any) *goldilocks.Scalar { return x.(*goldilocks.Scalar) }
	f.ops = []opDef{
		{"Point.Add", "pt", []string{"pt"}, func(r any, a []any, _ uint64) any { P(r).Add(P(a[0])); return r }},
		{"Point.Double", "pt", nil, func(r any, a []any, _ uint64) any { P(r).Double(); return r }},
		{"Point.Neg", "pt", nil, func(r any, a []any, _ uint64) any { P(r).Neg(); return r }},
		{"Curve.Add", "pt", []string{"pt", "pt"}, func(r any, a []any, _ uint64) any { return c.Add(P(a[0]), P(a[1])) }},
		{"Curve.Double", "pt", []string{"pt"}, func(r any, a []any, _ uint64) any { return c.Double(P(a[0])) }},
		{"Curve.ScalarMult", "pt", []string{"scl", "pt"}, func(r any, a []any, _ uint64) any { return c.ScalarMult(S(a[0]), P(a[1])) }},
		{"Curve.ScalarBaseMult", "pt", []string{"scl"}, func(r any, a []any, _ uint64) any { return c.ScalarBaseMult(S(a[0])) }},
		{"Curve.CombinedMult", "pt", []string{"scl", "scl", "pt"}, func(r any, a []any, _ uint64) any { return c.CombinedMult(S(a[0]), S(a[1]), P(a[2])) }},
		{"Point.UnmarshalBinary(into-used)", "pt", []string{"pt"}, func(r any, a []any, _ uint64) any {
			b, _ := P(a[0]).MarshalBinary()
			must(P(r).UnmarshalBinary(b))
			return r
		}},
		{"Curve.Generator(then-mutate)", "pt", []string{"pt"}, func(r any, a []any, _ uint64) any { g := c.Generator(); g.Add(P(a[0])); g.Neg(); return g }},
		{"Curve.Identity(then-mutate)", "pt", []string{"pt"}, func(r any, a []any, _ uint64) any { g := c.Identity(); g.Add(P(a[0])); return g }},
		{"Scalar.Add", "scl", []string{"scl", "scl"}, func(r any, a []any, _ uint64) any { S(r).Add(S(a[0]), S(a[1])); return r }},
		{"Scalar.Sub", "scl", []string{"scl", "scl"}, func(r any, a []any, _ uint64) any { S(r).Sub(S(a[0]), S(a[1])); return r }},
		{"Scalar.Mul", "scl", []string{"scl", "scl"}, func(r any, a []any, _ uint64) any { S(r).Mul(S(a[0]), S(a[1])); return r }},
		{"Scalar.Neg", "scl", nil, func(r any, a []any, _ uint64) any { S(r).Neg(); return r }},
	}
	f.consts = []constDef{
		{"Generator()", func() []byte { return encP(c.Generator()) }},
		{"Identity()", func() []byte { return encP(c.Identity()) }},
		{"Order()", func() []byte { o := c.Order(); return append([]byte{}, o[:]...) }},
	}
	return f
}

func fourqFamily() *family {
	encP := func(x any) []byte { var o [32]byte; x.(*fourq.Point).Marshal(&o); return o[:] }
	f := &family{name: "fourq", kinds: []string{"pt", "k"},
		enc: map[string]func(any) []byte{"pt": encP, "k": func(x any) []byte { k := x.(*[32]byte); return append([]byte{}, k[:]...) }},
		dec: map[string]func([]byte) any{
			"pt": func(b []byte) any {
				var in [32]byte
				copy(in[:], b)
				p := new(fourq.Point)
				if !p.Unmarshal(&in) {
					panic("decode of own encoding failed")
				}
				return p
			},
			"k": func(b []byte) any { var k [32]byte; copy(k[:], b); return &k },
		},
		init: map[string]func(uint64) any{
			"pt": func(seed uint64) any {
				p := new(fourq.Point)
				if seed%4 == 0 {
					p.SetIdentity()
					return p
				}
				var k [32]byte
				copy(k[:], core.NewPRNG(seed).Bytes(32))
				p.ScalarBaseMult(&k)
				return p
			},
			"k": func(seed uint64) any { var k [32]byte; copy(k[:], core.NewPRNG(seed).Bytes(32)); return &k },
		},
	}
	P := func(x any) *fourq.Point { return x.(*fourq.Point) }
	K := func(x any) *[32]byte { return x.(*[32]byte) }
	f.ops = []opDef{
		{"Point.Add", "pt", []string{"pt", "pt"}, func(r any, a []any, _ uint64) any { P(r).Add(P(a[0]), P(a[1])); return r }},
		{"Point.ScalarMult", "pt", []string{"k", "pt"}, func(r any, a []any, _ uint64) any { P(r).ScalarMult(K(a[0]), P(a[1])); return r }},
		{"Point.ScalarBaseMult", "pt", []string{"k"}, func(r any, a []any, _ uint64) any { P(r).ScalarBaseMult(K(a[0])); return r }},
		{"Point.SetGenerator", "pt", nil, func(r any, a []any, _ uint64) any { P(r).SetGenerator(); return r }},
		{"Point.Unmarshal(into-used)", "pt", []string{"pt"}, func(r any, a []any, _ uint64) any {
			var b [32]byte
			P(a[0]).Marshal(&b)
			keep := b
			if !P(r).Unmarshal(&b) {
				panic("decode of own encoding failed")
			}
			if b != keep {
				panic("Unmarshal changed its input buffer")
			}
			return r
		}},
	}
	f.consts = []constDef{
		{"SetGenerator()", func() []byte { p := new(fourq.Point); p.SetGenerator(); return encP(p) }},
		{"Params()", func() []byte { c := fourq.Params(); return []byte(fmt.Sprint(*c)) }},
	}
	return f
}

// scenario family: self-contained histories around decoding into used objects,
// returned objects that alias internal storage, and argument buffers.
func scenarioFamily() *family {
	f := &family{name: "scenarios"}
	sc := func(name string, do func(run *core.Run, imm uint64)) {
		f.ops = append(f.ops, opDef{name, "", nil, func(r any, _ []any, imm uint64) any { do(r.(*core.Run), imm); return nil }})
	}
	sc("csidh.PublicKey.Import(into-used)", func(run *core.Run, imm uint64) {
		r := core.NewPRNG(imm)
		a, b := r.Bytes(csidh.PublicKeySize), r.Bytes(csidh.PublicKeySize)
		var used, fresh csidh.PublicKey
		if !used.Import(a) || !used.Import(b) || !fresh.Import(b) {
			return
		}
		ou, of := make([]byte, csidh.PublicKeySize), make([]byte, csidh.PublicKeySize)
		used.Export(ou)
		fresh.Export(of)
		if !bytes.Equal(ou, of) {
			run.Violate("hist[scenarios].csidh.PublicKey.Import", "decode-into-used-object-differs", "importing %x… into a key that held %x… exports %x…, into a fresh key %x…", b[:8], a[:8], ou[:8], of[:8])
		}
	})
	sc("csidh.PrivateKey.Import(into-used)", func(run *core.Run, imm uint64) {
		r := core.NewPRNG(imm)
		a, b := r.Bytes(csidh.PrivateKeySize), r.Bytes(csidh.PrivateKeySize)
		var used, fresh csidh.PrivateKey
		if !used.Import(a) || !used.Import(b) || !fresh.Import(b) {
			return
		}
		ou, of := make([]byte, csidh.PrivateKeySize), make([]byte, csidh.PrivateKeySize)
		used.Export(ou)
		fresh.Export(of)
		if !bytes.Equal(ou, of) {
			run.Violate("hist[scenarios].csidh.PrivateKey.Import", "decode-into-used-object-differs", "%x vs %x", ou, of)
		}
	})
	sc("encode-into-used-buffer", func(run *core.Run, imm uint64) {
		// functions that write an encoding into a buffer of the caller: what they write does
		// not depend on what the buffer held before (a buffer is reused for the next object)
		r := core.NewPRNG(imm)
		type enc struct {
			name string
			n    int
			do   func(out []byte)
		}
		var k32 [32]byte
		copy(k32[:], r.Bytes(32))
		var gs goldilocks.Scalar
		gs.FromBytes(r.Bytes(56))
		gp := goldilocks.Curve{}.ScalarBaseMult(&gs)
		if imm%3 == 0 {
			gp = goldilocks.Curve{}.Identity() // x = 0
		}
		var fp fourq.Point
		fp.ScalarBaseMult(&k32)
		var csk csidh.PrivateKey
		if csidh.GeneratePrivateKey(&csk, core.NewStream(imm)) != nil {
			panic("HARNESS: csidh.GeneratePrivateKey")
		}
		g1 := new(bls12381.G1)
		g1.Hash(r.Bytes(8), nil)
		encs := []enc{
			{"goldilocks.Point.ToBytes", 57, func(out []byte) {
				q := *gp
				if err := q.ToBytes(out); err != nil {
					panic("HARNESS: ToBytes: " + err.Error())
				}
			}},
			{"fourq.Point.Marshal", 32, func(out []byte) { q := fp; q.Marshal((*[32]byte)(out)) }},
			{"csidh.PrivateKey.Export", csidh.PrivateKeySize, func(out []byte) { csk.Export(out) }},
		}
		for _, e := range encs {
			clean, used := make([]byte, e.n), make([]byte, e.n)
			for i := range used {
				used[i] = 0xff
			}
			e.do(clean)
			e.do(used)
			run.Fault("history:output-buffer-used-before")
			if !bytes.Equal(clean, used) {
				run.Violate("hist[scenarios]."+e.name, "output-depends-on-old-buffer-contents", "into a zeroed buffer %x, into a buffer that held 0xff bytes %x", clean, used)
				return
			}
		}
		_ = g1
	})
	sc("csidh.GeneratePublicKey(into-used)", func(run *core.Run, imm uint64) {
		var sk, other csidh.PrivateKey
		if csidh.GeneratePrivateKey(&sk, core.NewStream(imm)) != nil || csidh.GeneratePrivateKey(&other, core.NewStream(imm+1)) != nil {
			panic("HARNESS: csidh.GeneratePrivateKey")
		}
		var fresh, used csidh.PublicKey
		csidh.GeneratePublicKey(&used, &other, core.NewStream(imm+2)) // the object held another key
		csidh.GeneratePublicKey(&fresh, &sk, core.NewStream(imm+3))
		csidh.GeneratePublicKey(&used, &sk, core.NewStream(imm+4))
		a, b := make([]byte, csidh.PublicKeySize), make([]byte, csidh.PublicKeySize)
		fresh.Export(a)
		used.Export(b)
		if !bytes.Equal(a, b) {
			run.Violate("hist[scenarios].csidh.GeneratePublicKey", "decode-into-used-object-differs", "the public key of one private key, generated into a fresh object: %x…, into an object that held another key: %x…", a[:8], b[:8])
		}
	})
	sc("csidh.DeriveSecret(operands)", func(run *core.Run, imm uint64) {
		var skA, skB csidh.PrivateKey
		var pkA, pkB csidh.PublicKey
		if csidh.GeneratePrivateKey(&skA, core.NewStream(imm)) != nil || csidh.GeneratePrivateKey(&skB, core.NewStream(imm+1)) != nil {
			panic("HARNESS: csidh.GeneratePrivateKey")
		}
		csidh.GeneratePublicKey(&pkA, &skA, core.NewStream(imm+2))
		csidh.GeneratePublicKey(&pkB, &skB, core.NewStream(imm+3))
		exp := func(k *csidh.PublicKey) []byte { b := make([]byte, csidh.PublicKeySize); k.Export(b); return b }
		expS := func(k *csidh.PrivateKey) []byte { b := make([]byte, csidh.PrivateKeySize); k.Export(b); return b }
		pkB0, skA0 := exp(&pkB), expS(&skA)
		var ss1, ss2, ss3 [64]byte
		if !csidh.DeriveSecret(&ss1, &pkB, &skA, core.NewStream(imm+4)) {
			run.Violate("hist[scenarios].csidh.DeriveSecret", "rejects-honest-key", "")
			return
		}
		if now := exp(&pkB); !bytes.Equal(now, pkB0) {
			run.Violate("hist[scenarios].csidh.DeriveSecret", "operation-modifies-its-operand", "the peer's public key operand exported as %x… before DeriveSecret and as %x… after it (the shared secret is %x…)", pkB0[:8], now[:8], ss1[:8])
			return
		}
		if now := expS(&skA); !bytes.Equal(now, skA0) {
			run.Violate("hist[scenarios].csidh.DeriveSecret", "operation-modifies-its-operand", "the private key operand changed")
			return
		}
		// the same call again, and the other party's view
		if !csidh.DeriveSecret(&ss2, &pkB, &skA, core.NewStream(imm+5)) || ss2 != ss1 {
			run.Violate("hist[scenarios].csidh.DeriveSecret", "second-call-differs", "DeriveSecret(pkB, skA) returned %x… and then %x…", ss1[:8], ss2[:8])
			return
		}
		if !csidh.DeriveSecret(&ss3, &pkA, &skB, core.NewStream(imm+6)) || ss3 != ss1 {
			run.Violate("hist[scenarios].csidh.DeriveSecret", "parties-disagree", "A derives %x…, B derives %x…", ss1[:8], ss3[:8])
		}
	})
	sc("mlkem768/kyber768.Unpack(into-used)", func(run *core.Run, imm uint64) {
		r := core.NewPRNG(imm)
		pk1, sk1 := mlkem768.NewKeyFromSeed(r.Bytes(mlkem768.KeySeedSize))
		pk2, sk2 := mlkem768.NewKeyFromSeed(r.Bytes(mlkem768.KeySeedSize))
		b2 := make([]byte, mlkem768.PublicKeySize)
		pk2.Pack(b2)
		// a ciphertext for key 1, made before its public-key object is recycled
		ctA, ssA := make([]byte, mlkem768.CiphertextSize), make([]byte, mlkem768.SharedKeySize)
		pk1.EncapsulateTo(ctA, ssA, r.Bytes(mlkem768.EncapsulationSeedSize))
		skA := make([]byte, mlkem768.PrivateKeySize)
		sk1.Pack(skA)
		// a refused decode into the object first (a key with a coefficient out of range), then key 2
		bad := append([]byte{}, b2...)
		bad[0], bad[1] = 0xff, 0xff
		_ = pk1.Unpack(bad)
		checkSk1 := func(when string) bool {
			dA := make([]byte, mlkem768.SharedKeySize)
			sk1.DecapsulateTo(dA, ctA)
			now := make([]byte, mlkem768.PrivateKeySize)
			sk1.Pack(now)
			if !bytes.Equal(dA, ssA) || !bytes.Equal(now, skA) {
				run.Violate("hist[scenarios].mlkem768.PublicKey.Unpack", "operation-modifies-another-object", "%s the public-key object returned by NewKeyFromSeed, the private key from the same call no longer decapsulates its own ciphertext / packs differently", when)
				return false
			}
			return true
		}
		if !checkSk1("after a refused decode into") {
			return
		}
		if err := pk1.Unpack(b2); err != nil { // decode key 2 into the object that held key 1
			run.Violate("hist[scenarios].mlkem768.PublicKey.Unpack", "decode-into-used-object-fails", "%v", err)
			return
		}
		if !checkSk1("after decoding another key into") {
			return
		}
		seed := r.Bytes(mlkem768.EncapsulationSeedSize)
		ct1, ss1 := make([]byte, mlkem768.CiphertextSize), make([]byte, mlkem768.SharedKeySize)
		ct2, ss2 := make([]byte, mlkem768.CiphertextSize), make([]byte, mlkem768.SharedKeySize)
		pk1.EncapsulateTo(ct1, ss1, seed)
		pk2.EncapsulateTo(ct2, ss2, seed)
		if !bytes.Equal(ct1, ct2) || !bytes.Equal(ss1, ss2) {
			run.Violate("hist[scenarios].mlkem768.PublicKey.Unpack", "decode-into-used-object-differs", "a key decoded into a used object encapsulates differently from the same key decoded into a fresh object")
			return
		}
		sb2 := make([]byte, mlkem768.PrivateKeySize)
		sk2.Pack(sb2)
		if err := sk1.Unpack(sb2); err != nil {
			run.Violate("hist[scenarios].mlkem768.PrivateKey.Unpack", "decode-into-used-object-fails", "%v", err)
			return
		}
		d1, d2 := make([]byte, mlkem768.SharedKeySize), make([]byte, mlkem768.SharedKeySize)
		sk1.DecapsulateTo(d1, ct2)
		sk2.DecapsulateTo(d2, ct2)
		if !bytes.Equal(d1, d2) || !bytes.Equal(d1, ss2) {
			run.Violate("hist[scenarios].mlkem768.PrivateKey.Unpack", "decode-into-used-object-differs", "decapsulation differs")
		}
		// round-3 Kyber as well
		kp1, _ := kyber768.NewKeyFromSeed(r.Bytes(kyber768.KeySeedSize))
		kp2, _ := kyber768.NewKeyFromSeed(r.Bytes(kyber768.KeySeedSize))
		kb := make([]byte, kyber768.PublicKeySize)
		kp2.Pack(kb)
		kp1.Unpack(kb)
		kb1 := make([]byte, kyber768.PublicKeySize)
		kp1.Pack(kb1)
		if !bytes.Equal(kb, kb1) {
			run.Violate("hist[scenarios].kyber768.PublicKey.Unpack", "decode-into-used-object-differs", "re-packed key differs")
		}
	})
	sc("polynomial/secretsharing(mutate-returned)", func(run *core.Run, imm uint64) {
		r := core.NewPRNG(imm)
		g := []group.Group{group.P256, group.Ristretto255}[imm%2]
		t := uint(r.Intn(4))
		coeffs := make([]group.Scalar, t+1)
		for i := range coeffs {
			coeffs[i] = g.HashToScalar(r.Bytes(8), nil)
		}
		keep := make([][]byte, len(coeffs))
		for i := range coeffs {
			keep[i], _ = coeffs[i].MarshalBinary()
		}
		p := polynomial.New(coeffs)
		x := g.HashToScalar(r.Bytes(8), nil)
		first, _ := p.Evaluate(x).MarshalBinary()
		// mutate everything that was handed in or out
		coeffs[0].Add(coeffs[0], x)
		y := p.Evaluate(x)
		y.Mul(y, y)
		y.SetUint64(7)
		c0 := p.Coefficient(0)
		c0.SetUint64(9)
		second, _ := p.Evaluate(x).MarshalBinary()
		if !bytes.Equal(first, second) {
			run.Violate("hist[scenarios].polynomial.Evaluate", "stale-or-aliased-state", "degree %d: Evaluate(x) changed after the caller modified its own coefficient slice / a returned value", t)
			return
		}
		// secret sharing: shares handed out earlier are modified by their holders
		secret := g.HashToScalar(r.Bytes(8), nil)
		sb, _ := secret.MarshalBinary()
		ss := secretsharing.New(core.NewStream(imm), t, secret)
		s1 := ss.Share(t + 2)
		enc := func(sh []secretsharing.Share) (out [][]byte) {
			for _, s := range sh {
				a, _ := s.ID.MarshalBinary()
				b, _ := s.Value.MarshalBinary()
				out = append(out, append(a, b...))
			}
			return
		}
		e1 := enc(s1)
		for i := range s1 {
			s1[i].Value.Add(s1[i].Value, s1[i].Value)
			s1[i].ID.SetUint64(77)
		}
		e2 := enc(ss.Share(t + 2))
		for i := range e1 {
			if !bytes.Equal(e1[i], e2[i]) {
				run.Violate("hist[scenarios].secretsharing.Share", "modifying-returned-share-changes-later-results", "t=%d: share %d dealt again differs after the first batch was modified by its holders", t, i+1)
				return
			}
		}
		rec, err := secretsharing.Recover(t, ss.Share(t+1))
		if err != nil {
			return
		}
		if rb, _ := rec.MarshalBinary(); !bytes.Equal(rb, sb) {
			run.Violate("hist[scenarios].secretsharing.Recover", "modifying-returned-share-changes-later-results", "t=%d: the secret recovered from a later batch is wrong", t)
		}
	})
	sc("tss/rsa.KeyShare.Sign(second-use)", func(run *core.Run, imm uint64) {
		key := fixtures.RSAKey("std-1024-a")
		cache, blind := imm&1 == 1, imm&2 == 2
		shares, err := tssrsa.Deal(core.NewStream(imm), 3, 2, key, cache)
		if err != nil {
			panic("HARNESS: Deal: " + err.Error())
		}
		digest := make([]byte, 128)
		digest[127] = byte(imm>>2) | 1
		var second []tssrsa.SignShare
		for i := 0; i < 2; i++ {
			ks := &shares[(int(imm>>4)+i)%3]
			enc0, _ := ks.MarshalBinary()
			sign := func(n uint64) tssrsa.SignShare {
				var ss tssrsa.SignShare
				var err error
				if blind {
					ss, err = ks.Sign(core.NewStream(imm+n), &key.PublicKey, digest, false)
				} else {
					ss, err = ks.Sign(nil, &key.PublicKey, digest, false)
				}
				if err != nil {
					panic("HARNESS: Sign: " + err.Error())
				}
				return ss
			}
			s1 := sign(7)
			enc1, _ := ks.MarshalBinary()
			if cache && !bytes.Equal(enc0, enc1) {
				run.Violate("hist[scenarios].tss/rsa.KeyShare.Sign", "operation-modifies-its-receiver", "cache=%v blind=%v: the key share encodes differently after Sign", cache, blind)
				return
			}
			s2 := sign(7)
			b1, _ := s1.MarshalBinary()
			b2, _ := s2.MarshalBinary()
			if !bytes.Equal(b1, b2) {
				run.Violate("hist[scenarios].tss/rsa.KeyShare.Sign", "stale-or-aliased-state", "cache=%v blind=%v: signing the same digest twice with the same share and the same randomness gives different partial signatures", cache, blind)
				return
			}
			second = append(second, s2)
		}
		var enc [][]byte
		for i := range second {
			b, _ := second[i].MarshalBinary()
			enc = append(enc, b)
		}
		sig1, err := tssrsa.CombineSignShares(&key.PublicKey, second, digest)
		if err != nil {
			run.Violate("hist[scenarios].tss/rsa.KeyShare.Sign", "stale-or-aliased-state", "cache=%v blind=%v: partial signatures from the second use of each share do not combine: %v", cache, blind, err)
			return
		}
		for i := range second {
			if b, _ := second[i].MarshalBinary(); !bytes.Equal(b, enc[i]) {
				run.Violate("hist[scenarios].tss/rsa.CombineSignShares", "operation-modifies-its-operand", "signature share %d encodes differently after CombineSignShares", i)
				return
			}
		}
		if sig2, err := tssrsa.CombineSignShares(&key.PublicKey, second, digest); err != nil || !bytes.Equal(sig1, sig2) {
			run.Violate("hist[scenarios].tss/rsa.CombineSignShares", "stale-or-aliased-state", "combining the same shares a second time: err=%v", err)
		}
	})
	sc("tss/rsa.KeyShare.UnmarshalBinary(into-used-object)", func(run *core.Run, imm uint64) {
		// a key share decoded into an object that held another share (with or without the memoised
		// exponent) is the share decoded into a fresh object: same encoding, same partial signature
		key := fixtures.RSAKey("std-1024-a")
		heldCache, newCache := imm&1 == 1, imm&2 == 2
		held, err := tssrsa.Deal(core.NewStream(imm+1), 3, 2, key, heldCache)
		if err != nil {
			panic("HARNESS: Deal: " + err.Error())
		}
		other, err := tssrsa.Deal(core.NewStream(imm+2), 3, 2, key, newCache)
		if err != nil {
			panic("HARNESS: Deal: " + err.Error())
		}
		digest := make([]byte, 128)
		digest[127] = byte(imm>>2) | 1
		used := held[int(imm>>4)%3]
		enc, _ := other[int(imm>>6)%3].MarshalBinary()
		keep := append([]byte{}, enc...)
		var fresh tssrsa.KeyShare
		if err := fresh.UnmarshalBinary(enc); err != nil {
			panic("HARNESS: KeyShare.UnmarshalBinary of an own encoding: " + err.Error())
		}
		if err := used.UnmarshalBinary(enc); err != nil {
			run.Violate("hist[scenarios].tss/rsa.KeyShare.UnmarshalBinary", "decode-into-used-object-differs", "held cache=%v new cache=%v: the used object refuses what a fresh one accepts: %v", heldCache, newCache, err)
			return
		}
		core.Recycle(enc)
		fb, _ := fresh.MarshalBinary()
		ub, _ := used.MarshalBinary()
		if !bytes.Equal(fb, keep) || !bytes.Equal(ub, keep) {
			run.Violate("hist[scenarios].tss/rsa.KeyShare.UnmarshalBinary", "decode-into-used-object-differs", "held cache=%v new cache=%v: the decoded share encodes as the input: fresh object %v, used object %v", heldCache, newCache, bytes.Equal(fb, keep), bytes.Equal(ub, keep))
			return
		}
		fs, err1 := fresh.Sign(nil, &key.PublicKey, digest, false)
		us, err2 := used.Sign(nil, &key.PublicKey, digest, false)
		if err1 != nil || err2 != nil {
			panic("HARNESS: Sign")
		}
		fsb, _ := fs.MarshalBinary()
		usb, _ := us.MarshalBinary()
		if !bytes.Equal(fsb, usb) {
			run.Violate("hist[scenarios].tss/rsa.KeyShare.UnmarshalBinary", "decode-into-used-object-differs", "held cache=%v new cache=%v: the share decoded into a used object signs differently from the share decoded into a fresh one", heldCache, newCache)
		}
	})
	sc("eddilithium2/3.PublicKey.Unpack(buffer-reused)", func(run *core.Run, imm uint64) {
		r := core.NewPRNG(imm)
		var seed2 [eddilithium2.SeedSize]byte
		copy(seed2[:], r.Bytes(len(seed2)))
		pkA, skA := eddilithium2.NewKeyFromSeed(&seed2)
		var bufA [eddilithium2.PublicKeySize]byte
		pkA.Pack(&bufA)
		keep := bufA
		var got eddilithium2.PublicKey
		got.Unpack(&bufA)
		core.Recycle(bufA[:]) // the array the key was read from is reused by its owner
		msg := r.Bytes(20)
		var sig [eddilithium2.SignatureSize]byte
		eddilithium2.SignTo(skA, msg, sig[:])
		var again [eddilithium2.PublicKeySize]byte
		got.Pack(&again)
		if again != keep || !got.Equal(pkA) || !eddilithium2.Verify(&got, msg, sig[:]) {
			run.Violate("hist[scenarios].eddilithium2.PublicKey.Unpack", "retains-the-callers-buffer", "a key unpacked from an array changes when the caller reuses the array (packs equal: %v, Equal: %v)", again == keep, got.Equal(pkA))
			return
		}
		var seed3 [eddilithium3.SeedSize]byte
		copy(seed3[:], r.Bytes(len(seed3)))
		pkB, skB := eddilithium3.NewKeyFromSeed(&seed3)
		var bufB [eddilithium3.PublicKeySize]byte
		pkB.Pack(&bufB)
		keepB := bufB
		var gotB eddilithium3.PublicKey
		gotB.Unpack(&bufB)
		core.Recycle(bufB[:])
		var sigB [eddilithium3.SignatureSize]byte
		eddilithium3.SignTo(skB, msg, sigB[:])
		var againB [eddilithium3.PublicKeySize]byte
		gotB.Pack(&againB)
		if againB != keepB || !gotB.Equal(pkB) || !eddilithium3.Verify(&gotB, msg, sigB[:]) {
			run.Violate("hist[scenarios].eddilithium3.PublicKey.Unpack", "retains-the-callers-buffer", "a key unpacked from an array changes when the caller reuses the array")
			return
		}
		var skBuf [eddilithium2.PrivateKeySize]byte
		skA.Pack(&skBuf)
		var sk2 eddilithium2.PrivateKey
		sk2.Unpack(&skBuf)
		core.Recycle(skBuf[:])
		if !sk2.Equal(skA) {
			run.Violate("hist[scenarios].eddilithium2.PrivateKey.Unpack", "retains-the-callers-buffer", "a private key unpacked from an array changes when the caller reuses the array")
		}
	})
	sc("bls12381/ff.Order(mutate-returned)", func(run *core.Run, imm uint64) {
		fo, so := ff.FpOrder(), ff.ScalarOrder()
		keepF, keepS := append([]byte{}, fo...), append([]byte{}, so...)
		// x + p for a valid G1 encoding, built before anything is modified
		var pt bls12381.G1
		var k bls12381.Scalar
		k.SetUint64(imm | 1)
		pt.ScalarMult(&k, bls12381.G1Generator())
		enc := pt.BytesCompressed()
		x := new(big.Int).SetBytes(append([]byte{enc[0] & 0x1f}, enc[1:]...))
		x.Add(x, new(big.Int).SetBytes(keepF))
		var plusP []byte
		if x.BitLen() <= 381 {
			plusP = x.FillBytes(make([]byte, 48))
			plusP[0] |= enc[0] & 0xe0
		}
		// the caller treats what it got as its own: reverses one, zeroes the other
		for i, j := 0, len(fo)-1; i < j; i, j = i+1, j-1 {
			fo[i], fo[j] = fo[j], fo[i]
		}
		for i := range so {
			so[i] = 0
		}
		if !bytes.Equal(ff.FpOrder(), keepF) || !bytes.Equal(ff.ScalarOrder(), keepS) {
			run.Violate("hist[scenarios].bls12381/ff.FpOrder/ScalarOrder", "modifying-a-returned-value-changes-later-results", "the order returned after the caller modified an earlier result differs")
			return
		}
		if plusP != nil {
			var q bls12381.G1
			if q.SetBytes(plusP) == nil {
				run.Violate("hist[scenarios].bls12381.G1.SetBytes", "modifying-a-returned-value-changes-later-results", "after the caller modified the slice returned by ff.FpOrder(), the coordinate x+p is accepted")
				return
			}
		}
		var s1 ff.Scalar
		if s1.UnmarshalBinary(keepS) == nil {
			run.Violate("hist[scenarios].bls12381/ff.Scalar.UnmarshalBinary", "modifying-a-returned-value-changes-later-results", "after the caller modified the slice returned by ff.ScalarOrder(), the scalar r is accepted")
		}
	})
	sc("bls/oprf.PrivateKey.Public()(overwrite-returned)", func(run *core.Run, imm uint64) {
		r := core.NewPRNG(imm)
		ikm1, ikm2 := r.Bytes(32), r.Bytes(32)
		// BLS, both key groups
		blsCase := func(name string, pubOf func(ikm []byte) (enc func() []byte, overwrite func(other []byte) error)) bool {
			enc1, over1 := pubOf(ikm1)
			enc2, _ := pubOf(ikm2)
			b1, b2 := enc1(), enc2()
			if err := over1(b2); err != nil {
				return true
			}
			if again := enc1(); !bytes.Equal(again, b1) {
				run.Violate("hist[scenarios]."+name, "modifying-a-returned-value-changes-later-results", "the holder of the object returned by the private key's public-key accessor decoded another key into it; the accessor now returns %x… instead of %x…", again[:8], b1[:8])
				return false
			}
			return true
		}
		if !blsCase("bls[G1].PrivateKey.PublicKey", func(ikm []byte) (func() []byte, func([]byte) error) {
			sk, err := bls.KeyGen[bls.G1](ikm, nil, nil)
			must(err)
			return func() []byte { b, _ := sk.PublicKey().MarshalBinary(); return b }, func(o []byte) error { return sk.PublicKey().UnmarshalBinary(o) }
		}) {
			return
		}
		if !blsCase("bls[G2].PrivateKey.PublicKey", func(ikm []byte) (func() []byte, func([]byte) error) {
			sk, err := bls.KeyGen[bls.G2](ikm, nil, nil)
			must(err)
			return func() []byte { b, _ := sk.PublicKey().MarshalBinary(); return b }, func(o []byte) error { return sk.PublicKey().UnmarshalBinary(o) }
		}) {
			return
		}
		for _, su := range []oprf.Suite{oprf.SuiteRistretto255, oprf.SuiteP256, oprf.SuiteP384, oprf.SuiteP521} {
			su := su
			if !blsCase("oprf["+su.Identifier()+"].PrivateKey.Public", func(ikm []byte) (func() []byte, func([]byte) error) {
				sk, err := oprf.DeriveKey(su, oprf.VerifiableMode, ikm, nil)
				must(err)
				return func() []byte { b, _ := sk.Public().MarshalBinary(); return b }, func(o []byte) error { return sk.Public().UnmarshalBinary(su, o) }
			}) {
				return
			}
		}
	})
	sc("mlsbset.Encode(short-k-with-spare-capacity)", func(run *core.Run, imm uint64) {
		enc, err := mlsbset.New(64+uint(imm%128), 2, 3)
		if err != nil {
			return
		}
		full := int(enc.GetParams().L+7) / 8
		n := 1 + int(imm>>8)%full // the exponent is given in n <= full bytes inside a larger buffer
		buf := core.NewPRNG(imm).Bytes(full + 8)
		buf[0] |= 1
		keep := append([]byte{}, buf...)
		p1, err1 := enc.Encode(buf[:n])
		p2, err2 := enc.Encode(append([]byte{}, keep[:n]...))
		if (err1 == nil) != (err2 == nil) || (err1 == nil && p1.String() != p2.String()) {
			run.Violate("hist[scenarios].mlsbset.Encode", "result-depends-on-buffer-capacity", "k with spare capacity encodes differently")
			return
		}
		if !bytes.Equal(buf, keep) {
			run.Violate("hist[scenarios].mlsbset.Encode", "modifies-caller-buffer-beyond-k", "the bytes after k[:%d] in the caller's backing array changed: %x -> %x", n, keep[n:], buf[n:])
		}
	})
	sc("expander/HashToElement(dst-with-spare-capacity)", func(run *core.Run, imm uint64) {
		r := core.NewPRNG(imm)
		// tags sliced from one shared buffer: cap(dst) > len(dst)
		buf := r.Bytes(64)
		keep := append([]byte{}, buf...)
		n := 1 + int(imm%40)
		dst := buf[:n]
		msg := r.Bytes(20)
		var outs [][]byte
		for _, g := range []group.Group{group.P256, group.Ristretto255} {
			e1, _ := g.HashToElement(msg, dst).MarshalBinary()
			e2, _ := g.HashToElement(msg, append([]byte{}, dst...)).MarshalBinary()
			s1, _ := g.HashToScalar(msg, dst).MarshalBinary()
			s2, _ := g.HashToScalar(msg, append([]byte{}, dst...)).MarshalBinary()
			outs = append(outs, e1)
			if !bytes.Equal(e1, e2) || !bytes.Equal(s1, s2) {
				run.Violate("hist[scenarios].group.HashToElement", "result-depends-on-buffer-capacity", "dst with spare capacity hashes differently")
				return
			}
		}
		x := expander.NewExpanderMD(crypto.SHA256, dst)
		x.Expand(msg, 40)
		if !bytes.Equal(buf, keep) {
			run.Violate("hist[scenarios].expander/group.HashTo*", "modifies-caller-buffer-beyond-dst", "the %d bytes after dst[:%d] in the caller's backing array changed: %x -> %x", 64-n, n, keep[n:n+4], buf[n:n+4])
		}
	})
	return f
}

func main() {
	register(groupFamily(group.P256, "P256"))
	register(groupFamily(group.P384, "P384"))
	register(groupFamily(group.P521, "P521"))
	register(groupFamily(group.Ristretto255, "ristretto255"))
	register(blsFamily())
	register(goldilocksFamily())
	register(fourqFamily())
	register(scenarioFamily())
	register(readersFamily())
	register(typedFamily())
	register(decodersFamily())
	register(spareFamily())
	core.Main(&core.Property{
		ID:    "C11",
		Level: "exploration",
		Rule:  "histories: per family (group P-256/P-384/P-521/ristretto255 elements and scalars, BLS12-381 G1/G2/scalars, Goldilocks points and scalars, FourQ points; scenario family: CSIDH keys, ML-KEM/Kyber keys decoded into used objects, polynomial / secret-sharing objects whose inputs and outputs are mutated, expander / hash-to-group tags with spare capacity, threshold-RSA shares signed twice; typed-keys family: for the typed Pack / Unpack APIs of Kyber and ML-KEM (all sizes), Dilithium and ML-DSA (all modes) and both Ed-Dilithium composites, a history over two key pairs — refused and successful Unpack into the objects key generation returned, from buffers that are recycled at once — after which every object packs and behaves like the same key on fresh objects and untouched siblings are unchanged; decoders family: every entry point of the codec registry receives its (valid or faulted) input as a slice with live spare capacity and may neither change it nor write behind it; readers family: every exported call that is handed a randomness source — group, secret sharing, DL / DLEQ / Qn-DLEQ provers, OPRF / EdDSA / ML-DSA / Dilithium / ML-KEM / Kyber / X-Wing / CSIDH / SIDH key generation, field sampling, HPKE sender setup, threshold-RSA dealing and blinded signing, blind RSA, CP-ABE encryption and key generation — run with the process-wide source replaced by a tripwire, twice with equal sources) 4..40 operations over a pool of 2..5 long-lived slots with deliberate aliasing (receiver = operand, operand = operand), receiver reuse, decode-into-used-object and mutate-returned-constant operations; after every operation: receiver = prediction of the value model on freshly built objects, every other slot unchanged, Generator()/Identity()/Order()/Params() unchanged. non-trivial = at least one operation executed on aliased or reused objects; distinct = distinct abstract trace (op kinds, aliasing pattern)",
		Assumptions: []string{
			"an object is its canonical bytes (group membership and arithmetic are trusted: C12/C13 not claimed)",
			"operations that panic on freshly built objects too (e.g. inverting zero) are skipped",
		},
		Components: map[string]string{
			"group, ecc/bls12381, ecc/goldilocks, ecc/fourq, dh/csidh, kem/mlkem, kem/kyber, math/polynomial, secretsharing, expander": "real",
			"caller's object reuse and aliasing pattern": "stub: seeded history generator",
			"expected values": "model: the same call replayed on fresh objects built from canonical bytes",
		},
		Gen:     gen,
		Exec:    exec,
		Isolate: true,
		Runs:    map[string]int{"quick": 12000, "thorough": 600000},
		WallCap: map[string]time.Duration{"quick": 60 * time.Second, "thorough": 10 * time.Minute},
	})
}
