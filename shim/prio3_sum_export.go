//go:build verif

package sum

// Adversarial-client seam for the simulator (see shim/prio3_internal_export.go). Mapped into
// vdaf/prio3/sum by go build -overlay; never committed to /repo.
func (x *Sum) VerifEncode(measurement uint64) (Vec, error) { return x.p.VerifEncode(measurement) }

func (x *Sum) VerifShardEncoded(enc Vec, nonce *Nonce, rand []byte) (PublicShare, []InputShare, error) {
	return x.p.VerifShardEncoded(enc, nonce, rand)
}
