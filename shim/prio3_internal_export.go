//go:build verif

package prio3

// VerifEncode / VerifShardEncoded split Shard into its two halves for the simulator's
// adversarial client, which encodes a valid measurement, moves the encoding out of the valid
// set, and then runs the honest prover and sharding on it (the range checks of Encode are
// what a malicious client would skip). Mapped into vdaf/prio3/internal/prio3 by
// go build -overlay; never committed to /repo.
func (v *Prio3[M, A, T, V, E, F]) VerifEncode(measurement M) (V, error) {
	return v.flp.Encode(measurement)
}

func (v *Prio3[M, A, T, V, E, F]) VerifShardEncoded(
	meas V, nonce *Nonce, rand []byte,
) (PublicShare, []InputShare[V, E], error) {
	if len(rand) != int(v.randSize) {
		return nil, nil, ErrRandSize
	}
	if v.flp.JointRandLength() == 0 {
		inputShare, err := v.shardNoJointRand(meas, rand)
		return nil, inputShare, err
	}
	return v.shardWithJointRand(meas, nonce, rand)
}
