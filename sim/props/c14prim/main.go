// c14prim — primitive-level transcript for C14 (not a property of its own): a
// seeded, edge-biased sequence of operations over the public arithmetic and
// primitive packages that the protocol workloads do not call directly. Its
// event log is replayed under every build / CPU configuration by the C14 check.
package main

import (
	"encoding/json"
	"fmt"
	"math/big"
	"time"

	"circlsim/core"

	"github.com/cloudflare/circl/dh/csidh"
	"github.com/cloudflare/circl/dh/curve4q"
	"github.com/cloudflare/circl/dh/sidh"
	"github.com/cloudflare/circl/dh/x25519"
	"github.com/cloudflare/circl/dh/x448"
	"github.com/cloudflare/circl/ecc/fourq"
	"github.com/cloudflare/circl/ecc/goldilocks"
	"github.com/cloudflare/circl/ecc/p384"
	"github.com/cloudflare/circl/kem"
	"github.com/cloudflare/circl/kem/frodo/frodo640shake"
	"github.com/cloudflare/circl/kem/kyber/kyber768"
	"github.com/cloudflare/circl/kem/mlkem/mlkem1024"
	"github.com/cloudflare/circl/kem/mlkem/mlkem512"
	"github.com/cloudflare/circl/kem/mlkem/mlkem768"
	"github.com/cloudflare/circl/kem/sike/sikep434"
	"github.com/cloudflare/circl/kem/xwing"
	"github.com/cloudflare/circl/math/fp25519"
	"github.com/cloudflare/circl/math/fp448"
	kyberpke "github.com/cloudflare/circl/pke/kyber/kyber768"
	"github.com/cloudflare/circl/sign/dilithium/mode3"
	"github.com/cloudflare/circl/sign/ed25519"
	"github.com/cloudflare/circl/sign/ed448"
	"github.com/cloudflare/circl/sign/mldsa/mldsa44"
	"github.com/cloudflare/circl/sign/mldsa/mldsa65"
	"github.com/cloudflare/circl/sign/mldsa/mldsa87"
	"github.com/cloudflare/circl/simd/keccakf1600"
	"github.com/cloudflare/circl/xof"
	"github.com/cloudflare/circl/xof/k12"
)

type Op struct {
	K string `json:"k"`
	A uint64 `json:"a"`
	B uint64 `json:"b"`
	N int    `json:"n,omitempty"`
}

type Plan struct {
	Ops []Op `json:"ops"`
}

var kinds = []string{"fp25519", "fp448", "x25519", "x448", "ed25519", "ed448", "goldilocks", "fourq", "curve4q", "p384", "csidh", "sidh", "sike",
	"mlkem512", "mlkem768", "mlkem1024", "kyber768", "kyberpke", "dilithium3", "mldsa44", "mldsa65", "mldsa87", "shake", "k12", "keccakx", "frodo", "xwing"}
var weights = []int{30, 30, 12, 10, 8, 6, 6, 10, 6, 10, 1, 2, 1, 6, 6, 5, 6, 5, 4, 4, 4, 3, 10, 10, 8, 1, 4}

func gen(r *core.PRNG, tier string) any {
	p := &Plan{}
	for i, n := 0, r.Range(3, 12); i < n; i++ {
		p.Ops = append(p.Ops, Op{K: kinds[r.Pick(weights...)], A: r.Uint64(), B: r.Uint64(), N: r.Intn(1 << 16)})
	}
	return p
}

func directed(tier string) []any {
	var out []any
	for i, k := range kinds {
		p := &Plan{}
		for j := 0; j < 3; j++ {
			p.Ops = append(p.Ops, Op{K: k, A: uint64(i*100 + j), B: uint64(j), N: j * 4097})
		}
		out = append(out, p)
	}
	return out
}

// edgeBytes: byte strings biased to limb patterns that exercise carry chains and final reductions.
func edgeBytes(seed uint64, n int) []byte {
	r := core.NewPRNG(seed)
	b := make([]byte, n)
	switch r.Intn(8) {
	case 0: // all ones
		for i := range b {
			b[i] = 0xff
		}
	case 1: // 2^k-ish limbs
		limbs := []uint64{0, 1, 2, 18, 19, 20, 37, 38, 39, 1<<32 - 1, 1 << 32, 1 << 63, ^uint64(0) - 18, ^uint64(0) - 37, ^uint64(0) - 1, ^uint64(0)}
		for i := 0; i+8 <= n; i += 8 {
			v := limbs[r.Intn(len(limbs))]
			for j := 0; j < 8; j++ {
				b[i+j] = byte(v >> (8 * j))
			}
		}
	case 2: // p - small for 2^255-19 and 2^448-2^224-1 shapes
		for i := range b {
			b[i] = 0xff
		}
		b[0] = byte(0xed - r.Intn(4) + r.Intn(8))
		if n == 32 {
			b[31] = 0x7f
		}
		if n == 56 {
			b[28] = 0xfe + byte(r.Intn(2))
		}
	case 3:
		// zero / one / two
		b[0] = byte(r.Intn(3))
	default:
		r.Fill(b)
	}
	return b
}

func exec(planJSON []byte, run *core.Run) {
	var p Plan
	if json.Unmarshal(planJSON, &p) != nil {
		run.Bad("json")
		return
	}
	for _, op := range p.Ops {
		pan, v, st := core.Try(func() { doOp(op, run) })
		if pan {
			// a panic is part of the observable behaviour: it must be the same under every configuration
			// (the class only: a stack trace carries argument addresses that differ run to run)
			_ = st
			run.Event("prim", "v", op.K, "panic", core.PanicClass(v))
		}
		run.T(op.K)
		run.Tick(1)
	}
	run.NonTrivial = true
}

func doOp(op Op, run *core.Run) {
	r := core.NewPRNG(op.A ^ 0x1234)
	switch op.K {
	case "fp25519":
		var x, y, z, w fp25519.Elt
		copy(x[:], edgeBytes(op.A, 32))
		copy(y[:], edgeBytes(op.B, 32))
		canon := func(e fp25519.Elt) []byte { b := make([]byte, 32); c := e; _ = fp25519.ToBytes(b, &c); return b }
		fp25519.Mul(&z, &x, &y)
		run.Event("fp25519", "mul", canon(z))
		fp25519.Sqr(&z, &x)
		run.Event("fp25519", "sqr", canon(z))
		fp25519.Add(&z, &x, &y)
		run.Event("fp25519", "add", canon(z))
		fp25519.Sub(&z, &x, &y)
		run.Event("fp25519", "sub", canon(z))
		z, w = x, y
		fp25519.AddSub(&z, &w)
		run.Event("fp25519", "addsub", canon(z), canon(w))
		fp25519.Inv(&z, &x)
		run.Event("fp25519", "inv", canon(z))
		qr := fp25519.InvSqrt(&z, &x, &y)
		run.Event("fp25519", "invsqrt", qr, canon(z))
		fp25519.Neg(&z, &x)
		run.Event("fp25519", "neg", canon(z))
		z = x
		fp25519.Modp(&z)
		run.Event("fp25519", "modp", z[:], fp25519.IsZero(&x))
		z, w = x, y
		fp25519.Cswap(&z, &w, uint(op.N&1))
		fp25519.Cmov(&z, &y, uint(op.N>>1&1))
		run.Event("fp25519", "cswap-cmov", z[:], w[:])
	case "fp448":
		var x, y, z, w fp448.Elt
		copy(x[:], edgeBytes(op.A, 56))
		copy(y[:], edgeBytes(op.B, 56))
		canon := func(e fp448.Elt) []byte { b := make([]byte, 56); c := e; _ = fp448.ToBytes(b, &c); return b }
		fp448.Mul(&z, &x, &y)
		run.Event("fp448", "mul", canon(z))
		fp448.Sqr(&z, &x)
		run.Event("fp448", "sqr", canon(z))
		fp448.Add(&z, &x, &y)
		run.Event("fp448", "add", canon(z))
		fp448.Sub(&z, &x, &y)
		run.Event("fp448", "sub", canon(z))
		z, w = x, y
		fp448.AddSub(&z, &w)
		run.Event("fp448", "addsub", canon(z), canon(w))
		fp448.Inv(&z, &x)
		run.Event("fp448", "inv", canon(z))
		qr := fp448.InvSqrt(&z, &x, &y)
		run.Event("fp448", "invsqrt", qr, canon(z))
		z = x
		fp448.Modp(&z)
		run.Event("fp448", "modp", z[:], fp448.IsZero(&x))
	case "x25519":
		var k, u, out, pub x25519.Key
		copy(k[:], edgeBytes(op.A, 32))
		copy(u[:], edgeBytes(op.B, 32))
		x25519.KeyGen(&pub, &k)
		ok := x25519.Shared(&out, &k, &u)
		run.Event("x25519", "v", pub[:], ok, out[:])
	case "x448":
		var k, u, out, pub x448.Key
		copy(k[:], edgeBytes(op.A, 56))
		copy(u[:], edgeBytes(op.B, 56))
		x448.KeyGen(&pub, &k)
		ok := x448.Shared(&out, &k, &u)
		run.Event("x448", "v", pub[:], ok, out[:])
	case "ed25519":
		sk := ed25519.NewKeyFromSeed(edgeBytes(op.A, 32))
		msg := r.Bytes(op.N % 200)
		sig := ed25519.Sign(sk, msg)
		bad := append([]byte{}, sig...)
		bad[op.N%64] ^= 1
		run.Event("ed25519", "v", []byte(sk.Public().(ed25519.PublicKey)), sig, ed25519.Verify(sk.Public().(ed25519.PublicKey), msg, sig), ed25519.Verify(sk.Public().(ed25519.PublicKey), msg, bad))
	case "ed448":
		sk := ed448.NewKeyFromSeed(edgeBytes(op.A, 57))
		msg := r.Bytes(op.N % 200)
		sig := ed448.Sign(sk, msg, "c")
		run.Event("ed448", "v", []byte(sk.Public().(ed448.PublicKey)), sig, ed448.Verify(sk.Public().(ed448.PublicKey), msg, sig, "c"))
	case "goldilocks":
		var c goldilocks.Curve
		var k, l goldilocks.Scalar
		k.FromBytes(edgeBytes(op.A, 56))
		l.FromBytes(edgeBytes(op.B, 56))
		P := c.ScalarBaseMult(&k)
		Q := c.ScalarMult(&l, P)
		R := c.CombinedMult(&k, &l, P)
		pb, _ := P.MarshalBinary()
		qb, _ := Q.MarshalBinary()
		rb, _ := R.MarshalBinary()
		var m goldilocks.Scalar
		m.Mul(&k, &l)
		run.Event("goldilocks", "v", pb, qb, rb, m[:])
	case "fourq":
		var P, Q, R fourq.Point
		var k, l, o1, o2, o3 [32]byte
		copy(k[:], edgeBytes(op.A, 32))
		copy(l[:], edgeBytes(op.B, 32))
		P.ScalarBaseMult(&k)
		Q.ScalarMult(&l, &P)
		R.Add(&P, &Q)
		P.Marshal(&o1)
		Q.Marshal(&o2)
		R.Marshal(&o3)
		run.Event("fourq", "v", o1[:], o2[:], o3[:], R.IsOnCurve())
	case "curve4q":
		var sk, pk, other, sh curve4q.Key
		copy(sk[:], edgeBytes(op.A, 32))
		copy(other[:], edgeBytes(op.B, 32))
		curve4q.KeyGen(&pk, &sk)
		ok := curve4q.Shared(&sh, &sk, &other)
		var sh2 curve4q.Key
		ok2 := curve4q.Shared(&sh2, &other, &pk)
		run.Event("curve4q", "v", pk[:], ok, sh[:], ok2, sh2[:])
	case "p384":
		c := p384.P384()
		k, l := edgeBytes(op.A, 48), edgeBytes(op.B, 48+op.N%3)
		x1, y1 := c.ScalarBaseMult(k)
		x2, y2 := c.ScalarMult(x1, y1, l)
		x3, y3 := c.Add(x1, y1, x2, y2)
		x4, y4 := c.Double(x1, y1)
		x5, y5 := c.CombinedMult(x1, y1, k, l)
		run.Event("p384", "v", bigs(x1, y1), bigs(x2, y2), bigs(x3, y3), bigs(x4, y4), bigs(x5, y5), c.IsOnCurve(x2, y2))
		// related inputs: Q = k*G for k in {1, 2, 3, (N+1)/2, (N-1)/2, N-1, N-2} and small or
		// near-order scalars m, n, so that the accumulator of a double-scalar multiplication meets
		// the very table point it is about to add (the exceptional cases of the addition formulas)
		N := c.Params().N
		half := new(big.Int).Rsh(new(big.Int).Add(N, big.NewInt(1)), 1)
		ks := []*big.Int{big.NewInt(1), big.NewInt(2), big.NewInt(3), half, new(big.Int).Sub(half, big.NewInt(1)), new(big.Int).Sub(N, big.NewInt(1)), new(big.Int).Sub(N, big.NewInt(2))}
		sc := []*big.Int{big.NewInt(0), big.NewInt(1), big.NewInt(2), big.NewInt(3), new(big.Int).Sub(N, big.NewInt(1)), new(big.Int).Sub(N, big.NewInt(2))}
		kk := ks[op.N%7]
		m, n := sc[(op.N/7)%6], sc[(op.N/42)%6]
		qx, qy := c.ScalarBaseMult(kk.Bytes())
		rx, ry := c.CombinedMult(qx, qy, m.Bytes(), n.Bytes())
		ax, ay := c.Add(qx, qy, qx, qy)
		nx, ny := c.ScalarMult(qx, qy, new(big.Int).Sub(N, big.NewInt(1)).Bytes())
		zx, zy := c.Add(qx, qy, nx, ny)
		run.Event("p384", "related", op.N%7, (op.N/7)%6, (op.N/42)%6, bigs(qx, qy), bigs(rx, ry), bigs(ax, ay), bigs(zx, zy))
		// scalars that are multiples of the order, or just beside one, with and without leading
		// zero bytes: the results are the identity, Q, -Q whatever the build
		for _, e := range [][]byte{N.Bytes(), new(big.Int).Lsh(N, 1).Bytes(), new(big.Int).Mul(N, big.NewInt(3)).Bytes(), append([]byte{0, 0}, N.Bytes()...),
			new(big.Int).Add(N, big.NewInt(1)).Bytes(), {}, {0}, make([]byte, 48), make([]byte, 60)} {
			ex, ey := c.ScalarMult(qx, qy, e)
			bx, by := c.ScalarBaseMult(e)
			run.Event("p384", "order-multiples", len(e), bigs(ex, ey), bigs(bx, by))
		}
		// other representatives of the coordinates: x-p, x+p, x+2p (and the same for y). A
		// coordinate is an integer in [0, p): whatever the build, only that one is on the curve.
		pp := c.Params().P
		shift := []*big.Int{new(big.Int).Neg(pp), pp, new(big.Int).Lsh(pp, 1)}[op.N%3]
		run.Event("p384", "noncanonical", op.N%3,
			c.IsOnCurve(new(big.Int).Add(qx, shift), qy), c.IsOnCurve(qx, new(big.Int).Add(qy, shift)),
			c.IsOnCurve(new(big.Int).Add(qx, shift), new(big.Int).Add(qy, shift)), c.IsOnCurve(pp, pp), c.IsOnCurve(qx, qy))
	case "csidh":
		var prv csidh.PrivateKey
		var pub csidh.PublicKey
		_ = csidh.GeneratePrivateKey(&prv, core.NewStream(op.A))
		csidh.GeneratePublicKey(&pub, &prv, core.NewStream(op.B))
		out := make([]byte, csidh.PublicKeySize)
		pub.Export(out)
		run.Event("csidh", "v", out)
	case "sidh":
		prvA := sidh.NewPrivateKey(sidh.Fp434, sidh.KeyVariantSidhA)
		pubA := sidh.NewPublicKey(sidh.Fp434, sidh.KeyVariantSidhA)
		prvB := sidh.NewPrivateKey(sidh.Fp434, sidh.KeyVariantSidhB)
		pubB := sidh.NewPublicKey(sidh.Fp434, sidh.KeyVariantSidhB)
		_ = prvA.Generate(core.NewStream(op.A))
		_ = prvB.Generate(core.NewStream(op.B))
		prvA.GeneratePublicKey(pubA)
		prvB.GeneratePublicKey(pubB)
		ss := make([]byte, prvA.SharedSecretSize())
		prvA.DeriveSecret(ss, pubB)
		out := make([]byte, pubA.Size())
		pubA.Export(out)
		run.Event("sidh", "v", out, ss)
	case "sike":
		s := sikep434.Scheme()
		pk, sk := s.DeriveKeyPair(r.Bytes(s.SeedSize()))
		ct, ss, _ := s.EncapsulateDeterministically(pk, r.Bytes(s.EncapsulationSeedSize()))
		ss2, _ := s.Decapsulate(sk, ct)
		run.Event("sike", "v", ct, ss, ss2)
	case "mlkem512", "mlkem768", "mlkem1024", "kyber768", "frodo", "xwing":
		sch := kemOf(op.K)
		pk, sk := sch.DeriveKeyPair(r.Bytes(sch.SeedSize()))
		pb, _ := pk.MarshalBinary()
		ct, ss, _ := sch.EncapsulateDeterministically(pk, r.Bytes(sch.EncapsulationSeedSize()))
		ss2, _ := sch.Decapsulate(sk, ct)
		bad := append([]byte{}, ct...)
		bad[op.N%len(bad)] ^= 1 << (op.B % 8)
		ss3, _ := sch.Decapsulate(sk, bad)
		run.Event(op.K, "v", pb, ct, ss, ss2, ss3)
	case "kyberpke":
		pk, sk := kyberpke.NewKeyFromSeed(r.Bytes(kyberpke.KeySeedSize))
		ct := make([]byte, kyberpke.CiphertextSize)
		pt := r.Bytes(kyberpke.PlaintextSize)
		pk.EncryptTo(ct, pt, r.Bytes(kyberpke.EncryptionSeedSize))
		out := make([]byte, kyberpke.PlaintextSize)
		sk.DecryptTo(out, ct)
		run.Event("kyberpke", "v", ct, out)
	case "dilithium3":
		var seed [32]byte
		copy(seed[:], r.Bytes(32))
		pk, sk := mode3.NewKeyFromSeed(&seed)
		msg := r.Bytes(op.N % 300)
		sig := make([]byte, mode3.SignatureSize)
		mode3.SignTo(sk, msg, sig)
		run.Event("dilithium3", "v", pk.Bytes(), sig, mode3.Verify(pk, msg, sig))
	case "mldsa44":
		var seed [32]byte
		copy(seed[:], r.Bytes(32))
		pk, sk := mldsa44.NewKeyFromSeed(&seed)
		msg := r.Bytes(op.N % 300)
		sig := make([]byte, mldsa44.SignatureSize)
		_ = mldsa44.SignTo(sk, msg, []byte("ctx"), false, sig)
		run.Event("mldsa44", "v", pk.Bytes(), sig, mldsa44.Verify(pk, msg, []byte("ctx"), sig))
	case "mldsa65":
		var seed [32]byte
		copy(seed[:], r.Bytes(32))
		pk, sk := mldsa65.NewKeyFromSeed(&seed)
		msg := r.Bytes(op.N % 300)
		sig := make([]byte, mldsa65.SignatureSize)
		_ = mldsa65.SignTo(sk, msg, nil, false, sig)
		run.Event("mldsa65", "v", pk.Bytes(), sig, mldsa65.Verify(pk, msg, nil, sig))
	case "mldsa87":
		var seed [32]byte
		copy(seed[:], r.Bytes(32))
		pk, sk := mldsa87.NewKeyFromSeed(&seed)
		msg := r.Bytes(op.N % 300)
		sig := make([]byte, mldsa87.SignatureSize)
		_ = mldsa87.SignTo(sk, msg, nil, false, sig)
		run.Event("mldsa87", "v", pk.Bytes(), sig, mldsa87.Verify(pk, msg, nil, sig))
	case "shake":
		for _, id := range []xof.ID{xof.SHAKE128, xof.SHAKE256} {
			x := id.New()
			m := r.Bytes(op.N % 700)
			x.Write(m[:len(m)/2])
			x.Write(m[len(m)/2:])
			out := make([]byte, 100+op.N%200)
			x.Read(out)
			run.Event("shake", "v", uint(id), out)
		}
	case "k12":
		// the public constructor picks the lane count from the CPU: the digest must not depend on it
		n := []int{0, 1, 8191, 8192, 8193, 2*8192 + 1, 4*8192 + 7, 5 * 8192, 9*8192 - 1}[op.N%9]
		m := r.Bytes(n)
		s := k12.NewDraft10(r.Bytes(int(op.B % 50)))
		half := n / 3
		s.Write(m[:half])
		c := s.Clone()
		s.Write(m[half:])
		c.Write(m[half:])
		out, out2 := make([]byte, 64), make([]byte, 64)
		s.Read(out)
		c.Read(out2)
		run.Event("k12", "v", n, out, out2)
	case "keccakx":
		var s4 keccakf1600.StateX4
		var s2 keccakf1600.StateX2
		turbo := op.N&1 == 1
		a4, a2 := s4.Initialize(turbo), s2.Initialize(turbo)
		for i := range a4 {
			a4[i] = r.Uint64()
		}
		for i := range a2 {
			a2[i] = a4[i]
		}
		s4.Permute()
		s2.Permute()
		run.Event("keccakx", "v", turbo, u64s(a4), u64s(a2), keccakf1600.IsEnabledX4() || true)
	default:
		run.Bad("op " + op.K)
	}
}

func kemOf(k string) kem.Scheme {
	switch k {
	case "mlkem512":
		return mlkem512.Scheme()
	case "mlkem768":
		return mlkem768.Scheme()
	case "mlkem1024":
		return mlkem1024.Scheme()
	case "kyber768":
		return kyber768.Scheme()
	case "frodo":
		return frodo640shake.Scheme()
	default:
		return xwing.Scheme()
	}
}

func bigs(x, y *big.Int) []byte { return append(x.Bytes(), y.Bytes()...) }

func u64s(a []uint64) []byte {
	b := make([]byte, 0, len(a)*8)
	for _, v := range a {
		for j := 0; j < 8; j++ {
			b = append(b, byte(v>>(8*j)))
		}
	}
	return b
}

func main() {
	_ = fmt.Sprint
	core.Main(&core.Property{
		ID:       "C14PRIM",
		Level:    "exploration",
		Rule:     "primitive-level transcript for C14",
		Directed: directed,
		Gen:      gen,
		Exec:     exec,
		Runs:     map[string]int{"quick": 600, "thorough": 20000},
		WallCap:  map[string]time.Duration{"quick": 60 * time.Second, "thorough": 10 * time.Minute},
	})
}
