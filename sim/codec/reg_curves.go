package codec

import (
	"crypto/elliptic"
	"math/big"

	"github.com/cloudflare/circl/dh/curve4q"
	"github.com/cloudflare/circl/ecc/bls12381"
	"github.com/cloudflare/circl/ecc/bls12381/ff"
	"github.com/cloudflare/circl/ecc/fourq"
	"github.com/cloudflare/circl/ecc/goldilocks"
	"github.com/cloudflare/circl/group"
	"github.com/cloudflare/circl/oprf"
	"github.com/cloudflare/circl/sign/bls"
)

func blsScalar(seed uint64) *bls12381.Scalar {
	s := new(bls12381.Scalar)
	switch seed % 8 {
	case 6:
		s.SetUint64(1)
	case 7:
		s.SetUint64(1)
		s.Neg()
	default:
		s.SetBytes(seedBytes(seed, 48))
	}
	return s
}

func g1InSubgroup(p *bls12381.G1) bool {
	var k bls12381.Scalar
	k.SetUint64(1)
	k.Neg() // r-1
	var q bls12381.G1
	q.ScalarMult(&k, p)
	q.Add(&q, p)
	return q.IsIdentity()
}

func g2InSubgroup(p *bls12381.G2) bool {
	var k bls12381.Scalar
	k.SetUint64(1)
	k.Neg()
	var q bls12381.G2
	q.ScalarMult(&k, p)
	q.Add(&q, p)
	return q.IsIdentity()
}

var blsP, _ = new(big.Int).SetString("1a0111ea397fe69a4b1ba7b6434bacd764774b84f38512bf6730d2a0f6b0f6241eabfffeb153ffffb9feffffffffaaab", 16)

// blsAware: flag-bit and field-range faults of the zcash BLS12-381 serialisation.
func blsAware(coordLen int) []func([]byte, int) []byte {
	return []func([]byte, int) []byte{
		func(v []byte, a int) []byte { v[0] ^= 0x80; return v },                   // compression flag
		func(v []byte, a int) []byte { v[0] ^= 0x40; return v },                   // infinity flag with payload
		func(v []byte, a int) []byte { v[0] ^= 0x20; return v },                   // sign flag
		func(v []byte, a int) []byte { v[0] |= 0x40; v[len(v)-1] |= 1; return v }, // infinity with stray payload
		func(v []byte, a int) []byte { // infinity encoding with the sign bit
			for i := range v {
				v[i] = 0
			}
			v[0] = 0xc0 | 0x20
			return v
		},
		func(v []byte, a int) []byte { // first coordinate + p (keeps flags) if it fits in 381 bits
			flags := v[0] & 0xe0
			x := new(big.Int).SetBytes(append([]byte{v[0] & 0x1f}, v[1:coordLen]...))
			x.Add(x, blsP)
			if x.BitLen() > 381 {
				x.SetBytes(append([]byte{v[0] & 0x1f}, v[1:coordLen]...))
				x.Add(x, big.NewInt(int64(a)+1)) // small perturbation instead
			}
			b := x.FillBytes(make([]byte, coordLen))
			copy(v[:coordLen], b)
			v[0] |= flags
			return v
		},
		func(v []byte, a int) []byte { // x := p exactly / p-1 / p+1
			flags := v[0] & 0xe0
			x := new(big.Int).Add(blsP, big.NewInt(int64(a%3)-1))
			copy(v[:coordLen], x.FillBytes(make([]byte, coordLen)))
			v[0] |= flags
			return v
		},
	}
}

// blsOffSubgroup: the encoding is replaced, in the same form (compressed or not), by a point
// that lies on the curve but outside the subgroup of order r: x is the a-th small integer for
// which x^3 + b is a square (the cofactors are about 2^126 and 2^508: such a point is in the
// subgroup with negligible probability; x = 0 gives the point (0, 2) of order 3 on G1). The
// square roots are computed here with math/big, not by the library.
func blsOffSubgroup(g2 bool) func([]byte, int) []byte {
	p := blsP
	half := new(big.Int).Rsh(p, 1)
	sqrtFp := func(a *big.Int) *big.Int { return new(big.Int).ModSqrt(new(big.Int).Mod(a, p), p) }
	type fp2 struct{ c0, c1 *big.Int }
	mul2 := func(x, y fp2) fp2 {
		a := new(big.Int).Mul(x.c0, y.c0)
		a.Sub(a, new(big.Int).Mul(x.c1, y.c1))
		b := new(big.Int).Mul(x.c0, y.c1)
		b.Add(b, new(big.Int).Mul(x.c1, y.c0))
		return fp2{a.Mod(a, p), b.Mod(b, p)}
	}
	sqrt2 := func(a fp2) (fp2, bool) {
		if a.c1.Sign() == 0 {
			if r := sqrtFp(a.c0); r != nil {
				return fp2{r, big.NewInt(0)}, true
			}
			r := sqrtFp(new(big.Int).Neg(a.c0))
			if r == nil {
				return fp2{}, false
			}
			return fp2{big.NewInt(0), r}, true
		}
		n := new(big.Int).Mul(a.c0, a.c0)
		n.Add(n, new(big.Int).Mul(a.c1, a.c1))
		sn := sqrtFp(n)
		if sn == nil {
			return fp2{}, false
		}
		inv2 := new(big.Int).ModInverse(big.NewInt(2), p)
		for _, sg := range []int{1, -1} {
			t := new(big.Int).Set(a.c0)
			if sg == 1 {
				t.Add(t, sn)
			} else {
				t.Sub(t, sn)
			}
			t.Mul(t, inv2).Mod(t, p)
			x0 := sqrtFp(t)
			if x0 == nil || x0.Sign() == 0 {
				continue
			}
			x1 := new(big.Int).Mul(a.c1, new(big.Int).ModInverse(new(big.Int).Lsh(x0, 1), p))
			x1.Mod(x1, p)
			r := fp2{x0, x1}
			if sq := mul2(r, r); sq.c0.Cmp(new(big.Int).Mod(a.c0, p)) == 0 && sq.c1.Cmp(new(big.Int).Mod(a.c1, p)) == 0 {
				return r, true
			}
		}
		return fp2{}, false
	}
	enc := func(x *big.Int) []byte { return x.FillBytes(make([]byte, 48)) }
	return func(v []byte, a int) []byte {
		if a < 0 {
			a = -a
		}
		compressed := len(v) > 0 && v[0]&0x80 != 0
		want := a % 12
		found := -1
		for xi := int64(0); xi < 400; xi++ {
			var out []byte
			var big1 bool
			if !g2 {
				rhs := big.NewInt(xi*xi*xi + 4)
				y := sqrtFp(rhs)
				if y == nil {
					continue
				}
				if a&1024 != 0 {
					y.Sub(p, y).Mod(y, p)
				}
				big1 = y.Cmp(half) > 0
				out = append(enc(big.NewInt(xi)), enc(y)...)
			} else {
				x := fp2{big.NewInt(xi), big.NewInt(1)}
				x3 := mul2(mul2(x, x), x)
				rhs := fp2{new(big.Int).Add(x3.c0, big.NewInt(4)), new(big.Int).Add(x3.c1, big.NewInt(4))}
				y, ok := sqrt2(rhs)
				if !ok {
					continue
				}
				big1 = y.c1.Cmp(half) > 0 || (y.c1.Sign() == 0 && y.c0.Cmp(half) > 0)
				out = append(append(append(enc(x.c1), enc(x.c0)...), enc(y.c1)...), enc(y.c0)...)
			}
			found++
			if found != want {
				continue
			}
			if compressed {
				out = out[:len(out)/2]
				out[0] |= 0x80
				if big1 {
					out[0] |= 0x20
				}
			}
			return out
		}
		return nil
	}
}

// coordEdge: a field-element encoding of n bytes that sits on an edge: 0, 1, p-1, p, 2^(8n)-1.
func coordEdge(p *big.Int, n, a int) []byte {
	var x *big.Int
	switch ((a % 5) + 5) % 5 {
	case 0:
		x = big.NewInt(0)
	case 1:
		x = big.NewInt(1)
	case 2:
		x = new(big.Int).Sub(p, big.NewInt(1))
	case 3:
		x = new(big.Int).Set(p)
	default:
		x = new(big.Int).Sub(new(big.Int).Lsh(big.NewInt(1), uint(8*n)), big.NewInt(1))
	}
	if x.BitLen() > 8*n {
		x = big.NewInt(0)
	}
	return x.FillBytes(make([]byte, n))
}

func init() {
	// ---- BLS12-381 G1 / G2 ----
	for _, comp := range []bool{true, false} {
		comp := comp
		sfx := "(uncompressed)"
		if comp {
			sfx = "(compressed)"
		}
		Register(&Entry{
			Name: "bls12381.G1.SetBytes" + sfx, Canon: true, Prefix: true, Membership: true, Cost: 6, Seeds: 10,
			Valid: func(seed uint64) []byte {
				var p bls12381.G1
				switch seed % 8 {
				case 5:
					p.SetIdentity()
				case 4: // identity reached by arithmetic: P + (-P)
					var q bls12381.G1
					p.ScalarMult(blsScalar(seed), bls12381.G1Generator())
					q = p
					q.Neg()
					p.Add(&p, &q)
				case 3: // negated identity
					p.SetIdentity()
					p.Neg()
				case 2: // doubling of a point, negated
					p.ScalarMult(blsScalar(seed), bls12381.G1Generator())
					p.Double()
					p.Neg()
				default:
					p.ScalarMult(blsScalar(seed), bls12381.G1Generator())
				}
				if comp {
					return p.BytesCompressed()
				}
				return p.Bytes()
			},
			Reuse: func() func(in []byte) Result {
				var p bls12381.G1
				return func(in []byte) Result {
					if p.SetBytes(in) != nil {
						return Result{}
					}
					re := p.Bytes()
					if len(in) > 0 && in[0]&0x80 != 0 {
						re = p.BytesCompressed()
					}
					return Result{Accepted: true, Reenc: re, Member: g1InSubgroup(&p)}
				}
			},
			Call: func(in []byte) Result {
				var p bls12381.G1
				if p.SetBytes(in) != nil {
					return Result{}
				}
				re := p.Bytes()
				if len(in) > 0 && in[0]&0x80 != 0 {
					re = p.BytesCompressed()
				}
				return Result{Accepted: true, Reenc: re, Member: g1InSubgroup(&p)}
			},
			Aware: append(blsAware(48), blsOffSubgroup(false)),
		})
		Register(&Entry{
			Name: "bls12381.G2.SetBytes" + sfx, Canon: true, Prefix: true, Membership: true, Cost: 15, Seeds: 10,
			Valid: func(seed uint64) []byte {
				var p bls12381.G2
				switch seed % 8 {
				case 5:
					p.SetIdentity()
				case 4: // identity reached by arithmetic: P + (-P)
					var q bls12381.G2
					p.ScalarMult(blsScalar(seed), bls12381.G2Generator())
					q = p
					q.Neg()
					p.Add(&p, &q)
				case 3: // negated identity
					p.SetIdentity()
					p.Neg()
				case 2: // doubling of a point, negated
					p.ScalarMult(blsScalar(seed), bls12381.G2Generator())
					p.Double()
					p.Neg()
				default:
					p.ScalarMult(blsScalar(seed), bls12381.G2Generator())
				}
				if comp {
					return p.BytesCompressed()
				}
				return p.Bytes()
			},
			Reuse: func() func(in []byte) Result {
				var p bls12381.G2
				return func(in []byte) Result {
					if p.SetBytes(in) != nil {
						return Result{}
					}
					re := p.Bytes()
					if len(in) > 0 && in[0]&0x80 != 0 {
						re = p.BytesCompressed()
					}
					return Result{Accepted: true, Reenc: re, Member: g2InSubgroup(&p)}
				}
			},
			Call: func(in []byte) Result {
				var p bls12381.G2
				if p.SetBytes(in) != nil {
					return Result{}
				}
				re := p.Bytes()
				if len(in) > 0 && in[0]&0x80 != 0 {
					re = p.BytesCompressed()
				}
				return Result{Accepted: true, Reenc: re, Member: g2InSubgroup(&p)}
			},
			Aware: append(blsAware(48), blsOffSubgroup(true)),
		})
	}
	// ---- ff decoders ----
	Register(&Entry{Name: "bls12381/ff.Scalar.UnmarshalBinary", Canon: true,
		Valid: func(seed uint64) []byte { b, _ := blsScalar(seed).MarshalBinary(); return b },
		Reuse: func() func(in []byte) Result {
			var s ff.Scalar
			return func(in []byte) Result {
				if s.UnmarshalBinary(in) != nil {
					return Result{}
				}
				b, _ := s.MarshalBinary()
				return Result{Accepted: true, Reenc: b}
			}
		},
		Call: func(in []byte) Result {
			var s ff.Scalar
			if s.UnmarshalBinary(in) != nil {
				return Result{}
			}
			b, _ := s.MarshalBinary()
			return Result{Accepted: true, Reenc: b}
		}})
	Register(&Entry{Name: "bls12381/ff.Fp.UnmarshalBinary", Canon: true,
		Valid: func(seed uint64) []byte {
			var f ff.Fp
			f.SetBytes(seedBytes(seed, 64))
			b, _ := f.MarshalBinary()
			return b
		},
		Reuse: func() func(in []byte) Result {
			var f ff.Fp
			return func(in []byte) Result {
				if f.UnmarshalBinary(in) != nil {
					return Result{}
				}
				b, _ := f.MarshalBinary()
				return Result{Accepted: true, Reenc: b}
			}
		},
		Call: func(in []byte) Result {
			var f ff.Fp
			if f.UnmarshalBinary(in) != nil {
				return Result{}
			}
			b, _ := f.MarshalBinary()
			return Result{Accepted: true, Reenc: b}
		}})
	Register(&Entry{Name: "bls12381/ff.Fp2.UnmarshalBinary", Canon: true,
		Valid: func(seed uint64) []byte {
			var f ff.Fp2
			f[0].SetBytes(seedBytes(seed, 64))
			f[1].SetBytes(seedBytes(seed+1, 64))
			b, _ := f.MarshalBinary()
			return b
		},
		Reuse: func() func(in []byte) Result {
			var f ff.Fp2
			return func(in []byte) Result {
				if f.UnmarshalBinary(in) != nil {
					return Result{}
				}
				b, _ := f.MarshalBinary()
				return Result{Accepted: true, Reenc: b}
			}
		},
		Call: func(in []byte) Result {
			var f ff.Fp2
			if f.UnmarshalBinary(in) != nil {
				return Result{}
			}
			b, _ := f.MarshalBinary()
			return Result{Accepted: true, Reenc: b}
		}})
	Register(&Entry{Name: "bls12381/ff.Fp12.UnmarshalBinary", Canon: true, Cost: 2,
		Valid: func(seed uint64) []byte {
			var f ff.Fp12
			for i := 0; i < 2; i++ {
				for j := 0; j < 3; j++ {
					for k := 0; k < 2; k++ {
						f[i][j][k].SetBytes(seedBytes(seed+uint64(i*6+j*2+k), 64))
					}
				}
			}
			b, _ := f.MarshalBinary()
			return b
		},
		Reuse: func() func(in []byte) Result {
			var f ff.Fp12
			return func(in []byte) Result {
				if f.UnmarshalBinary(in) != nil {
					return Result{}
				}
				b, _ := f.MarshalBinary()
				return Result{Accepted: true, Reenc: b}
			}
		},
		Call: func(in []byte) Result {
			var f ff.Fp12
			if f.UnmarshalBinary(in) != nil {
				return Result{}
			}
			b, _ := f.MarshalBinary()
			return Result{Accepted: true, Reenc: b}
		}})
	Register(&Entry{Name: "bls12381.Gt.UnmarshalBinary", Cost: 60, Seeds: 3,
		Valid: func(seed uint64) []byte {
			var p bls12381.G1
			p.ScalarMult(blsScalar(seed), bls12381.G1Generator())
			gt := bls12381.Pair(&p, bls12381.G2Generator())
			b, _ := gt.MarshalBinary()
			return b
		},
		Reuse: func() func(in []byte) Result {
			var z bls12381.Gt
			return func(in []byte) Result {
				return Result{Accepted: z.UnmarshalBinary(in) == nil}
			}
		},
		Call: func(in []byte) Result {
			var z bls12381.Gt
			return Result{Accepted: z.UnmarshalBinary(in) == nil}
		}})

	// ---- BLS signatures ----
	registerBLS[bls.KeyG1SigG2]("G1", 48)
	registerBLS[bls.KeyG2SigG1]("G2", 96)

	// ---- Goldilocks ----
	goldValid := func(seed uint64) []byte {
		var c goldilocks.Curve
		var k goldilocks.Scalar
		k.FromBytes(seedBytes(seed, 56))
		P := c.ScalarBaseMult(&k)
		switch seed % 8 {
		case 5:
			P = c.Identity()
		case 4: // identity reached by arithmetic
			Q := *P
			Q.Neg()
			P.Add(&Q)
		case 3:
			P = c.Identity()
			P.Neg()
		case 2:
			P.Double()
			P.Neg()
		}
		b, _ := P.MarshalBinary()
		return b
	}
	goldAware := []func([]byte, int) []byte{
		func(v []byte, a int) []byte { v[56] |= 1 << (a % 7); return v }, // junk in the low 7 bits of the last byte
		func(v []byte, a int) []byte { // y := y + p does not fit (p ~ 2^448); use y in [p, 2^448)
			for i := 0; i < 56; i++ {
				v[i] = 0xff
			}
			v[0] = byte(0xff - a%4)
			return v
		},
		func(v []byte, a int) []byte { // x = 0 with sign bit: y = 1 (identity) or y = p-1
			for i := range v {
				v[i] = 0
			}
			v[0] = 1
			v[56] = 0x80
			return v
		},
	}
	Register(&Entry{Name: "goldilocks.FromBytes", Canon: true, Membership: true, Cost: 5, Seeds: 10, Valid: goldValid, Aware: goldAware,
		Call: func(in []byte) Result {
			P, err := goldilocks.FromBytes(in)
			if err != nil {
				return Result{}
			}
			b, _ := P.MarshalBinary()
			return Result{Accepted: true, Reenc: b, Member: (goldilocks.Curve{}).IsOnCurve(P)}
		}})
	Register(&Entry{Name: "goldilocks.Point.UnmarshalBinary", Canon: true, Membership: true, Cost: 5, Seeds: 10, Valid: goldValid, Aware: goldAware,
		Reuse: func() func(in []byte) Result {
			var P goldilocks.Point
			return func(in []byte) Result {
				if P.UnmarshalBinary(in) != nil {
					return Result{}
				}
				b, _ := P.MarshalBinary()
				return Result{Accepted: true, Reenc: b, Member: (goldilocks.Curve{}).IsOnCurve(&P)}
			}
		},
		Call: func(in []byte) Result {
			var P goldilocks.Point
			if P.UnmarshalBinary(in) != nil {
				return Result{}
			}
			b, _ := P.MarshalBinary()
			return Result{Accepted: true, Reenc: b, Member: (goldilocks.Curve{}).IsOnCurve(&P)}
		}})

	// ---- FourQ ----
	fourqValid := func(seed uint64) []byte {
		var P fourq.Point
		var k, out [32]byte
		copy(k[:], seedBytes(seed, 32))
		P.ScalarBaseMult(&k)
		switch seed % 8 {
		case 5:
			P.SetIdentity()
		case 4: // identity reached by arithmetic: N*P (ScalarMult clears the cofactor first)
			var n [32]byte
			nb := fourq.Params().N.Bytes()
			for i := range nb {
				n[i] = nb[len(nb)-1-i]
			}
			P.ScalarMult(&n, &P)
		case 2:
			P.Add(&P, &P)
		case 6:
			// y = 0: -x^2 = 1, the point (i, 0) of order 4, whose x lies in i*Fp (the square-root
			// routine takes its rarely used branch for such x); derived by hand, not by the library
			return make([]byte, 32)
		}
		P.Marshal(&out)
		return out[:]
	}
	fourqAware := []func([]byte, int) []byte{
		func(v []byte, a int) []byte { // coordinate value p = 2^127-1 in either half of y
			o := 16 * (a % 2)
			for i := 0; i < 15; i++ {
				v[o+i] = 0xff
			}
			v[o+15] = v[o+15]&0x80 | 0x7f
			return v
		},
		func(v []byte, a int) []byte { v[15] |= 0x80; return v }, // unused top bit of y0
	}
	Register(&Entry{Name: "fourq.Point.Unmarshal", Canon: true, Membership: true, FixedLen: 32, Cost: 4, Seeds: 10, Valid: fourqValid, Aware: fourqAware,
		Reuse: func() func(in []byte) Result {
			var P fourq.Point
			return func(in []byte) Result {
				var out [32]byte
				if !P.Unmarshal((*[32]byte)(in)) { // the caller's memory itself, not a copy
					return Result{}
				}
				P.Marshal(&out)
				return Result{Accepted: true, Reenc: out[:], Member: P.IsOnCurve()}
			}
		},
		Call: func(in []byte) Result {
			var P fourq.Point
			var out [32]byte
			if !P.Unmarshal((*[32]byte)(in)) {
				return Result{}
			}
			P.Marshal(&out)
			return Result{Accepted: true, Reenc: out[:], Member: P.IsOnCurve()}
		}})
	Register(&Entry{Name: "curve4q.Shared(public)", Membership: true, FixedLen: 32, Cost: 8, Seeds: 8, Aware: fourqAware,
		Valid: func(seed uint64) []byte { // the identity and points of small order are (rightly) refused as DH public keys
			if m := seed % 8; m == 4 || m == 5 || m == 6 {
				seed += 3
			}
			return fourqValid(seed)
		},
		Call: func(in []byte) Result {
			var sec, sh curve4q.Key
			pub := (*curve4q.Key)(in) // the caller's memory itself, not a copy
			copy(sec[:], seedBytes(4242, 32))
			if !curve4q.Shared(&sh, &sec, pub) {
				return Result{}
			}
			// the shared point must be a non-identity point of the prime-order subgroup: N*S = O
			var S, T fourq.Point
			buf := [32]byte(sh)
			if !S.Unmarshal(&buf) {
				return Result{Accepted: true, Member: false}
			}
			var n [32]byte
			nb := fourq.Params().N.Bytes()
			for i := range nb {
				n[i] = nb[len(nb)-1-i]
			}
			T.ScalarMult(&n, &S) // includes cofactor clearing: 392*N*S = O for any S on the curve; checks on-curve at least
			return Result{Accepted: true, Member: S.IsOnCurve() && !S.IsIdentity() && T.IsIdentity()}
		}})

	// ---- group package ----
	for _, g := range []group.Group{group.P256, group.P384, group.P521, group.Ristretto255} {
		g := g
		gname := g.(interface{ String() string }).String()
		var curve elliptic.Curve
		switch g {
		case group.P256:
			curve = elliptic.P256()
		case group.P384:
			curve = elliptic.P384()
		case group.P521:
			curve = elliptic.P521()
		}
		elt := func(seed uint64) group.Element {
			e := g.HashToElement(seedBytes(seed, 16), []byte("circlsim"))
			switch seed % 8 {
			case 5:
				return g.Identity()
			case 4: // identity reached by arithmetic
				return g.NewElement().Add(e, g.NewElement().Neg(e))
			case 3:
				return g.NewElement().Neg(g.Identity())
			case 2:
				return g.NewElement().Neg(g.NewElement().Dbl(e))
			case 1:
				return g.NewElement().MulGen(g.HashToScalar(seedBytes(seed, 16), []byte("k")))
			}
			return e
		}
		cost := 8
		if g == group.P521 {
			cost = 40
		}
		decodeInto := func(e group.Element, in []byte) Result {
			if e.UnmarshalBinary(in) != nil {
				// a receiver whose decode was refused is still an object the caller holds
				e.IsIdentity()
				e.MarshalBinary()
				return Result{}
			}
			var re []byte
			if uint(len(in)) == g.Params().CompressedElementLength {
				re, _ = e.MarshalBinaryCompress()
			} else {
				re, _ = e.MarshalBinary()
			}
			member := true
			if curve != nil && !e.IsIdentity() {
				un, _ := e.MarshalBinary()
				x, _ := elliptic.Unmarshal(curve, un) //nolint:staticcheck
				member = x != nil
			}
			return Result{Accepted: true, Reenc: re, Member: member}
		}
		call := func(in []byte) Result { return decodeInto(g.NewElement(), in) }
		reuse := func() func(in []byte) Result {
			e := g.Generator()
			return func(in []byte) Result { return decodeInto(e, in) }
		}
		Register(&Entry{Name: "group[" + gname + "].Element.UnmarshalBinary(compressed)", Canon: true, Membership: true, Cost: cost, Seeds: 10,
			Valid: func(seed uint64) []byte { b, _ := elt(seed).MarshalBinaryCompress(); return b }, Call: call, Reuse: reuse,
			Aware: []func([]byte, int) []byte{
				func(v []byte, a int) []byte { // prefix kept, x := 0 / 1 / p-1 / p / all ones
					if len(v) < 3 || curve == nil {
						return nil
					}
					return append(v[:1], coordEdge(curve.Params().P, len(v)-1, a)...)
				},
			}})
		if g != group.Ristretto255 {
			Register(&Entry{Name: "group[" + gname + "].Element.UnmarshalBinary(uncompressed)", Canon: true, Membership: true, Cost: cost, Seeds: 10,
				Valid: func(seed uint64) []byte { b, _ := elt(seed).MarshalBinary(); return b }, Call: call, Reuse: reuse,
				Aware: []func([]byte, int) []byte{
					func(v []byte, a int) []byte { // prefix kept, (x,y) := edge values, (0,0) first
						if len(v) < 3 {
							return nil
						}
						bl := (len(v) - 1) / 2
						out := append([]byte{}, v[:1]...)
						out = append(out, coordEdge(curve.Params().P, bl, a%5)...)
						return append(out, coordEdge(curve.Params().P, bl, (a/5)%5)...)
					},
					func(v []byte, a int) []byte { // one coordinate replaced by an edge value, the other kept
						if len(v) < 3 {
							return nil
						}
						bl := (len(v) - 1) / 2
						if a%2 == 0 {
							copy(v[1:1+bl], coordEdge(curve.Params().P, bl, a/2))
						} else {
							copy(v[1+bl:], coordEdge(curve.Params().P, bl, a/2))
						}
						return v
					},
					func(v []byte, a int) []byte { // x + p if it fits in the byte length
						if len(v) < 3 {
							return nil
						}
						bl := (len(v) - 1) / 2
						x := new(big.Int).SetBytes(v[1 : 1+bl])
						x.Add(x, curve.Params().P)
						if x.BitLen() > bl*8 {
							return nil
						}
						copy(v[1:1+bl], x.FillBytes(make([]byte, bl)))
						return v
					},
				}})
		}
		Register(&Entry{Name: "group[" + gname + "].Scalar.UnmarshalBinary", Seeds: 8,
			Valid: func(seed uint64) []byte {
				b, _ := g.HashToScalar(seedBytes(seed, 16), []byte("circlsim")).MarshalBinary()
				return b
			},
			Reuse: func() func(in []byte) Result {
				s := g.NewScalar()
				return func(in []byte) Result {
					err := s.UnmarshalBinary(in)
					s.MarshalBinary()
					return Result{Accepted: err == nil}
				}
			},
			Call: func(in []byte) Result {
				s := g.NewScalar()
				if s.UnmarshalBinary(in) != nil {
					return Result{}
				}
				s.MarshalBinary()
				return Result{Accepted: true}
			}})
	}

	// ---- OPRF keys ----
	for _, su := range []oprf.Suite{oprf.SuiteRistretto255, oprf.SuiteP256, oprf.SuiteP384, oprf.SuiteP521} {
		su := su
		cost := 10
		if su == oprf.SuiteP521 {
			cost = 60
		}
		key := func(seed uint64) *oprf.PrivateKey {
			k, err := oprf.DeriveKey(su, oprf.BaseMode, seedBytes(seed, 32), []byte("info"))
			if err != nil {
				panic("HARNESS: oprf.DeriveKey: " + err.Error())
			}
			return k
		}
		Register(&Entry{Name: "oprf[" + su.Identifier() + "].PublicKey.UnmarshalBinary", Canon: true, Cost: cost, Seeds: 4,
			Valid: func(seed uint64) []byte { b, _ := key(seed).Public().MarshalBinary(); return b },
			Reuse: func() func(in []byte) Result {
				var pk oprf.PublicKey
				return func(in []byte) Result {
					if pk.UnmarshalBinary(su, in) != nil {
						return Result{}
					}
					b, _ := pk.MarshalBinary()
					return Result{Accepted: true, Reenc: b}
				}
			},
			Call: func(in []byte) Result {
				var pk oprf.PublicKey
				if pk.UnmarshalBinary(su, in) != nil {
					return Result{}
				}
				b, _ := pk.MarshalBinary()
				return Result{Accepted: true, Reenc: b}
			}})
		Register(&Entry{Name: "oprf[" + su.Identifier() + "].PrivateKey.UnmarshalBinary", Cost: cost, Seeds: 4,
			Valid: func(seed uint64) []byte { b, _ := key(seed).MarshalBinary(); return b },
			Reuse: func() func(in []byte) Result {
				var sk oprf.PrivateKey
				return func(in []byte) Result {
					if sk.UnmarshalBinary(su, in) != nil {
						return Result{}
					}
					sk.Public()
					return Result{Accepted: true}
				}
			},
			Call: func(in []byte) Result {
				var sk oprf.PrivateKey
				if sk.UnmarshalBinary(su, in) != nil {
					return Result{}
				}
				sk.Public()
				return Result{Accepted: true}
			}})
	}
}

func registerBLS[K bls.KeyGroup](label string, pkLen int) {
	key := func(seed uint64) *bls.PrivateKey[K] {
		k, err := bls.KeyGen[K](seedBytes(seed, 32), nil, nil)
		if err != nil {
			panic("HARNESS: bls.KeyGen: " + err.Error())
		}
		return k
	}
	msg := []byte("circlsim bls message")
	Register(&Entry{Name: "bls[key" + label + "].PublicKey.UnmarshalBinary", Canon: true, Cost: 15, Seeds: 4,
		Valid: func(seed uint64) []byte { b, _ := key(seed).PublicKey().MarshalBinary(); return b },
		Reuse: func() func(in []byte) Result {
			var pk bls.PublicKey[K]
			return func(in []byte) Result {
				if pk.UnmarshalBinary(in) != nil {
					return Result{}
				}
				b, _ := pk.MarshalBinary()
				return Result{Accepted: true, Reenc: b}
			}
		},
		Call: func(in []byte) Result {
			var pk bls.PublicKey[K]
			if pk.UnmarshalBinary(in) != nil {
				return Result{}
			}
			b, _ := pk.MarshalBinary()
			return Result{Accepted: true, Reenc: b}
		}, Aware: blsAware(48)})
	Register(&Entry{Name: "bls[key" + label + "].PrivateKey.UnmarshalBinary", Cost: 15, Seeds: 4,
		Valid: func(seed uint64) []byte { b, _ := key(seed).MarshalBinary(); return b },
		Reuse: func() func(in []byte) Result {
			var sk bls.PrivateKey[K]
			return func(in []byte) Result {
				if sk.UnmarshalBinary(in) != nil {
					return Result{}
				}
				sk.PublicKey()
				return Result{Accepted: true}
			}
		},
		Call: func(in []byte) Result {
			var sk bls.PrivateKey[K]
			if sk.UnmarshalBinary(in) != nil {
				return Result{}
			}
			sk.PublicKey()
			return Result{Accepted: true}
		}})
	Register(&Entry{Name: "bls[key" + label + "].Verify(signature)", Cost: 120, Seeds: 3,
		Valid: func(seed uint64) []byte { return bls.Sign(key(0), append(msg, byte(seed))) },
		Call: func(in []byte) Result {
			pk := key(0).PublicKey()
			ok := false
			for i := 0; i < 3 && !ok; i++ {
				ok = bls.Verify(pk, append(msg, byte(i)), in)
			}
			return Result{Accepted: ok}
		}, Aware: blsAware(48)})
	Register(&Entry{Name: "bls[key" + label + "].Aggregate(signature)", Cost: 40, Seeds: 3,
		Valid: func(seed uint64) []byte { return bls.Sign(key(seed), msg) },
		Reuse: func() func(in []byte) Result {
			var k K
			return func(in []byte) Result {
				_, err := bls.Aggregate(k, []bls.Signature{bls.Sign(key(9), msg), in})
				return Result{Accepted: err == nil}
			}
		},
		Call: func(in []byte) Result {
			var k K
			_, err := bls.Aggregate(k, []bls.Signature{bls.Sign(key(9), msg), in})
			return Result{Accepted: err == nil}
		}})
	// an aggregate of ONE signature: what comes back is a signature again — the compressed
	// encoding of a point of the subgroup, whatever string went in
	sigG2 := label == "G1"
	Register(&Entry{Name: "bls[key" + label + "].Aggregate(single signature)", Cost: 40, Seeds: 3, Membership: true,
		Aware: append(blsAware(48), blsOffSubgroup(sigG2)),
		Valid: func(seed uint64) []byte { return bls.Sign(key(seed), msg) },
		Call: func(in []byte) Result {
			var k K
			out, err := bls.Aggregate(k, []bls.Signature{in})
			if err != nil {
				return Result{}
			}
			ok := false
			if sigG2 {
				var q bls12381.G2
				ok = len(out) == bls12381.G2SizeCompressed && q.SetBytes(out) == nil && g2InSubgroup(&q)
			} else {
				var q bls12381.G1
				ok = len(out) == bls12381.G1SizeCompressed && q.SetBytes(out) == nil && g1InSubgroup(&q)
			}
			return Result{Accepted: true, Member: ok}
		}})
}
