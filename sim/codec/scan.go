package codec

import (
	"go/ast"
	"go/parser"
	"go/token"
	"os"
	"path/filepath"
	"regexp"
	"sort"
	"strings"
)

// Candidates scans the repository for exported functions and methods whose name
// says they take untrusted bytes and can report failure, so that an entry point
// that is not in the registry is visible in the evidence instead of silently
// skipped. Returned ids look like "hpke.UnmarshalSealer" or
// "ecc/bls12381.(*G1).SetBytes".
var candidateName = regexp.MustCompile(`^(Unmarshal|SetBytes$|FromBytes$|Import$|Unpack$|Verify|Decapsulate|AuthDecapsulate|Open$|Decrypt|FromString$|ExtractFromCiphertext$|CouldDecrypt$|Finalize$|CombineSignShares$|Recover$)`)

func Candidates(repo string) []string {
	var out []string
	filepath.Walk(repo, func(path string, info os.FileInfo, err error) error {
		if err != nil {
			return nil
		}
		rel, _ := filepath.Rel(repo, path)
		if info.IsDir() {
			b := info.Name()
			if b == ".git" || b == "testdata" || b == "templates" || b == "internal" || b == "verifshim" || b == "verifsimrt" {
				return filepath.SkipDir
			}
			if rel != "." {
				if _, err := os.Stat(filepath.Join(path, "go.mod")); err == nil {
					return filepath.SkipDir
				}
			}
			return nil
		}
		if !strings.HasSuffix(path, ".go") || strings.HasSuffix(path, "_test.go") {
			return nil
		}
		fset := token.NewFileSet()
		f, err := parser.ParseFile(fset, path, nil, 0)
		if err != nil || f.Name.Name == "main" {
			return nil
		}
		pkg := filepath.Dir(rel)
		for _, d := range f.Decls {
			fd, ok := d.(*ast.FuncDecl)
			if !ok || !fd.Name.IsExported() || !candidateName.MatchString(fd.Name.Name) {
				continue
			}
			// must be able to report failure: returns error / bool
			if fd.Type.Results == nil {
				continue
			}
			reports := false
			for _, r := range fd.Type.Results.List {
				if id, ok := r.Type.(*ast.Ident); ok && (id.Name == "error" || id.Name == "bool") {
					reports = true
				}
			}
			if !reports {
				continue
			}
			id := pkg + "." + fd.Name.Name
			if fd.Recv != nil && len(fd.Recv.List) == 1 {
				t := fd.Recv.List[0].Type
				name := ""
				switch x := t.(type) {
				case *ast.StarExpr:
					switch y := x.X.(type) {
					case *ast.Ident:
						name = "(*" + y.Name + ")"
					case *ast.IndexExpr:
						if z, ok := y.X.(*ast.Ident); ok {
							name = "(*" + z.Name + ")"
						}
					case *ast.IndexListExpr:
						if z, ok := y.X.(*ast.Ident); ok {
							name = "(*" + z.Name + ")"
						}
					}
				case *ast.Ident:
					name = x.Name
				case *ast.IndexExpr:
					if z, ok := x.X.(*ast.Ident); ok {
						name = z.Name
					}
				}
				if name == "" || !ast.IsExported(strings.Trim(name, "(*)")) {
					// methods of unexported types are reached through exported interfaces (kem.Scheme, sign.Scheme, group.Element)
					id = pkg + ".<unexported>." + fd.Name.Name
				} else {
					id = pkg + "." + name + "." + fd.Name.Name
				}
			}
			out = append(out, id)
		}
		return nil
	})
	sort.Strings(out)
	return out
}

// coverPatterns: which candidate ids the registry (and the protocol checks) drive.
var coverPatterns = []string{
	`^kem/.*`, `^hpke\.<unexported>\.`, `^hpke\.(UnmarshalSealer|UnmarshalOpener)$`, // all KEM schemes through kem.Scheme; HPKE contexts
	`^sign/(ed25519|ed448|eddilithium2|eddilithium3|dilithium/.*|mldsa/.*)\.`, `^sign/bls\.`, `^sign/.*<unexported>`,
	`^pki\.Unmarshal`,
	`^ecc/bls12381\.\(\*G[12]\)\.SetBytes$`, `^ecc/bls12381\.\(\*Gt\)\.UnmarshalBinary$`, `^ecc/bls12381/ff\.\(\*(Fp|Fp2|Fp6|Fp12|Scalar|URoot)\)\.UnmarshalBinary$`,
	`^ecc/goldilocks\.(FromBytes|\(\*Point\)\.UnmarshalBinary)$`, `^ecc/fourq\.\(\*Point\)\.Unmarshal$`,
	`^dh/(curve4q|x25519|x448)\.`, `^dh/csidh\.\(\*(PublicKey|PrivateKey)\)\.Import$`, `^dh/sidh\.\(\*(PublicKey|PrivateKey)\)\.Import$`,
	`^group\.<unexported>\.UnmarshalBinary$`, `^oprf\.\(\*(PublicKey|PrivateKey)\)\.UnmarshalBinary$`,
	`^oprf\..*(Finalize|VerifyFinalize)$`,                    // C16
	`^zk/dleq\.`, `^zk/dl\.Verify$`, `^zk/qndleq\..*Verify$`, // C10 registry (dleq) and C16
	`^tss/rsa\.\(\*(KeyShare|SignShare)\)\.UnmarshalBinary$`, `^tss/rsa\.CombineSignShares$`,
	`^cipher/ascon\.\(\*Cipher\)\.Open$`,
	`^abe/cpabe/tkn20\.`,
	`^blindsign/.*(Finalize|Verify)$`,   // C18
	`^secretsharing\.(Verify|Recover)$`, // C17
	`^vdaf/prio3/.*`,                    // C19 links (flips, truncation) and C10 prio3 entries
	`^pke/kyber/.*`,                     // reached through kem/kyber and kem/mlkem
	`^dh/sidh\.\(\*KEM\)\.Decapsulate$`, // through kem/sike
}

// UncoveredCandidates lists candidates that no pattern claims.
func UncoveredCandidates(repo string) (all, uncovered []string) {
	all = Candidates(repo)
	var res []*regexp.Regexp
	for _, p := range coverPatterns {
		res = append(res, regexp.MustCompile(p))
	}
	for _, c := range all {
		ok := false
		for _, r := range res {
			if r.MatchString(c) {
				ok = true
				break
			}
		}
		if !ok {
			uncovered = append(uncovered, c)
		}
	}
	return
}
