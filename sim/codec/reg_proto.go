package codec

import (
	"circlsim/fixtures"
	"crypto"
	"crypto/rand"
	"crypto/rsa"
	_ "crypto/sha256"
	_ "crypto/sha512"
	"math/big"

	"circlsim/core"

	"github.com/cloudflare/circl/abe/cpabe/tkn20"
	"github.com/cloudflare/circl/cipher/ascon"
	"github.com/cloudflare/circl/dh/csidh"
	"github.com/cloudflare/circl/dh/sidh"
	bls12381 "github.com/cloudflare/circl/ecc/bls12381"
	"github.com/cloudflare/circl/group"
	"github.com/cloudflare/circl/hpke"
	"github.com/cloudflare/circl/sign/ed25519"
	"github.com/cloudflare/circl/sign/ed448"
	tssrsa "github.com/cloudflare/circl/tss/rsa"
	"github.com/cloudflare/circl/zk/dleq"
)

// Fixture RSA key (a committed PEM file: crypto/rsa.GenerateKey deliberately does not
// replay from a fixed stream; 1024 bits keeps it fast).
var fixtureRSA = func() *rsa.PrivateKey { return fixtures.RSAKey("std-1024-a") }

var rsaKey *rsa.PrivateKey

func RSAKey() *rsa.PrivateKey {
	if rsaKey == nil {
		rsaKey = fixtureRSA()
	}
	return rsaKey
}

var tknCache struct {
	pk  *tkn20.PublicKey
	msk *tkn20.SystemSecretKey
	ak  *tkn20.AttributeKey
	ct  []byte
}

func tknSetup() {
	if tknCache.pk != nil {
		return
	}
	pk, msk, err := tkn20.Setup(core.NewStream(77))
	if err != nil {
		panic("HARNESS: tkn20.Setup: " + err.Error())
	}
	var attrs tkn20.Attributes
	attrs.FromMap(map[string]string{"country": "nl", "role": "admin"})
	ak, err := msk.KeyGen(core.NewStream(78), attrs)
	if err != nil {
		panic("HARNESS: tkn20.KeyGen: " + err.Error())
	}
	var pol tkn20.Policy
	if err := pol.FromString("(country: nl or country: be) and not role: guest"); err != nil {
		panic("HARNESS: policy: " + err.Error())
	}
	ct, err := pk.Encrypt(core.NewStream(79), pol, []byte("attack at dawn"))
	if err != nil {
		panic("HARNESS: tkn20.Encrypt: " + err.Error())
	}
	tknCache.pk, tknCache.msk, tknCache.ak, tknCache.ct = &pk, &msk, &ak, ct
}

func init() {
	// ---- HPKE contexts and receiver ----
	hpkeCtx := func(seed uint64) (enc []byte, sealer hpke.Sealer, opener hpke.Opener) {
		aead := hpke.AEAD(1 + seed%3)
		suite := hpke.NewSuite(hpke.KEM_X25519_HKDF_SHA256, hpke.KDF_HKDF_SHA256, aead)
		pk, sk := hpke.KEM_X25519_HKDF_SHA256.Scheme().DeriveKeyPair(seedBytes(seed, 32))
		s, _ := suite.NewSender(pk, []byte("info"))
		enc, sealer, err := s.Setup(core.NewStream(seed + 5))
		if err != nil {
			panic("HARNESS: hpke setup: " + err.Error())
		}
		r, _ := suite.NewReceiver(sk, []byte("info"))
		opener, err = r.Setup(enc)
		if err != nil {
			panic("HARNESS: hpke receiver setup: " + err.Error())
		}
		return enc, sealer, opener
	}
	Register(&Entry{Name: "hpke.UnmarshalSealer", Seeds: 6,
		Valid: func(seed uint64) []byte { _, s, _ := hpkeCtx(seed); b, _ := s.MarshalBinary(); return b },
		Call: func(in []byte) Result {
			s, err := hpke.UnmarshalSealer(in)
			if err != nil {
				return Result{}
			}
			s.Seal([]byte("x"), nil)
			s.Export(nil, 16)
			return Result{Accepted: true}
		}})
	Register(&Entry{Name: "hpke.UnmarshalOpener", Seeds: 6,
		Valid: func(seed uint64) []byte { _, _, o := hpkeCtx(seed); b, _ := o.MarshalBinary(); return b },
		Call: func(in []byte) Result {
			o, err := hpke.UnmarshalOpener(in)
			if err != nil {
				return Result{}
			}
			o.Open([]byte("0123456789abcdef0123"), nil)
			return Result{Accepted: true}
		}})
	Register(&Entry{Name: "hpke.Opener.Open(ciphertext)", Seeds: 6,
		Valid: func(seed uint64) []byte {
			_, s, _ := hpkeCtx(seed % 3)
			ct, _ := s.Seal(seedBytes(seed, int(seed*7%40)), []byte("aad"))
			return ct
		},
		Call: func(in []byte) Result {
			for s := uint64(0); s < 3; s++ {
				_, _, o := hpkeCtx(s)
				if _, err := o.Open(in, []byte("aad")); err == nil {
					return Result{Accepted: true}
				}
			}
			return Result{}
		}})
	for _, k := range []hpke.KEM{hpke.KEM_P256_HKDF_SHA256, hpke.KEM_X25519_HKDF_SHA256, hpke.KEM_X448_HKDF_SHA512, hpke.KEM_X25519_KYBER768_DRAFT00, hpke.KEM_XWING} {
		k := k
		sch := k.Scheme()
		suite := hpke.NewSuite(k, hpke.KDF_HKDF_SHA256, hpke.AEAD_AES128GCM)
		Register(&Entry{Name: "hpke.Receiver.Setup[" + sch.Name() + "](enc)", Cost: 10, Seeds: 3,
			Valid: func(seed uint64) []byte {
				pk, _ := sch.DeriveKeyPair(seedBytes(1, sch.SeedSize()))
				s, _ := suite.NewSender(pk, nil)
				enc, _, err := s.Setup(core.NewStream(seed + 5))
				if err != nil {
					panic("HARNESS: " + err.Error())
				}
				return enc
			},
			Call: func(in []byte) Result {
				_, sk := sch.DeriveKeyPair(seedBytes(1, sch.SeedSize()))
				r, _ := suite.NewReceiver(sk, nil)
				_, err := r.Setup(in)
				if err == nil {
					_, err2 := r.SetupPSK(in, []byte("0123456789abcdef0123456789abcdef"), []byte("id"))
					_ = err2
				}
				return Result{Accepted: err == nil}
			}})
	}

	// ---- DLEQ proofs ----
	for _, g := range []group.Group{group.P256, group.Ristretto255} {
		g := g
		gname := g.(interface{ String() string }).String()
		params := dleq.Params{G: g, H: crypto.SHA256, DST: []byte("circlsim")}
		stmt := func(seed uint64) (k group.Scalar, a, ka, b, kb group.Element) {
			k = g.HashToScalar(seedBytes(seed, 8), []byte("k"))
			a = g.Generator()
			ka = g.NewElement().Mul(a, k)
			b = g.HashToElement(seedBytes(seed, 8), []byte("b"))
			kb = g.NewElement().Mul(b, k)
			return
		}
		Register(&Entry{Name: "dleq[" + gname + "].Proof.UnmarshalBinary+Verify", Cost: 20, Seeds: 3,
			Valid: func(seed uint64) []byte {
				k, a, ka, b, kb := stmt(0)
				p, err := dleq.Prover{Params: params}.ProveWithRandomness(k, a, ka, b, kb, g.HashToScalar(seedBytes(seed, 8), []byte("r")))
				if err != nil {
					panic("HARNESS: dleq prove: " + err.Error())
				}
				bts, _ := p.MarshalBinary()
				return bts
			},
			Reuse: func() func(in []byte) Result {
				var p dleq.Proof
				return func(in []byte) Result {
					if p.UnmarshalBinary(g, in) != nil {
						return Result{}
					}
					_, a, ka, b, kb := stmt(0)
					return Result{Accepted: dleq.Verifier{Params: params}.Verify(a, ka, b, kb, &p)}
				}
			},
			Call: func(in []byte) Result {
				var p dleq.Proof
				if p.UnmarshalBinary(g, in) != nil {
					return Result{}
				}
				_, a, ka, b, kb := stmt(0)
				return Result{Accepted: dleq.Verifier{Params: params}.Verify(a, ka, b, kb, &p)}
			}})
	}

	// ---- threshold RSA ----
	Register(&Entry{Name: "tss/rsa.KeyShare.UnmarshalBinary", Seeds: 3, Cost: 3,
		Valid: func(seed uint64) []byte {
			shares, err := tssrsa.Deal(core.NewStream(seed), 3, 2, RSAKey(), seed%2 == 0)
			if err != nil {
				panic("HARNESS: Deal: " + err.Error())
			}
			b, err := shares[seed%3].MarshalBinary()
			if err != nil {
				panic("HARNESS: KeyShare.MarshalBinary: " + err.Error())
			}
			return b
		},
		Reuse: func() func(in []byte) Result {
			var ks tssrsa.KeyShare
			return func(in []byte) Result {
				if ks.UnmarshalBinary(in) != nil {
					return Result{}
				}
				_ = ks.String()
				ks.MarshalBinary()
				return Result{Accepted: true}
			}
		},
		Call: func(in []byte) Result {
			var ks tssrsa.KeyShare
			if ks.UnmarshalBinary(in) != nil {
				return Result{}
			}
			_ = ks.String()
			ks.MarshalBinary()
			return Result{Accepted: true}
		}})
	Register(&Entry{Name: "tss/rsa.SignShare.UnmarshalBinary", Seeds: 3, Cost: 20,
		Valid: func(seed uint64) []byte {
			shares, err := tssrsa.Deal(core.NewStream(1), 3, 2, RSAKey(), false)
			if err != nil {
				panic("HARNESS: Deal: " + err.Error())
			}
			d := make([]byte, 128)
			d[127] = byte(seed + 2)
			ss, err := shares[seed%3].Sign(nil, &RSAKey().PublicKey, d, false)
			if err != nil {
				panic("HARNESS: KeyShare.Sign: " + err.Error())
			}
			b, err := ss.MarshalBinary()
			if err != nil {
				panic("HARNESS: SignShare.MarshalBinary: " + err.Error())
			}
			return b
		},
		Reuse: func() func(in []byte) Result {
			var ss tssrsa.SignShare
			return func(in []byte) Result {
				if ss.UnmarshalBinary(in) != nil {
					return Result{}
				}
				_ = ss.String()
				d := make([]byte, 128)
				d[127] = 2
				tssrsa.CombineSignShares(&RSAKey().PublicKey, []tssrsa.SignShare{ss, ss}, d)
				return Result{Accepted: true}
			}
		},
		Call: func(in []byte) Result {
			var ss tssrsa.SignShare
			if ss.UnmarshalBinary(in) != nil {
				return Result{}
			}
			_ = ss.String()
			d := make([]byte, 128)
			d[127] = 2
			tssrsa.CombineSignShares(&RSAKey().PublicKey, []tssrsa.SignShare{ss, ss}, d)
			return Result{Accepted: true}
		}})

	// ---- CSIDH / SIDH ----
	Register(&Entry{Name: "csidh.PublicKey.Import", Seeds: 2, Cost: 400,
		Valid: func(seed uint64) []byte {
			var prv csidh.PrivateKey
			var pub csidh.PublicKey
			if err := csidh.GeneratePrivateKey(&prv, core.NewStream(seed)); err != nil {
				panic("HARNESS: csidh: " + err.Error())
			}
			csidh.GeneratePublicKey(&pub, &prv, core.NewStream(seed+1))
			out := make([]byte, csidh.PublicKeySize)
			pub.Export(out)
			return out
		},
		Reuse: func() func(in []byte) Result {
			var pub csidh.PublicKey
			return func(in []byte) Result {
				return Result{Accepted: pub.Import(in)}
			}
		},
		Call: func(in []byte) Result {
			var pub csidh.PublicKey
			return Result{Accepted: pub.Import(in)}
		}})
	Register(&Entry{Name: "csidh.PrivateKey.Import", Seeds: 3,
		Valid: func(seed uint64) []byte {
			var prv csidh.PrivateKey
			if err := csidh.GeneratePrivateKey(&prv, core.NewStream(seed)); err != nil {
				panic("HARNESS: csidh: " + err.Error())
			}
			out := make([]byte, csidh.PrivateKeySize)
			prv.Export(out)
			return out
		},
		Reuse: func() func(in []byte) Result {
			var prv csidh.PrivateKey
			return func(in []byte) Result {
				return Result{Accepted: prv.Import(in)}
			}
		},
		Call: func(in []byte) Result {
			var prv csidh.PrivateKey
			return Result{Accepted: prv.Import(in)}
		}})
	Register(&Entry{Name: "sidh[P434].PublicKey.Import", Seeds: 2, Cost: 5,
		Valid: func(seed uint64) []byte {
			prv := sidh.NewPrivateKey(sidh.Fp434, sidh.KeyVariantSidhA)
			pub := sidh.NewPublicKey(sidh.Fp434, sidh.KeyVariantSidhA)
			if err := prv.Generate(core.NewStream(seed)); err != nil {
				panic("HARNESS: sidh: " + err.Error())
			}
			prv.GeneratePublicKey(pub)
			out := make([]byte, pub.Size())
			pub.Export(out)
			return out
		},
		Call: func(in []byte) Result {
			pub := sidh.NewPublicKey(sidh.Fp434, sidh.KeyVariantSidhA)
			return Result{Accepted: pub.Import(in) == nil}
		}})
	Register(&Entry{Name: "sidh[P434].PrivateKey.Import", Seeds: 2,
		Valid: func(seed uint64) []byte {
			prv := sidh.NewPrivateKey(sidh.Fp434, sidh.KeyVariantSike)
			if err := prv.Generate(core.NewStream(seed)); err != nil {
				panic("HARNESS: sidh: " + err.Error())
			}
			out := make([]byte, prv.Size())
			prv.Export(out)
			return out
		},
		Call: func(in []byte) Result {
			prv := sidh.NewPrivateKey(sidh.Fp434, sidh.KeyVariantSike)
			return Result{Accepted: prv.Import(in) == nil}
		}})

	// ---- Ascon ----
	for _, m := range []ascon.Mode{ascon.Ascon128, ascon.Ascon128a, ascon.Ascon80pq} {
		m := m
		key := seedBytes(uint64(m)+100, m.KeySize())
		nonce := seedBytes(7, ascon.NonceSize)
		Register(&Entry{Name: "ascon[" + m.String() + "].Open(ciphertext)", Seeds: 6,
			Valid: func(seed uint64) []byte {
				c, err := ascon.New(key, m)
				if err != nil {
					panic("HARNESS: ascon.New: " + err.Error())
				}
				return c.Seal(nil, nonce, seedBytes(seed, int(seed*9%50)), []byte("ad"))
			},
			Call: func(in []byte) Result {
				c, _ := ascon.New(key, m)
				_, err := c.Open(nil, nonce, in, []byte("ad"))
				return Result{Accepted: err == nil}
			}})
	}

	// ---- package-level EdDSA verification with contexts ----
	Register(&Entry{Name: "ed25519.VerifyWithCtx/VerifyPh(signature)", Seeds: 4, Cost: 10,
		Valid: func(seed uint64) []byte {
			sk := ed25519.NewKeyFromSeed(seedBytes(0, 32))
			var sig []byte
			switch seed % 3 {
			case 0:
				sig = ed25519.Sign(sk, []byte("msg"))
			case 1:
				sig = ed25519.SignPh(sk, []byte("msg"), "ctx")
			default:
				sig = ed25519.SignWithCtx(sk, []byte("msg"), "ctx")
			}
			return sig
		},
		Call: func(in []byte) Result {
			pk := ed25519.NewKeyFromSeed(seedBytes(0, 32)).Public().(ed25519.PublicKey)
			ok := ed25519.Verify(pk, []byte("msg"), in) ||
				ed25519.VerifyWithCtx(pk, []byte("msg"), in, "ctx") ||
				ed25519.VerifyPh(pk, []byte("msg"), in, "ctx") ||
				ed25519.VerifyAny(pk, make([]byte, 64), in, ed25519.SignerOptions{Scheme: ed25519.ED25519Ph, Context: "ctx", Hash: crypto.SHA512})
			return Result{Accepted: ok}
		}})
	Register(&Entry{Name: "ed25519.Verify(publickey)", Seeds: 2, Cost: 10,
		Valid: func(seed uint64) []byte {
			return []byte(ed25519.NewKeyFromSeed(seedBytes(seed, 32)).Public().(ed25519.PublicKey))
		},
		Call: func(in []byte) Result {
			sk := ed25519.NewKeyFromSeed(seedBytes(0, 32))
			sig := ed25519.Sign(sk, []byte("msg"))
			sk1 := ed25519.NewKeyFromSeed(seedBytes(1, 32))
			sig1 := ed25519.Sign(sk1, []byte("msg"))
			return Result{Accepted: ed25519.Verify(ed25519.PublicKey(in), []byte("msg"), sig) || ed25519.Verify(ed25519.PublicKey(in), []byte("msg"), sig1)}
		}})
	Register(&Entry{Name: "ed448.Verify/VerifyPh(signature)", Seeds: 4, Cost: 20,
		Valid: func(seed uint64) []byte {
			sk := ed448.NewKeyFromSeed(seedBytes(0, 57))
			if seed%2 == 0 {
				return ed448.Sign(sk, []byte("msg"), "ctx")
			}
			return ed448.SignPh(sk, []byte("msg"), "ctx")
		},
		Call: func(in []byte) Result {
			pk := ed448.NewKeyFromSeed(seedBytes(0, 57)).Public().(ed448.PublicKey)
			return Result{Accepted: ed448.Verify(pk, []byte("msg"), in, "ctx") || ed448.VerifyPh(pk, []byte("msg"), in, "ctx")}
		}})
	Register(&Entry{Name: "ed448.Verify(publickey)", Seeds: 2, Cost: 20,
		Valid: func(seed uint64) []byte {
			return []byte(ed448.NewKeyFromSeed(seedBytes(seed, 57)).Public().(ed448.PublicKey))
		},
		Call: func(in []byte) Result {
			sig := ed448.Sign(ed448.NewKeyFromSeed(seedBytes(0, 57)), []byte("msg"), "")
			sig1 := ed448.Sign(ed448.NewKeyFromSeed(seedBytes(1, 57)), []byte("msg"), "")
			return Result{Accepted: ed448.Verify(ed448.PublicKey(in), []byte("msg"), sig, "") || ed448.Verify(ed448.PublicKey(in), []byte("msg"), sig1, "")}
		}})

	// ---- CP-ABE (tkn20) ----
	Register(&Entry{Name: "tkn20.PublicKey.UnmarshalBinary", Seeds: 1, Cost: 80, Canon: true, Aware: []func([]byte, int) []byte{blsSlotCompress}, AwareN: 48,
		Valid: func(seed uint64) []byte { tknSetup(); b, _ := tknCache.pk.MarshalBinary(); return b },
		Reuse: func() func(in []byte) Result {
			var pk tkn20.PublicKey
			return func(in []byte) Result {
				if pk.UnmarshalBinary(in) != nil {
					return Result{}
				}
				b, _ := pk.MarshalBinary()
				return Result{Accepted: true, Reenc: b}
			}
		},
		Call: func(in []byte) Result {
			var pk tkn20.PublicKey
			if pk.UnmarshalBinary(in) != nil {
				return Result{}
			}
			b, _ := pk.MarshalBinary()
			return Result{Accepted: true, Reenc: b}
		}})
	Register(&Entry{Name: "tkn20.SystemSecretKey.UnmarshalBinary", Seeds: 1, Cost: 80,
		Valid: func(seed uint64) []byte { tknSetup(); b, _ := tknCache.msk.MarshalBinary(); return b },
		Reuse: func() func(in []byte) Result {
			var k tkn20.SystemSecretKey
			return func(in []byte) Result {
				return Result{Accepted: k.UnmarshalBinary(in) == nil}
			}
		},
		Call: func(in []byte) Result {
			var k tkn20.SystemSecretKey
			return Result{Accepted: k.UnmarshalBinary(in) == nil}
		}})
	Register(&Entry{Name: "tkn20.AttributeKey.UnmarshalBinary", Seeds: 1, Cost: 80, Aware: []func([]byte, int) []byte{blsSlotCompress}, AwareN: 48,
		Valid: func(seed uint64) []byte { tknSetup(); b, _ := tknCache.ak.MarshalBinary(); return b },
		Reuse: func() func(in []byte) Result {
			var k tkn20.AttributeKey
			return func(in []byte) Result {
				return Result{Accepted: k.UnmarshalBinary(in) == nil}
			}
		},
		Call: func(in []byte) Result {
			var k tkn20.AttributeKey
			return Result{Accepted: k.UnmarshalBinary(in) == nil}
		}})
	// decode, then use: a stored key with a damaged byte that the decoder lets through is used
	// for what it is for; the damage may make the operation fail, not crash
	Register(&Entry{Name: "tkn20.AttributeKey.UnmarshalBinary+Decrypt", Seeds: 1, Cost: 400, Aware: []func([]byte, int) []byte{blsSlotCompress, tknMatrixDims, tknFlagBytes}, AwareN: 96,
		Valid: func(seed uint64) []byte { tknSetup(); b, _ := tknCache.ak.MarshalBinary(); return b },
		Call: func(in []byte) Result {
			tknSetup()
			var k tkn20.AttributeKey
			if k.UnmarshalBinary(in) != nil {
				return Result{}
			}
			k.Equal(tknCache.ak)
			tknCache.ak.Equal(&k)
			_, err := k.Decrypt(tknCache.ct)
			return Result{Accepted: err == nil}
		}})
	Register(&Entry{Name: "tkn20.PublicKey.UnmarshalBinary+Encrypt", Seeds: 1, Cost: 400, Aware: []func([]byte, int) []byte{tknMatrixDims}, AwareN: 96,
		Valid: func(seed uint64) []byte { tknSetup(); b, _ := tknCache.pk.MarshalBinary(); return b },
		Call: func(in []byte) Result {
			tknSetup()
			var pk tkn20.PublicKey
			if pk.UnmarshalBinary(in) != nil {
				return Result{}
			}
			pk.Equal(tknCache.pk)
			var pol tkn20.Policy
			if pol.FromString("country: nl and not role: guest") != nil {
				panic("HARNESS: policy")
			}
			_, err := pk.Encrypt(core.NewStream(5), pol, []byte("m"))
			pk.MarshalBinary()
			return Result{Accepted: err == nil}
		}})
	Register(&Entry{Name: "tkn20.SystemSecretKey.UnmarshalBinary+KeyGen", Seeds: 1, Cost: 400, Aware: []func([]byte, int) []byte{tknMatrixDims}, AwareN: 96,
		Valid: func(seed uint64) []byte { tknSetup(); b, _ := tknCache.msk.MarshalBinary(); return b },
		Call: func(in []byte) Result {
			tknSetup()
			var k tkn20.SystemSecretKey
			if k.UnmarshalBinary(in) != nil {
				return Result{}
			}
			k.Equal(tknCache.msk)
			var attrs tkn20.Attributes
			attrs.FromMap(map[string]string{"country": "nl"})
			_, err := k.KeyGen(core.NewStream(6), attrs)
			return Result{Accepted: err == nil}
		}})
	Register(&Entry{Name: "tkn20.Policy.ExtractFromCiphertext+Encrypt", Seeds: 1, Cost: 400, Aware: []func([]byte, int) []byte{tknFormulaEdge, tknGateClass}, AwareN: 64,
		Valid: func(seed uint64) []byte { tknSetup(); return tknCache.ct },
		Call: func(in []byte) Result {
			tknSetup()
			var p tkn20.Policy
			if p.ExtractFromCiphertext(in) != nil {
				return Result{}
			}
			_ = p.String()
			_, err := tknCache.pk.Encrypt(core.NewStream(7), p, []byte("reply"))
			return Result{Accepted: err == nil}
		}})
	Register(&Entry{Name: "tkn20.AttributeKey.Decrypt(ciphertext)", Seeds: 1, Cost: 400,
		Valid: func(seed uint64) []byte { tknSetup(); return tknCache.ct },
		Call: func(in []byte) Result {
			tknSetup()
			_, err := tknCache.ak.Decrypt(in)
			return Result{Accepted: err == nil}
		},
		// a consistently re-framed ciphertext: one of the nested fields (id, header, envelope,
		// tag) is cut to a small size and every enclosing length prefix is rewritten to match
		Aware: []func([]byte, int) []byte{
			func(v []byte, a int) []byte { return tknRefit(v, "env", a) },
			func(v []byte, a int) []byte { return tknRefit(v, "header", a) },
			func(v []byte, a int) []byte { return tknRefit(v, "tag", a) },
			func(v []byte, a int) []byte { return tknRefit(v, "id", a) },
			tknFormulaEdge,
			tknHeaderEdit,
		}, AwareN: 224})
	Register(&Entry{Name: "tkn20.Policy.ExtractFromCiphertext+CouldDecrypt", Seeds: 1, Cost: 10,
		Aware: []func([]byte, int) []byte{tknFormulaEdge, func(v []byte, a int) []byte { return tknRefit(v, "header", a) }, tknHeaderEdit, tknGateCount}, AwareN: 224,
		Valid: func(seed uint64) []byte { tknSetup(); return tknCache.ct },
		Reuse: func() func(in []byte) Result {
			var p tkn20.Policy
			return func(in []byte) Result {
				err := p.ExtractFromCiphertext(in)
				var attrs tkn20.Attributes
				attrs.FromMap(map[string]string{"country": "nl"})
				attrs.CouldDecrypt(in)
				if err == nil {
					_ = p.String()
					p.Satisfaction(attrs)
					p.ExtractAttributeValuePairs()
				}
				return Result{Accepted: err == nil}
			}
		},
		Call: func(in []byte) Result {
			var p tkn20.Policy
			err := p.ExtractFromCiphertext(in)
			var attrs tkn20.Attributes
			attrs.FromMap(map[string]string{"country": "nl"})
			attrs.CouldDecrypt(in)
			if err == nil {
				_ = p.String()
				p.Satisfaction(attrs)
				p.ExtractAttributeValuePairs()
			}
			return Result{Accepted: err == nil}
		}})
	policies := []string{
		"(country: nl or country: be) and not role: guest",
		"not (a: 1 and (b: 2 or not c: 3))",
		"x: y",
		"((a:1))and(b:2)or c:3",
	}
	Register(&Entry{Name: "tkn20.Policy.FromString", Seeds: len(policies), Cost: 2, Text: true,
		Valid: func(seed uint64) []byte { return []byte(policies[seed%uint64(len(policies))]) },
		Reuse: func() func(in []byte) Result {
			var p tkn20.Policy
			return func(in []byte) Result {
				if p.FromString(string(in)) != nil {
					return Result{}
				}
				_ = p.String()
				return Result{Accepted: true}
			}
		},
		Call: func(in []byte) Result {
			var p tkn20.Policy
			if p.FromString(string(in)) != nil {
				return Result{}
			}
			_ = p.String()
			return Result{Accepted: true}
		},
		Aware: []func([]byte, int) []byte{
			func(v []byte, a int) []byte { return v[:len(v)-(a%len(v))] }, // every prefix
			func(v []byte, a int) []byte { // drop one token-ish character
				i := a % len(v)
				return append(v[:i:i], v[i+1:]...)
			},
			func(v []byte, a int) []byte { // insert a structural character
				i := a % (len(v) + 1)
				c := []byte("():! \t")[a%6]
				return append(append(append([]byte{}, v[:i]...), c), v[i:]...)
			},
			func(v []byte, a int) []byte { // keyword fragments at the end
				return append(v, [](string){" and", " or", " not", " and not", " (", " a:", ":", " not a:"}[a%8]...)
			},
		}})
	_ = rand.Reader
	_ = big.NewInt
}

func hashFor(s uint64) crypto.Hash {
	if s == 2 { // ED25519Ph
		return crypto.SHA512
	}
	return crypto.Hash(0)
}

// blsSlotCompress finds the slots of a byte string that hold an uncompressed BLS12-381 point
// (96 bytes in G1, 192 in G2) and turns slot number a into "a compressed point followed by
// whatever was there": the compression flag of its first byte is set.
var blsSlotCache = map[string][]int{}

func blsSlotCompress(v []byte, a int) []byte {
	key := string(v)
	slots, ok := blsSlotCache[key]
	if !ok {
		for off := 0; off+96 <= len(v); off++ {
			if v[off]&0xe0 != 0 {
				continue
			}
			var p bls12381.G1
			if off+96 <= len(v) && p.SetBytes(v[off:off+96]) == nil {
				slots = append(slots, off)
				off += 95
				continue
			}
			var q bls12381.G2
			if off+192 <= len(v) && q.SetBytes(v[off:off+192]) == nil {
				slots = append(slots, off)
				off += 191
			}
		}
		blsSlotCache[key] = slots
	}
	if len(slots) == 0 {
		return nil
	}
	if a < 0 {
		a = -a
	}
	v[slots[a%len(slots)]] |= 0x80
	return v
}

// tknMatrixDims finds matrix headers in a tkn20 key encoding (two 16-bit little-endian
// dimensions, each 1..8, followed by at least rows*cols*32 bytes) and rewrites the a-th one:
// no rows, a row / column more or fewer, rows and columns swapped, or the product kept with
// other factors (4x2 -> 8x1, 2x4, 1x8). The entries are left as they are.
func tknMatrixDims(v []byte, a int) []byte {
	var offs []int
	for off := 0; off+4 <= len(v); off++ {
		r, c := int(v[off])|int(v[off+1])<<8, int(v[off+2])|int(v[off+3])<<8
		if r >= 1 && r <= 8 && c >= 1 && c <= 8 && off+4+r*c*32 <= len(v) {
			offs = append(offs, off)
		}
	}
	if len(offs) == 0 {
		return nil
	}
	if a < 0 {
		a = -a
	}
	off := offs[(a/8)%len(offs)]
	r, c := int(v[off]), int(v[off+2])
	nr, nc := r, c
	switch a % 8 {
	case 0:
		nr, nc = 0, 0
	case 1:
		nr = r + 1
	case 2:
		nc = c + 1
	case 3:
		nr, nc = c, r
	case 4:
		nr, nc = r*c, 1
	case 5:
		nr, nc = 1, r*c
	case 6:
		nr = r - 1
	case 7:
		nc = c - 1
	}
	if nr == r && nc == c {
		return nil
	}
	v[off], v[off+1], v[off+2], v[off+3] = byte(nr), 0, byte(nc), 0
	return v
}

// tknFlagBytes flips the a-th byte of the encoding that holds 0 or 1 (boolean flags such as
// an attribute's wildcard marker) and the byte after a label's length prefix.
func tknFlagBytes(v []byte, a int) []byte {
	var offs []int
	for i, b := range v {
		if b <= 1 {
			offs = append(offs, i)
		}
	}
	if len(offs) == 0 {
		return nil
	}
	if a < 0 {
		a = -a
	}
	v[offs[a%len(offs)]] ^= 1
	return v
}

// tknGateCount rewrites the 16-bit gate count of the formula inside a ciphertext to values for
// which 2+7*n, computed in 16 bits, wraps around to a small number (n = 9363: 2+7n = 65543),
// and to the extremes.
func tknGateCount(v []byte, a int) []byte {
	le := func(b []byte) int { return int(b[0]) | int(b[1])<<8 }
	for off := 0; off+2 <= len(v); off++ {
		n := le(v[off:])
		if n < 1 || n > 64 || off+2+7*n > len(v) {
			continue
		}
		ok := true
		for i := 0; i < n && ok; i++ {
			g := v[off+2+7*i:]
			in0, in1, out := le(g[1:]), le(g[3:]), le(g[5:])
			if g[0] > 1 || in0 > 2*n-1 || in1 > 2*n-1 || out < n+1 || out > 2*n || in0 == in1 {
				ok = false
			}
		}
		if !ok {
			continue
		}
		if a < 0 {
			a = -a
		}
		val := []int{9363, 9362, 9364, 18725, 18726, 28088, 37450, 0xffff, 0x8000, 0}[a%10]
		v[off], v[off+1] = byte(val), byte(val>>8)
		return v
	}
	return nil
}

// tknGateClass sets the class byte of a gate of the formula inside a ciphertext to a value
// that is neither AND nor OR.
func tknGateClass(v []byte, a int) []byte {
	le := func(b []byte) int { return int(b[0]) | int(b[1])<<8 }
	for off := 0; off+2 <= len(v); off++ {
		n := le(v[off:])
		if n < 1 || n > 64 || off+2+7*n > len(v) {
			continue
		}
		ok := true
		for i := 0; i < n && ok; i++ {
			g := v[off+2+7*i:]
			in0, in1, out := le(g[1:]), le(g[3:]), le(g[5:])
			if g[0] > 1 || in0 > 2*n-1 || in1 > 2*n-1 || out < n+1 || out > 2*n || in0 == in1 {
				ok = false
			}
		}
		if !ok {
			continue
		}
		if a < 0 {
			a = -a
		}
		v[off+2+7*(a%n)] = []byte{2, 3, 5, 0x7f, 0x80, 0xff}[(a/n)%6]
		return v
	}
	return nil
}

// refitSizes: field sizes worth trying, dense around small powers of two and their neighbours.
var refitSizes = []int{0, 1, 2, 3, 4, 7, 8, 9, 15, 16, 17, 31, 32, 33, 47, 48, 49, 63, 64, 65, 66, 67, 68, 69, 70, 71, 72, 73, 79, 80, 81, 127}

// tknRefit parses a tkn20 ciphertext (optional version string, then little-endian
// length-prefixed fields: id (16-bit), macData (32-bit) = header (32-bit) || envelope (32-bit),
// tag (16-bit); the legacy format has 16-bit prefixes throughout), cuts one field to
// refitSizes[a] bytes and rewrites the prefixes of the field and of what encloses it.
type tknParts struct {
	skip, w           int
	id, hdr, env, tag []byte
	prefix            []byte
}

func tknLE(b []byte, w int) int {
	n := 0
	for i := w - 1; i >= 0; i-- {
		n = n<<8 | int(b[i])
	}
	return n
}

func tknPut(n, w int) []byte {
	out := make([]byte, w)
	for i := 0; i < w; i++ {
		out[i] = byte(n >> (8 * i))
	}
	return out
}

// tknSplit finds the fields of a tkn20 ciphertext (nil if v does not parse as one).
func tknSplit(v []byte) *tknParts {
	le := tknLE
	for skip := 0; skip <= 12 && skip < len(v); skip++ {
		for _, w := range []int{4, 2} { // width of the macData / header / envelope prefixes
			r := v[skip:]
			if len(r) < 2 {
				continue
			}
			il := le(r, 2)
			if 2+il+w > len(r) {
				continue
			}
			id := r[2 : 2+il]
			r2 := r[2+il:]
			ml := le(r2, w)
			if w+ml+2 > len(r2) {
				continue
			}
			mac := r2[w : w+ml]
			r3 := r2[w+ml:]
			tl := le(r3, 2)
			if 2+tl != len(r3) {
				continue
			}
			tag := r3[2:]
			if len(mac) < w {
				continue
			}
			hl := le(mac, w)
			if w+hl+w > len(mac) {
				continue
			}
			hdr := mac[w : w+hl]
			m2 := mac[w+hl:]
			el := le(m2, w)
			if w+el != len(m2) {
				continue
			}
			return &tknParts{skip: skip, w: w, id: id, hdr: hdr, env: m2[w:], tag: tag, prefix: v[:skip]}
		}
	}
	return nil
}

// build re-assembles the ciphertext with prefixes that fit the (edited) fields.
func (t *tknParts) build() []byte {
	put, w := tknPut, t.w
	nm := append(append(append(put(len(t.hdr), w), t.hdr...), put(len(t.env), w)...), t.env...)
	out := append([]byte{}, t.prefix...)
	out = append(append(out, put(len(t.id), 2)...), t.id...)
	out = append(append(out, put(len(nm), w)...), nm...)
	return append(append(out, put(len(t.tag), 2)...), t.tag...)
}

func tknRefit(v []byte, field string, a int) []byte {
	size := refitSizes[((a%len(refitSizes))+len(refitSizes))%len(refitSizes)]
	t := tknSplit(v)
	if t == nil {
		return nil
	}
	cut := func(b []byte) []byte {
		if size >= len(b) {
			return nil
		}
		return b[:size]
	}
	switch field {
	case "env":
		t.env = cut(t.env)
	case "header":
		t.hdr = cut(t.hdr)
	case "tag":
		t.tag = cut(t.tag)
	case "id":
		t.id = cut(t.id)
	}
	if t.env == nil || t.hdr == nil || t.tag == nil || t.id == nil {
		return nil
	}
	return t.build()
}

// tknHeaderEdit works on the items of the ciphertext header (16-bit length-prefixed policy and
// c1 matrix, a 16-bit count and that many prefixed c2 matrices, a 16-bit count and twice that
// many prefixed c3 matrices; a matrix is rows, cols and rows*cols group elements): the header
// ends right after an item or a count (or one byte later), or one matrix gets other
// dimensions — none at all, a row or a column more or fewer, rows and columns swapped — with
// as many entries as the new dimensions ask for. All enclosing prefixes are refitted.
func tknHeaderEdit(v []byte, a int) []byte {
	t := tknSplit(v)
	if t == nil {
		return nil
	}
	if a < 0 {
		a = -a
	}
	h := t.hdr
	type span struct{ from, to int } // content of a prefixed item
	var items []span
	var bounds []int
	pos := 0
	item := func() bool {
		if pos+2 > len(h) {
			return false
		}
		n := tknLE(h[pos:], 2)
		if pos+2+n > len(h) {
			return false
		}
		items = append(items, span{pos + 2, pos + 2 + n})
		pos += 2 + n
		bounds = append(bounds, pos)
		return true
	}
	count := func() (int, bool) {
		if pos+2 > len(h) {
			return 0, false
		}
		n := tknLE(h[pos:], 2)
		pos += 2
		bounds = append(bounds, pos)
		return n, true
	}
	if !item() || !item() {
		return nil
	}
	n2, ok := count()
	for i := 0; ok && i < n2; i++ {
		ok = item()
	}
	n3, ok2 := 0, false
	if ok {
		n3, ok2 = count()
	}
	for i := 0; ok2 && i < 2*n3; i++ {
		ok2 = item()
	}
	if len(bounds) == 0 {
		return nil
	}
	kind := a % 7
	sel := a / 7
	switch kind {
	case 0, 1: // the header ends at a boundary (or a byte later)
		b := bounds[sel%len(bounds)] + kind
		if b >= len(h) {
			return nil
		}
		t.hdr = h[:b]
	default: // matrix dimensions
		mats := items[1:] // item 0 is the policy
		if len(mats) == 0 {
			return nil
		}
		m := mats[sel%len(mats)]
		c := h[m.from:m.to]
		if len(c) < 4 {
			return nil
		}
		rows, cols := tknLE(c, 2), tknLE(c[2:], 2)
		if rows*cols == 0 || (len(c)-4)%(rows*cols) != 0 {
			return nil
		}
		el := (len(c) - 4) / (rows * cols)
		nr, nc := rows, cols
		switch kind {
		case 2:
			nr, nc = 0, 0
		case 3:
			nr = rows + 1
		case 4:
			nc = cols + 1
		case 5:
			nr, nc = cols, rows
		case 6:
			if rows > 1 {
				nr = rows - 1
			} else {
				nc = cols - 1
			}
		}
		if nr == rows && nc == cols {
			return nil
		}
		body := append([]byte{}, c[4:]...)
		for len(body) < nr*nc*el {
			body = append(body, c[4:4+el]...)
		}
		body = body[:nr*nc*el]
		nm := append(append(tknPut(nr, 2), tknPut(nc, 2)...), body...)
		nh := append([]byte{}, h[:m.from-2]...)
		nh = append(append(nh, tknPut(len(nm), 2)...), nm...)
		t.hdr = append(nh, h[m.to:]...)
	}
	return t.build()
}

// tknFormulaEdge finds the Boolean formula inside a tkn20 ciphertext by its shape (a 16-bit
// little-endian gate count n followed by n gates of 7 bytes: class, in0, in1, out, with the
// wire numbers of a well-formed formula) and moves one wire number of one gate to an edge of
// its range: 0, n-1, n, n+1, 2n-1, 2n, 2n+1, 0xffff.
func tknFormulaEdge(v []byte, a int) []byte {
	le := func(b []byte) int { return int(b[0]) | int(b[1])<<8 }
	for off := 0; off+2 <= len(v); off++ {
		n := le(v[off:])
		if n < 1 || n > 64 || off+2+7*n > len(v) {
			continue
		}
		ok := true
		for i := 0; i < n && ok; i++ {
			g := v[off+2+7*i:]
			in0, in1, out := le(g[1:]), le(g[3:]), le(g[5:])
			if g[0] > 1 || in0 > 2*n-1 || in1 > 2*n-1 || out < n+1 || out > 2*n || in0 == in1 {
				ok = false
			}
		}
		if !ok {
			continue
		}
		if a < 0 {
			a = -a
		}
		gate, field, edge := (a/24)%n, (a/8)%3, a%8
		val := []int{0, n - 1, n, n + 1, 2*n - 1, 2 * n, 2*n + 1, 0xffff}[edge]
		if val < 0 {
			val = 0
		}
		pos := off + 2 + 7*gate + 1 + 2*field
		v[pos], v[pos+1] = byte(val), byte(val>>8)
		return v
	}
	return nil
}
