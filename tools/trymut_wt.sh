#!/bin/bash
# usage: tools/trymut_wt.sh <seeded-name|patch.diff|-> <ID> [tier]
# Runs a check against a scratch worktree of /repo HEAD with a seeded change applied ("-" = no change:
# the clean tree). /repo's working tree and /verif/evidence are not touched, so runs can go in parallel.
set -u
P="$1"; ID="$2"; TIER="${3:-quick}"
[ -f "$P" ] || { [ "$P" = "-" ] || P="/verif/seeded/$P/patch.diff"; }
WT=$(mktemp -d /tmp/tmw.XXXXXX); OUT=$(mktemp -d /var/tmp/tmw.out.XXXXXX)
rmdir "$WT"; git -C /repo worktree prune
git -C /repo worktree add -q --detach "$WT" HEAD || exit 2
cleanup() { git -C /repo worktree remove --force "$WT" 2>/dev/null; rm -rf "$WT" "$OUT"; }
trap cleanup EXIT
if [ "$P" != "-" ]; then
  git -C "$WT" apply "$P" 2>/dev/null || git -C "$WT" apply --3way "$P" 2>/dev/null || { echo "patch does not apply"; exit 2; }
fi
VERIF_REPO="$WT" VERIF_OUT_DIR="$OUT" /verif/bin/check "$ID" "$TIER" > "$OUT/log" 2>&1; rc=$?
grep -E "^\[C[0-9]+\] C[0-9]+\||KNOWN-FINDING|runs=|trouble|failed" "$OUT/log" | cut -c1-330 | head -${LINES_MAX:-6}
echo "exit=$rc"
