//go:build verif

package k12

// NewDraft10Lanes exposes the lane count knob (1, 2 or 4) to the simulator.
// Mapped into xof/k12 by go build -overlay; never committed to /repo.
func NewDraft10Lanes(c []byte, lanes byte) State { return newDraft10(c, lanes) }
