//go:build verif

// Package prio3shim is mapped to vdaf/prio3/verifshim by go build -overlay; it
// names the internal parameter type returned by every Prio3 instance's Params
// method so that the simulator can write generic code. Never committed to /repo.
package prio3shim

import "github.com/cloudflare/circl/vdaf/prio3/internal/prio3"

type Params = prio3.Params
