//go:build verif

package mhcv

// Adversarial-client seam for the simulator (see shim/prio3_internal_export.go). Mapped into
// vdaf/prio3/mhcv by go build -overlay; never committed to /repo.
func (x *MultiHotCountVec) VerifEncode(measurement []bool) (Vec, error) { return x.p.VerifEncode(measurement) }

func (x *MultiHotCountVec) VerifShardEncoded(enc Vec, nonce *Nonce, rand []byte) (PublicShare, []InputShare, error) {
	return x.p.VerifShardEncoded(enc, nonce, rand)
}
