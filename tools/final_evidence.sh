#!/bin/bash
# usage: tools/final_evidence.sh [tier] — runs every claimed check (default: thorough) in /verif against /repo's
# working tree, so that each check rewrites its own /verif/evidence/<id>.json; prints one line per check.
# Replays written for a violation stay under /verif/replays (none is expected on the unchanged tree).
set -u
V="$(cd "$(dirname "$0")/.." && pwd)"
TIER="${1:-thorough}"
rc=0
for id in $(python3 -c "import json;print(' '.join(c['property_id'] for c in json.load(open('$V/MANIFEST.json'))['checks']))"); do
  s=$(date +%s)
  "$V/bin/check" "$id" "$TIER" > "/var/tmp/final.$id.log" 2>&1; r=$?
  echo "== $id tier=$TIER exit=$r wall=$(( $(date +%s) - s ))s :: $(grep -E "runs=|plans compared|engines=" /var/tmp/final.$id.log | tail -1 | cut -c1-160)"
  grep -E "VIOLATION|KNOWN-FINDING|mismatch|trouble" "/var/tmp/final.$id.log" | cut -c1-200 | head -4
  [ $r -eq 0 ] || rc=1
done
exit $rc
