#!/bin/bash
# Builds every workload binary twice (default and -tags purego) into the scratch
# directory given as $1; the C14 driver replays their seeded plans under each
# build / CPU configuration.
set -u
export GOFLAGS=-mod=mod GOPROXY=off GOSUMDB=off GOTOOLCHAIN=local
SCR="$1"
V="$(cd "$(dirname "$0")/../../.." && pwd)"
"$V/bin/mkoverlay" "$SCR/overlay.json" || exit 2
cd "$V/sim" || exit 2
pids=()
for w in c14prim c01 c02 c07 c08 c15 c16; do
  ( go build ${VERIF_MODFLAG:-} -tags verif -overlay "$SCR/overlay.json" -o "$SCR/w_${w}_default" "./props/$w" && \
    go build ${VERIF_MODFLAG:-} -tags "verif purego" -overlay "$SCR/overlay.json" -o "$SCR/w_${w}_purego" "./props/$w" ) &
  pids+=($!)
done
rc=0
for p in "${pids[@]}"; do wait "$p" || rc=2; done
exit $rc
