// Package codec is circlsim's "encode -> faulty medium -> decode" engine: the
// degenerate one-message protocol in which a valid encoding crosses a storage or
// transport medium that flips bits, tears, extends, splices or rewrites length
// fields, and a decoding entry point of circl receives the result.
// It serves C10 (no panic / hang) and C09 (accepted implies canonical member).
package codec

import (
	"encoding/binary"
	"encoding/json"
	"fmt"
	"sort"

	"circlsim/core"
)

// Result of one decode.
type Result struct {
	Accepted bool
	Reenc    []byte // canonical re-encoding of the accepted value (C09 entries)
	Member   bool   // membership test of the accepted value (C09 entries)
}

type Entry struct {
	Name  string
	Valid func(seed uint64) []byte // a valid encoding, pure function of seed
	Call  func(in []byte) Result   // the decoding entry point (may panic: that is what C10 looks for)
	// Reuse, if set, makes a decoder bound to ONE receiver object that is handed every
	// input in turn (a connection that keeps its key / element object): what an earlier
	// input left behind — accepted or refused — must not change how the next one is
	// decoded, and must not make the object panic.
	Reuse func() func(in []byte) Result
	// C09:
	Canon bool // accepted => Reenc == input
	// Prefix: the decoder documents (and its tests pin) that it parses a prefix of
	// its input and ignores what follows; then accepted => Reenc == input[:len(Reenc)]
	Prefix     bool
	Membership bool // accepted => Member
	// format-aware faults (C09/C10): each returns a corrupted variant of v
	Aware []func(v []byte, a int) []byte
	// AwareN: how many values of a the directed plans enumerate per aware fault (default 32)
	AwareN int
	// Text: the input is text, not a binary format with length fields (no wrap16 faults:
	// they only make the input 64 KiB long)
	Text bool
	// FixedLen > 0: the API takes a fixed-size array, length faults cannot be expressed
	FixedLen int
	Cost     int // relative cost of one call (1 = microseconds, 10 = ~1 ms, 100 = ~10 ms)
	Seeds    int // number of distinct valid encodings worth generating (default 8)
}

var registry = map[string]*Entry{}
var names []string

func Register(e *Entry) {
	if _, dup := registry[e.Name]; dup {
		panic("HARNESS: duplicate codec entry " + e.Name)
	}
	if e.Cost == 0 {
		e.Cost = 1
	}
	if e.Seeds == 0 {
		e.Seeds = 8
	}
	registry[e.Name] = e
	names = append(names, e.Name)
	sort.Strings(names)
}

func Names() []string { return names }

// ReuseNames lists the entries that also run the receiver-object-reuse oracle.
func ReuseNames() []string {
	var out []string
	for _, n := range names {
		if registry[n].Reuse != nil {
			out = append(out, n)
		}
	}
	return out
}
func Get(n string) *Entry { return registry[n] }

// Mut is one fault of the medium.
type Mut struct {
	K string `json:"k"`
	A int    `json:"a,omitempty"`
	B int    `json:"b,omitempty"`
}

// Plan: one entry, one valid encoding (by seed), an explicit list of faults
// and/or an enumeration over a fault family.
type Plan struct {
	Entry string `json:"entry"`
	Seed  uint64 `json:"seed"`
	Muts  []Mut  `json:"muts,omitempty"`
	Enum  string `json:"enum,omitempty"` // flips | truncs | lenfields | wraps | sizes | aware
	From  int    `json:"from,omitempty"`
	To    int    `json:"to,omitempty"` // exclusive; 0 = to the end
}

var validCache = map[string][]byte{}

func valid(e *Entry, seed uint64) []byte {
	k := fmt.Sprintf("%s/%d", e.Name, seed)
	if v, ok := validCache[k]; ok {
		return v
	}
	v := e.Valid(seed)
	if len(validCache) > 4000 {
		validCache = map[string][]byte{}
	}
	validCache[k] = v
	return v
}

// Valid returns a copy of the entry's valid encoding number seed%Seeds.
func Valid(e *Entry, seed uint64) []byte {
	return append([]byte{}, valid(e, seed%uint64(e.Seeds))...)
}

// Apply returns the corrupted encoding, or nil,false if the fault does not apply.
func Apply(e *Entry, v []byte, m Mut) ([]byte, bool) {
	out := append([]byte{}, v...)
	n := len(v)
	switch m.K {
	case "none":
		return out, true
	case "flip":
		if n == 0 {
			return nil, false
		}
		b := m.A % (n * 8)
		if b < 0 {
			return nil, false
		}
		out[b/8] ^= 1 << (b % 8)
	case "trunc":
		if e.FixedLen > 0 || n == 0 || m.A < 0 {
			return nil, false
		}
		out = out[:m.A%n]
	case "extend":
		if e.FixedLen > 0 || m.A < 0 {
			return nil, false
		}
		for i := 0; i < 1+m.A%40; i++ {
			out = append(out, byte(m.B))
		}
	case "setbyte":
		if n == 0 || m.A < 0 {
			return nil, false
		}
		out[m.A%n] = byte(m.B)
	case "zeros":
		for i := range out {
			out[i] = 0
		}
	case "ones":
		for i := range out {
			out[i] = 0xff
		}
	case "empty":
		if e.FixedLen > 0 {
			return nil, false
		}
		out = []byte{}
	case "nil":
		if e.FixedLen > 0 {
			return nil, false
		}
		return nil, true
	case "onebyte":
		if e.FixedLen > 0 {
			return nil, false
		}
		out = []byte{byte(m.B)}
	case "rand":
		l := m.A
		if e.FixedLen > 0 {
			l = e.FixedLen
		}
		if l < 0 || l > 1<<16 {
			return nil, false
		}
		out = core.NewPRNG(uint64(m.B) + 77).Bytes(l)
	case "set16":
		if n < 2 || m.A < 0 {
			return nil, false
		}
		binary.BigEndian.PutUint16(out[m.A%(n-1):], uint16(m.B))
	case "set32":
		if n < 4 || m.A < 0 {
			return nil, false
		}
		binary.BigEndian.PutUint32(out[m.A%(n-3):], uint32(m.B))
	case "set16le":
		if n < 2 || m.A < 0 {
			return nil, false
		}
		binary.LittleEndian.PutUint16(out[m.A%(n-1):], uint16(m.B))
	case "wrap16":
		// a 16-bit length field near its maximum, in an input that really is that long: sums
		// such as header+length computed in 16 bits wrap around. The field at offset A gets
		// 0xfff8+(B&7) (big endian, little endian with B&8) and the input is resized so that
		// the bytes after the field number exactly the field (B&48 = 0), 0xffff (16) or
		// 0x10000 + the field's low 3 bits (32).
		if e.FixedLen > 0 || e.Text || n < 2 || m.A < 0 {
			return nil, false
		}
		off := m.A % (n - 1)
		val := 0xfff8 + m.B&7
		after := val
		switch m.B & 48 {
		case 16:
			after = 0xffff
		case 32:
			after = 0x10000 + val&7
		case 48:
			return nil, false
		}
		grown := make([]byte, off+2+after)
		copy(grown, out)
		for i := n; i < len(grown); i++ {
			grown[i] = byte(i * 7)
		}
		out = grown
		if m.B&8 != 0 {
			binary.LittleEndian.PutUint16(out[off:], uint16(val))
		} else {
			binary.BigEndian.PutUint16(out[off:], uint16(val))
		}
	case "ramp":
		// the last A bytes (or the first, B&2) become a strictly increasing run ending at 0xff
		// (or starting at 0, B&1): sorted index lists, counters and hint tables read such runs
		// far beyond where random bytes stop them
		k := m.A
		if k <= 0 || n == 0 {
			return nil, false
		}
		if k > n {
			k = n
		}
		if k > 256 {
			k = 256
		}
		seg := out[n-k:]
		if m.B&2 != 0 {
			seg = out[:k]
		}
		for i := range seg {
			if m.B&1 != 0 {
				seg[i] = byte(i)
			} else {
				seg[i] = byte(256 - k + i)
			}
		}
	case "splice":
		if m.A < 0 {
			return nil, false
		}
		o := valid(e, uint64(m.B%e.Seeds)+1000)
		if n == 0 || len(o) == 0 {
			return nil, false
		}
		cut := m.A % n
		if cut > len(o) {
			cut = len(o)
		}
		out = append(append([]byte{}, v[:m.A%n]...), o[cut:]...)
		if e.FixedLen > 0 && len(out) != e.FixedLen {
			return nil, false
		}
	case "aware":
		if len(e.Aware) == 0 || m.A < 0 {
			return nil, false
		}
		out = e.Aware[m.A%len(e.Aware)](out, m.B)
		if out == nil {
			return nil, false
		}
	default:
		return nil, false
	}
	return out, true
}

var lenFieldVals = []int{0, 1, 0xff, 0x100, 0x7fff, 0x8000, 0xffff, 0x7fffffff, 0x80000000, 0xffffffff}

// enumerate expands an enumeration into explicit faults.
func enumerate(e *Entry, v []byte, p *Plan) []Mut {
	var all []Mut
	n := len(v)
	switch p.Enum {
	case "flips":
		for i := 0; i < n*8; i++ {
			all = append(all, Mut{K: "flip", A: i})
		}
	case "truncs":
		if e.FixedLen == 0 {
			for i := 0; i < n; i++ {
				all = append(all, Mut{K: "trunc", A: i})
			}
			all = append(all, Mut{K: "nil"}, Mut{K: "empty"})
		}
	case "lenfields":
		for i := 0; i+1 < n; i++ {
			for _, val := range lenFieldVals {
				if val <= 0xffff {
					all = append(all, Mut{K: "set16", A: i, B: val}, Mut{K: "setbyte", A: i, B: val & 0xff})
				}
				if i+3 < n {
					all = append(all, Mut{K: "set32", A: i, B: val})
				}
			}
			all = append(all, Mut{K: "set16", A: i, B: n - i}, Mut{K: "set16", A: i, B: n - i - 1}, Mut{K: "set16", A: i, B: n - i - 3})
		}
	case "wraps":
		// a family of its own: the length-field family is sampled when it exceeds the budget
		if e.FixedLen == 0 && !e.Text {
			for i := 0; i+1 < n && i < 24; i++ {
				for _, b := range []int{0, 7, 16, 16 + 7, 32, 32 + 7, 8, 8 + 7, 8 + 16, 8 + 16 + 7} {
					all = append(all, Mut{K: "wrap16", A: i, B: b})
				}
			}
		}
	case "sizes":
		if e.FixedLen == 0 {
			for _, d := range []int{-17, -16, -15, -2, -1, 1, 2, 15, 16, 17} {
				if n+d >= 0 {
					all = append(all, Mut{K: "rand", A: n + d, B: d})
				}
				if d > 0 {
					all = append(all, Mut{K: "extend", A: d - 1, B: 0}, Mut{K: "extend", A: d - 1, B: 0xff})
				}
			}
			for l := 0; l <= 4; l++ {
				all = append(all, Mut{K: "rand", A: l, B: l})
			}
			all = append(all, Mut{K: "onebyte", B: 0}, Mut{K: "onebyte", B: 0xff}, Mut{K: "onebyte", B: 1})
		}
		all = append(all, Mut{K: "zeros"}, Mut{K: "ones"}, Mut{K: "rand", A: n, B: 1}, Mut{K: "rand", A: n, B: 2})
		for _, k := range []int{2, 4, 8, 16, 32, 64, 96, 128, 200, 256} {
			for b := 0; b < 4; b++ {
				all = append(all, Mut{K: "ramp", A: k, B: b})
			}
		}
	case "aware":
		awareN := e.AwareN
		if awareN == 0 {
			awareN = 32
		}
		for i := range e.Aware {
			for b := 0; b < awareN; b++ {
				all = append(all, Mut{K: "aware", A: i, B: b})
			}
		}
	case "":
	default:
		return nil
	}
	from, to := p.From, p.To
	if to == 0 || to > len(all) {
		to = len(all)
	}
	if from < 0 || from > to {
		return nil
	}
	return all[from:to]
}

// Mode selects the oracle.
type Mode int

const (
	NoPanic   Mode = iota // C10
	Canonical             // C09
)

// Exec runs a plan under the given oracle. prop is the property id.
func Exec(mode Mode, planJSON []byte, run *core.Run) {
	var p Plan
	if json.Unmarshal(planJSON, &p) != nil {
		run.Bad("json")
		return
	}
	e := registry[p.Entry]
	if e == nil {
		run.Bad("unknown entry")
		return
	}
	if mode == Canonical && !e.Canon && !e.Membership {
		run.Bad("entry has no canonical oracle")
		return
	}
	if p.Seed >= uint64(e.Seeds) {
		run.Bad("seed outside the entry's valid encodings")
		return
	}
	v := valid(e, p.Seed)
	run.T(e.Name)
	muts := append([]Mut{}, p.Muts...)
	if p.Enum != "" {
		em := enumerate(e, v, &p)
		if em == nil && p.Enum != "" {
			// an enumeration that does not apply to this entry is an empty one
		}
		muts = append(muts, em...)
		run.T("enum", p.Enum)
	}
	if len(muts) > 200000 {
		run.Bad("too many faults in one plan")
		return
	}
	kinds := map[string]bool{}
	nacc := 0
	// the untouched encoding first: must be accepted (and canonical)
	judge := func(m Mut, in []byte) bool {
		var res Result
		pan, val, st := core.Try(func() { res = e.Call(in) })
		run.Tick(1)
		if pan {
			run.Event("decode", e.Name, m.K, in, "panic")
			run.ViolateP(&Plan{Entry: p.Entry, Seed: p.Seed, Muts: []Mut{m}}, e.Name, core.PanicClass(val), "fault %v on a valid encoding (%d bytes -> %d bytes, input %s): %s at %s", m, len(v), len(in), trunc(in), val, st)
			return false
		}
		run.Event("decode", e.Name, m.K, in, res.Accepted)
		if m.K == "none" {
			if !res.Accepted {
				run.ViolateP(&Plan{Entry: p.Entry, Seed: p.Seed, Muts: []Mut{m}}, e.Name, "rejects-own-encoding", "an encoding produced by the library (%s) is refused", trunc(in))
				return false
			}
		}
		if res.Accepted {
			run.Probe("accepted-after-fault:" + boolStr(m.K != "none"))
			if m.K != "none" {
				nacc++
			}
		}
		if mode == Canonical && res.Accepted && len(in) == len(v) {
			cmp := in
			if e.Prefix && len(res.Reenc) <= len(in) {
				cmp = in[:len(res.Reenc)]
			}
			if e.Canon && !bytesEq(res.Reenc, cmp) {
				run.ViolateP(&Plan{Entry: p.Entry, Seed: p.Seed, Muts: []Mut{m}}, e.Name, "accepts-noncanonical-encoding", "fault %v: input %s accepted but re-serialises to %s", m, trunc(in), trunc(res.Reenc))
				return false
			}
			if e.Membership && !res.Member {
				run.ViolateP(&Plan{Entry: p.Entry, Seed: p.Seed, Muts: []Mut{m}}, e.Name, "accepts-non-member", "fault %v: input %s accepted but fails the membership test", m, trunc(in))
				return false
			}
		}
		return true
	}
	if !judge(Mut{K: "none"}, append([]byte{}, v...)) { // never hand the cached encoding itself to the library
		return
	}
	// receiver-object reuse: faulted input, then the valid encoding, into the same object
	var reuse func([]byte) Result
	var fresh Result
	if e.Reuse != nil {
		pan, val, st := core.Try(func() { reuse = e.Reuse(); fresh = reuse(append([]byte{}, v...)) })
		if pan {
			run.Violate(e.Name, core.PanicClass(val), "valid encoding into a fresh long-lived receiver: %s at %s", val, st)
			return
		}
		run.Fault("history:receiver-object-reused")
	}
	judgeReuse := func(m Mut, in []byte) {
		var r1, r2 Result
		step := "the faulted input"
		pan, val, st := core.Try(func() {
			r1 = reuse(append([]byte{}, in...))
			step = "the valid encoding that followed it"
			r2 = reuse(append([]byte{}, v...))
		})
		run.Tick(1)
		one := &Plan{Entry: p.Entry, Seed: p.Seed, Muts: []Mut{m}}
		if pan {
			run.ViolateP(one, e.Name, core.PanicClass(val)+"(receiver-reused)", "fault %v (input %s) into a receiver object that is used again: panic while decoding %s: %s at %s", m, trunc(in), step, val, st)
			reuse = nil // the object is in an unknown state; stop using it in this run
			return
		}
		run.Event("decode-reused", e.Name, m.K, r1.Accepted, r2.Accepted)
		if r2.Accepted != fresh.Accepted || !bytesEq(r2.Reenc, fresh.Reenc) || r2.Member != fresh.Member {
			run.ViolateP(one, e.Name, "stale-state-after-earlier-decode", "fault %v: after the receiver object was handed %s (accepted=%v), the valid encoding decodes differently from a fresh receiver (accepted %v vs %v, re-encoding %s vs %s)", m, trunc(in), r1.Accepted, r2.Accepted, fresh.Accepted, trunc(r2.Reenc), trunc(fresh.Reenc))
			reuse = nil
		}
	}
	defer func() {
		var ks []string
		for k := range kinds {
			ks = append(ks, k)
		}
		sort.Strings(ks)
		run.T(ks...)
		run.T("accepted", fmt.Sprint(nacc > 0), "seed", fmt.Sprint(p.Seed), "from", fmt.Sprint(p.From))
	}()
	for _, m := range muts {
		in, ok := Apply(e, v, m)
		if !ok {
			continue
		}
		kinds[m.K] = true
		if m.K != "none" {
			run.Fault("medium:" + m.K)
		}
		judge(m, in) // keep going: later faults may expose a different violation
		if reuse != nil && m.K != "none" {
			judgeReuse(m, in)
		}
	}
}

func boolStr(b bool) string {
	if b {
		return "yes"
	}
	return "no"
}

func bytesEq(a, b []byte) bool {
	if len(a) != len(b) {
		return false
	}
	for i := range a {
		if a[i] != b[i] {
			return false
		}
	}
	return true
}

func trunc(b []byte) string {
	if len(b) > 100 {
		return fmt.Sprintf("%x…(%d bytes)", b[:100], len(b))
	}
	return fmt.Sprintf("%x", b)
}

// Gen draws a sampled plan: one entry (cost-weighted), one seed, 8..48 random faults.
func Gen(r *core.PRNG, tier string, filter func(*Entry) bool) *Plan {
	var cand []*Entry
	var w []int
	for _, n := range names {
		e := registry[n]
		if filter != nil && !filter(e) {
			continue
		}
		cand = append(cand, e)
		wt := 100 / e.Cost
		if wt < 1 {
			wt = 1
		}
		w = append(w, 20+wt)
	}
	e := cand[r.Pick(w...)]
	p := &Plan{Entry: e.Name, Seed: uint64(r.Intn(e.Seeds))}
	n := r.Range(8, 48)
	if e.Cost >= 50 {
		n = r.Range(3, 10)
	}
	kinds := []string{"flip", "trunc", "extend", "setbyte", "zeros", "ones", "empty", "nil", "onebyte", "rand", "set16", "set32", "set16le", "splice", "aware", "ramp", "wrap16"}
	wts := []int{30, 14, 6, 8, 1, 1, 1, 1, 2, 6, 10, 6, 3, 5, 12, 3, 1}
	for i := 0; i < n; i++ {
		k := kinds[r.Pick(wts...)]
		m := Mut{K: k, A: r.Intn(1 << 20), B: r.Intn(1 << 16)}
		switch k {
		case "set16", "set16le":
			m.B = lenFieldVals[r.Intn(7)]
			if r.Chance(1, 3) {
				m.B = r.Intn(64)
			}
		case "set32":
			m.B = lenFieldVals[r.Intn(len(lenFieldVals))]
		case "setbyte", "onebyte", "extend":
			m.B = []int{0, 1, 0x7f, 0x80, 0xff, r.Intn(256)}[r.Intn(6)]
		case "rand":
			m.A = r.EdgeLen(300, 0, 1, 16, 32, 48, 96)
		case "ramp":
			m.A, m.B = 1+r.Intn(256), r.Intn(4)
		case "wrap16":
			m.A, m.B = r.Intn(32), r.Intn(48)
		}
		p.Muts = append(p.Muts, m)
	}
	return p
}

// Directed returns enumeration plans: for every entry, all truncations, all
// length-field rewrites, the size family and format-aware faults of seeds 0..k-1,
// and all single-bit flips (chunked) when affordable.
var directedCache = map[string][]any{}

func Directed(tier string, filter func(*Entry) bool, flipsOnly bool) []any {
	ck := fmt.Sprint(tier, filter != nil, flipsOnly)
	if c, ok := directedCache[ck]; ok {
		return c
	}
	out := directed(tier, filter, flipsOnly)
	directedCache[ck] = out
	return out
}

func directed(tier string, filter func(*Entry) bool, flipsOnly bool) []any {
	var out []any
	for _, n := range names {
		e := registry[n]
		if filter != nil && !filter(e) {
			continue
		}
		seeds := 1
		budget := 6000 // decode calls per family per entry (cost 1)
		if tier == "thorough" {
			seeds = 3
			budget = 120000
		}
		if seeds > e.Seeds {
			seeds = e.Seeds // an entry's decoder may only know the valid encodings 0..Seeds-1
		}
		budget /= e.Cost
		if budget < 40 {
			budget = 40
		}
		for s := 0; s < seeds; s++ {
			v := valid(e, uint64(s))
			fam := []string{"truncs", "sizes", "lenfields", "wraps", "aware", "flips"}
			if flipsOnly {
				fam = []string{"flips", "aware"}
			}
			for _, f := range fam {
				total := len(enumerate(e, v, &Plan{Enum: f}))
				if total == 0 {
					continue
				}
				lim := total
				if lim > budget {
					lim = budget
				}
				// chunk so that workers share the load; when over budget take evenly spaced windows
				chunk := 512
				if e.Cost >= 10 {
					chunk = 64
				}
				if total <= budget {
					for from := 0; from < total; from += chunk {
						to := from + chunk
						if to > total {
							to = total
						}
						out = append(out, &Plan{Entry: n, Seed: uint64(s), Enum: f, From: from, To: to})
					}
				} else {
					windows := lim / chunk
					if windows < 1 {
						windows = 1
					}
					stride := total / windows
					for wdw := 0; wdw < windows; wdw++ {
						from := wdw * stride
						to := from + chunk
						if to > total {
							to = total
						}
						out = append(out, &Plan{Entry: n, Seed: uint64(s), Enum: f, From: from, To: to})
					}
				}
			}
		}
	}
	return out
}

// Uncovered is filled by the registry files: syntactic candidates found by the
// go/ast scan of /repo that have no registry entry (kept visible, not hidden).
var uncovered []string

func Uncovered() []string       { return uncovered }
func NoteUncovered(s ...string) { uncovered = append(uncovered, s...) }
