//go:build verif

package count

// Adversarial-client seam for the simulator (see shim/prio3_internal_export.go). Mapped into
// vdaf/prio3/count by go build -overlay; never committed to /repo.
func (x *Count) VerifEncode(measurement bool) (Vec, error) { return x.p.VerifEncode(measurement) }

func (x *Count) VerifShardEncoded(enc Vec, nonce *Nonce, rand []byte) (PublicShare, []InputShare, error) {
	return x.p.VerifShardEncoded(enc, nonce, rand)
}
