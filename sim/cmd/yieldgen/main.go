// yieldgen instruments a copy of the circl sources for circlsim's scheduler:
// in front of every statement of every function body it splices a call to
// verifsimrt.P (or PW for statements that write through a selector, index or
// pointer), brackets Lock/Unlock/Once.Do with Enter/Exit, and writes a
// `go build -overlay` file mapping each original path to its instrumented copy.
// Splicing is done on byte offsets (no reformatting), so line numbers and
// compiler directives are untouched. Nothing is written under the repository.
//
// usage: yieldgen <repo> <outdir> <overlay.json> <rt-source>
package main

import (
	"encoding/json"
	"fmt"
	"go/ast"
	"go/parser"
	"go/token"
	"os"
	"path/filepath"
	"sort"
	"strings"
)

type splice struct {
	off  int
	text string
	ord  int
}

// coarse lists arithmetic packages whose functions compute on the memory their
// caller hands them and hold no state of their own. In these only the first
// statement of every function and every statement that writes through a
// selector, index or pointer stay pre-emption points; yielding between the
// other statements of a field multiplication reaches no new interleaving of
// shared state and costs two orders of magnitude in simulated steps
// (a CP-ABE encryption is 5*10^8 statements, almost all of them here).
var coarse = []string{
	"ecc/bls12381/ff/", "ecc/bls12381/", "ecc/goldilocks/", "ecc/fourq/", "ecc/p384/",
	"math/fp25519/", "math/fp448/", "math/mlsbset/", "internal/sha3/", "simd/keccakf1600/",
	"pke/kyber/internal/", "sign/internal/dilithium/", "vdaf/prio3/arith/", "dh/sidh/internal/", "dh/csidh/",
}

func isCoarse(rel string) bool {
	for _, c := range coarse {
		if strings.HasPrefix(rel, c) {
			return true
		}
	}
	return false
}

type stats struct {
	Files, Sites, WriteSites, SyncSites, Brackets, CoarseFiles int
	SyncUsers                          []string
	Unmodelled                         []string
}

func main() {
	if len(os.Args) < 5 {
		fmt.Fprintln(os.Stderr, "usage: yieldgen <repo> <outdir> <overlay.json> <rt-source>")
		os.Exit(2)
	}
	repo, out, ovPath, rtSrc := os.Args[1], os.Args[2], os.Args[3], os.Args[4]
	st := &stats{}
	replace := map[string]string{}
	site := 0
	err := filepath.Walk(repo, func(path string, info os.FileInfo, err error) error {
		if err != nil {
			return err
		}
		rel, _ := filepath.Rel(repo, path)
		if info.IsDir() {
			base := info.Name()
			if base == ".git" || base == "testdata" || base == "templates" || base == "verifsimrt" || base == "verifshim" {
				return filepath.SkipDir
			}
			if rel != "." {
				if _, err := os.Stat(filepath.Join(path, "go.mod")); err == nil {
					return filepath.SkipDir // nested module (asm generators)
				}
			}
			if rel == "internal/test" {
				return filepath.SkipDir
			}
			return nil
		}
		if !strings.HasSuffix(path, ".go") || strings.HasSuffix(path, "_test.go") {
			return nil
		}
		src, err := os.ReadFile(path)
		if err != nil {
			return err
		}
		if strings.Contains(string(src[:min(len(src), 400)]), "go:build ignore") || strings.Contains(string(src[:min(len(src), 400)]), "+build ignore") {
			return nil
		}
		fset := token.NewFileSet()
		f, err := parser.ParseFile(fset, path, src, parser.ParseComments)
		if err != nil {
			return nil // leave unparsable files alone
		}
		if f.Name.Name == "main" {
			return nil
		}
		var sp []splice
		ord := 0
		add := func(off int, text string) { ord++; sp = append(sp, splice{off, text, ord}) }
		usesSync := false
		for _, im := range f.Imports {
			if im.Path.Value == `"sync"` || im.Path.Value == `"sync/atomic"` {
				usesSync = true
			}
		}
		crs := isCoarse(rel)
		if crs {
			st.CoarseFiles++
		}
		funcFirst := map[ast.Stmt]bool{}
		var instrList func(list []ast.Stmt)
		isCall := func(s ast.Stmt, names ...string) (bool, *ast.CallExpr) {
			es, ok := s.(*ast.ExprStmt)
			if !ok {
				return false, nil
			}
			c, ok := es.X.(*ast.CallExpr)
			if !ok {
				return false, nil
			}
			sel, ok := c.Fun.(*ast.SelectorExpr)
			if !ok {
				return false, nil
			}
			for _, n := range names {
				if sel.Sel.Name == n && len(c.Args) == boolToInt(n == "Do") {
					return true, c
				}
			}
			return false, nil
		}
		instrList = func(list []ast.Stmt) {
			for _, s := range list {
				switch s.(type) {
				case *ast.CaseClause, *ast.CommClause:
					// the entries of a switch / select body are not statements one can prefix
				default:
					syncCall := usesSync && hasSyncCall(s)
					if crs && !writesShared(s) && !funcFirst[s] && !syncCall {
						continue
					}
					site++
					st.Sites++
					call := fmt.Sprintf("verifsimrt.P(%d); ", site)
					if syncCall {
						call = fmt.Sprintf("verifsimrt.PS(%d); ", site)
						st.SyncSites++
					} else if writesShared(s) {
						call = fmt.Sprintf("verifsimrt.PW(%d); ", site)
						st.WriteSites++
					}
					off := fset.Position(s.Pos()).Offset
					if usesSync {
						if ok, _ := isCall(s, "Lock", "RLock"); ok {
							call += "verifsimrt.Enter(); "
							st.Brackets++
						}
						if ok, _ := isCall(s, "Do"); ok {
							call += "verifsimrt.Enter(); "
							add(fset.Position(s.End()).Offset, "; verifsimrt.Exit()")
							st.Brackets++
						}
						if ok, _ := isCall(s, "Unlock", "RUnlock"); ok {
							add(fset.Position(s.End()).Offset, "; verifsimrt.Exit()")
						}
						if d, ok := s.(*ast.DeferStmt); ok {
							if sel, ok := d.Call.Fun.(*ast.SelectorExpr); ok && (sel.Sel.Name == "Unlock" || sel.Sel.Name == "RUnlock") {
								call += "defer verifsimrt.Exit(); "
							}
						}
					}
					add(off, call)
				}
			}
		}
		visit := func(body *ast.BlockStmt) {
			ast.Inspect(body, func(x ast.Node) bool {
				switch b := x.(type) {
				case *ast.BlockStmt:
					instrList(b.List)
				case *ast.CaseClause:
					instrList(b.Body)
				case *ast.CommClause:
					instrList(b.Body)
				case *ast.GoStmt:
					st.Unmodelled = append(st.Unmodelled, fmt.Sprintf("%s:%d go statement (library-internal goroutine is not a simulator task)", rel, fset.Position(b.Pos()).Line))
				case *ast.SendStmt, *ast.SelectStmt:
					st.Unmodelled = append(st.Unmodelled, fmt.Sprintf("%s:%d channel operation", rel, fset.Position(x.Pos()).Line))
				}
				return true
			})
		}
		for _, d := range f.Decls {
			fd, ok := d.(*ast.FuncDecl)
			if !ok || fd.Body == nil {
				continue
			}
			if fd.Doc != nil && (hasDirective(fd.Doc, "//go:nosplit") || hasDirective(fd.Doc, "//go:norace")) {
				continue
			}
			if len(fd.Body.List) > 0 {
				funcFirst[fd.Body.List[0]] = true
			}
			visit(fd.Body)
		}
		if len(sp) == 0 {
			return nil
		}
		if usesSync {
			st.SyncUsers = append(st.SyncUsers, rel)
		}
		// import right after the package clause
		pkgEnd := fset.Position(f.Name.End()).Offset
		sp = append(sp, splice{pkgEnd, `; import verifsimrt "github.com/cloudflare/circl/verifsimrt"`, 0})
		sort.SliceStable(sp, func(i, j int) bool {
			if sp[i].off != sp[j].off {
				return sp[i].off < sp[j].off
			}
			return sp[i].ord < sp[j].ord
		})
		var sb strings.Builder
		last := 0
		for _, s := range sp {
			sb.Write(src[last:s.off])
			sb.WriteString(s.text)
			last = s.off
		}
		sb.Write(src[last:])
		dst := filepath.Join(out, rel)
		if err := os.MkdirAll(filepath.Dir(dst), 0o755); err != nil {
			return err
		}
		if err := os.WriteFile(dst, []byte(sb.String()), 0o644); err != nil {
			return err
		}
		replace[path] = dst
		st.Files++
		return nil
	})
	if err != nil {
		fmt.Fprintln(os.Stderr, "yieldgen:", err)
		os.Exit(2)
	}
	replace[filepath.Join(repo, "verifsimrt", "rt.go")] = rtSrc
	b, _ := json.MarshalIndent(map[string]any{"Replace": replace}, "", " ")
	if err := os.WriteFile(ovPath, b, 0o644); err != nil {
		fmt.Fprintln(os.Stderr, "yieldgen:", err)
		os.Exit(2)
	}
	sb, _ := json.Marshal(st)
	os.WriteFile(filepath.Join(out, "yieldgen-stats.json"), sb, 0o644)
	fmt.Printf("yieldgen: %d files (%d coarse), %d sites (%d shared-write, %d sync-call), %d critical-section brackets, %d unmodelled constructs\n", st.Files, st.CoarseFiles, st.Sites, st.WriteSites, st.SyncSites, st.Brackets, len(st.Unmodelled))
}

func boolToInt(b bool) int {
	if b {
		return 1
	}
	return 0
}

func hasDirective(cg *ast.CommentGroup, d string) bool {
	for _, c := range cg.List {
		if strings.HasPrefix(c.Text, d) {
			return true
		}
	}
	return false
}

// hasSyncCall: the statement itself (not the blocks nested in it) contains a method call
// whose name is one of the sync / sync/atomic operations.
func hasSyncCall(s ast.Stmt) bool {
	names := map[string]bool{"Load": true, "Store": true, "LoadOrStore": true, "LoadAndDelete": true, "CompareAndSwap": true,
		"Lock": true, "Unlock": true, "RLock": true, "RUnlock": true, "TryLock": true, "Do": true}
	pkgFuncs := map[string]bool{"LoadUint32": true, "StoreUint32": true, "LoadUint64": true, "StoreUint64": true, "LoadPointer": true, "StorePointer": true,
		"CompareAndSwapUint32": true, "CompareAndSwapUint64": true, "CompareAndSwapPointer": true, "AddUint32": true, "AddUint64": true, "LoadInt32": true, "StoreInt32": true, "AddInt32": true, "CompareAndSwapInt32": true}
	found := false
	var walk func(n ast.Node) bool
	walk = func(n ast.Node) bool {
		switch x := n.(type) {
		case *ast.BlockStmt, *ast.FuncLit:
			return false
		case *ast.CallExpr:
			if sel, ok := x.Fun.(*ast.SelectorExpr); ok {
				if id, ok := sel.X.(*ast.Ident); ok && id.Name == "atomic" && pkgFuncs[sel.Sel.Name] {
					found = true
				} else if names[sel.Sel.Name] {
					// receiver must look like a variable / field, not a package-qualified function of another package
					found = true
				}
			}
		}
		return true
	}
	switch x := s.(type) {
	case *ast.IfStmt:
		if x.Init != nil {
			ast.Inspect(x.Init, walk)
		}
		ast.Inspect(x.Cond, walk)
	case *ast.ForStmt, *ast.RangeStmt, *ast.SwitchStmt, *ast.TypeSwitchStmt, *ast.SelectStmt, *ast.BlockStmt, *ast.LabeledStmt:
		// their parts are statements of their own
	default:
		ast.Inspect(s, walk)
	}
	return found
}

func writesShared(s ast.Stmt) bool {
	shared := func(e ast.Expr) bool {
		switch x := e.(type) {
		case *ast.SelectorExpr, *ast.StarExpr:
			return true
		case *ast.IndexExpr:
			switch x.X.(type) {
			case *ast.SelectorExpr, *ast.StarExpr:
				return true
			}
		}
		return false
	}
	switch x := s.(type) {
	case *ast.AssignStmt:
		for _, l := range x.Lhs {
			if shared(l) {
				return true
			}
		}
	case *ast.IncDecStmt:
		return shared(x.X)
	}
	return false
}

func min(a, b int) int {
	if a < b {
		return a
	}
	return b
}
