// C07 — HPKE equals RFC 9180 for every suite, mode and input; a receiver with
// any differing parameter opens nothing; PSK-input rules are enforced.
// netsim: circl sender and receiver nodes and an RFC 9180 reference model
// (hpkeref) acting as the peer of each; faults are receiver misconfiguration,
// corrupted `enc` in flight, entropy-device failures during sender setup, and
// reuse of a Sender/Receiver object across setups.
package main

import (
	"math/big"
	"bytes"
	"encoding/json"
	"errors"
	"fmt"
	"time"

	"circlsim/core"
	"circlsim/refmodel/hpkeref"

	"github.com/cloudflare/circl/hpke"
	"github.com/cloudflare/circl/kem"
)

type Op struct {
	K   string `json:"k"` // seal | export
	Pt  string `json:"pt,omitempty"`
	Aad string `json:"aad,omitempty"`
	Ctx string `json:"ctx,omitempty"`
	Len int    `json:"len,omitempty"`
}

type Plan struct {
	KEM      int    `json:"kem"`
	KDF      int    `json:"kdf"`
	AEAD     int    `json:"aead"`
	Mode     int    `json:"mode"`
	IkmR     uint64 `json:"ikm_r"`
	IkmS     uint64 `json:"ikm_s"`
	Entropy  uint64 `json:"entropy"`
	Info     string `json:"info"`
	InfoNil  bool   `json:"info_nil"`
	PSK      string `json:"psk"`
	PSKID    string `json:"psk_id"`
	PSKCase  string `json:"psk_case"` // "" | psk-without-id | id-without-psk | psk-mode-without-psk | psk-in-base | empty-psk
	Mismatch string `json:"mismatch"` // "" | skR | info | psk | pskid | mode | pkS
	EncFault string `json:"enc_fault"`
	EncPos   int    `json:"enc_pos"`
	EntFault string `json:"ent_fault"` // "" | short | error
	EntArg   int    `json:"ent_arg"`
	Reuse    int    `json:"reuse"` // 0 none; 1 sender object reused after a setup in another mode; 2 receiver likewise
	Ops      []Op   `json:"ops"`
}

var kems = []int{0x10, 0x11, 0x12, 0x20, 0x21, 0x30, 0x647a}

func gen(r *core.PRNG, tier string) any {
	p := &Plan{KDF: r.Range(1, 3), AEAD: r.Range(1, 3), IkmR: r.Uint64(), IkmS: r.Uint64(), Entropy: r.Uint64()}
	p.KEM = kems[r.Pick(20, 8, 3, 30, 12, 6, 6)]
	p.Mode = r.Intn(4)
	if !hpkeref.IsDHKEM(uint16(p.KEM)) && r.Chance(7, 8) {
		p.Mode &= 1 // the hybrids have no auth mode (asking for it anyway is a misconfiguration fault)
	}
	switch r.Intn(4) {
	case 0:
		p.InfoNil = true
	case 1:
		p.Info = ""
	default:
		p.Info = r.Hex(r.EdgeLen(80, 1, 32, 64))
	}
	p.PSK = r.Hex(r.Range(1, 48))
	p.PSKID = r.Hex(r.Range(1, 24))
	switch r.Pick(55, 12, 18, 5, 5, 5) {
	case 1:
		p.PSKCase = []string{"psk-without-id", "id-without-psk", "psk-mode-without-psk", "psk-with-empty-id", "empty-psk"}[r.Intn(5)]
	case 2:
		p.Mismatch = []string{"skR", "info", "psk", "pskid", "mode", "pkS"}[r.Intn(6)]
	case 3:
		p.EncFault = []string{"flip", "trunc", "extend"}[r.Intn(3)]
		if (p.KEM == 0x20 || p.KEM == 0x21) && r.Chance(1, 3) {
			p.EncFault = "loworder"
		}
		p.EncPos = r.Intn(1 << 14)
		if p.KEM == 0x20 && p.EncFault == "flip" && r.Chance(1, 3) {
			p.EncPos = 255 // the bit RFC 7748 masks; HPKE still binds it through kem_context
		}
	case 4:
		p.EntFault = []string{"short", "error"}[r.Intn(2)]
		p.EntArg = r.Range(0, 70)
	case 5:
		p.Reuse = r.Range(1, 2)
	}
	n := r.Range(1, 6)
	for i := 0; i < n; i++ {
		if r.Chance(1, 6) {
			p.Ops = append(p.Ops, Op{K: "bad", Len: r.Intn(1 << 10)})
		} else if r.Chance(2, 3) {
			p.Ops = append(p.Ops, Op{K: "seal", Pt: r.Hex(r.EdgeLen(70, 0, 16, 32)), Aad: r.Hex(r.EdgeLen(30, 0))})
		} else {
			nh := hpkeref.Nh(uint16(p.KDF))
			p.Ops = append(p.Ops, Op{K: "export", Ctx: r.Hex(r.EdgeLen(40, 0)), Len: r.EdgeLen(255*nh, 0, 1, nh, 2*nh, 255*nh-1)})
		}
	}
	return p
}

// directed: every KEM x mode once with each KDF/AEAD rotating, honest configuration.
func directed(tier string) []any {
	var out []any
	i := 0
	for _, k := range kems {
		for mode := 0; mode < 4; mode++ {
			if mode >= 2 && !hpkeref.IsDHKEM(uint16(k)) {
				continue
			}
			for rep := 0; rep < 3; rep++ {
				i++
				out = append(out, &Plan{KEM: k, KDF: 1 + i%3, AEAD: 1 + (i/3)%3, Mode: mode, IkmR: uint64(i), IkmS: uint64(i + 1000), Entropy: uint64(i + 2000),
					Info: "4f6465", PSK: "0247fd33b913760fa1fa51e1892d9f307fbe65eb171e8132c2af18555a738b82", PSKID: "456e6e796e",
					Ops: []Op{{K: "seal", Pt: "4265617574", Aad: "436f756e742d30"}, {K: "seal", Pt: "", Aad: ""}, {K: "export", Ctx: "", Len: 32}, {K: "export", Ctx: "00", Len: 255 * hpkeref.Nh(uint16(1+i%3))}}})
			}
		}
	}
	return out
}

func seedBytes(seed uint64, n int) []byte { return core.NewPRNG(seed).Bytes(n) }

func exec(planJSON []byte, run *core.Run) {
	var p Plan
	if json.Unmarshal(planJSON, &p) != nil {
		run.Bad("json")
		return
	}
	K := hpke.KEM(p.KEM)
	if !K.IsValid() || p.KDF < 1 || p.KDF > 3 || p.AEAD < 1 || p.AEAD > 3 || p.Mode < 0 || p.Mode > 3 {
		run.Bad("suite")
		return
	}
	suite := hpke.NewSuite(K, hpke.KDF(p.KDF), hpke.AEAD(p.AEAD))
	msuite := hpkeref.Suite{KEM: uint16(p.KEM), KDF: uint16(p.KDF), AEAD: uint16(p.AEAD)}
	scheme := K.Scheme()
	isDH := hpkeref.IsDHKEM(uint16(p.KEM))
	if !isDH && p.Mode >= 2 {
		// auth modes do not exist for the hybrid KEMs: a misconfigured application gets an
		// error from both setup functions, with every KEM (not a crash of the process)
		run.Fault("misconfig:auth-mode-on-a-kem-without-auth")
		_, skS := scheme.DeriveKeyPair(core.NewPRNG(p.IkmS).Bytes(scheme.SeedSize()))
		pkR, skR := scheme.DeriveKeyPair(core.NewPRNG(p.IkmR).Bytes(scheme.SeedSize()))
		snd, _ := suite.NewSender(pkR, []byte("info"))
		var err error
		if pan, v, st := core.Try(func() { _, _, err = snd.SetupAuth(core.NewStream(p.Entropy), skS) }); pan {
			run.Violate("hpke.Sender.SetupAuth", core.PanicClass(v), "kem %#x has no auth mode: %s at %s", p.KEM, v, st)
			return
		} else if err == nil {
			run.Violate("hpke.Sender.SetupAuth", "context-for-a-mode-the-kem-does-not-have", "kem %#x", p.KEM)
			return
		}
		ct, _, _ := scheme.EncapsulateDeterministically(pkR, core.NewPRNG(p.Entropy).Bytes(scheme.EncapsulationSeedSize()))
		rcv, _ := suite.NewReceiver(skR, []byte("info"))
		if pan, v, st := core.Try(func() { _, err = rcv.SetupAuth(ct, skS.Public()) }); pan {
			run.Violate("hpke.Receiver.SetupAuth", core.PanicClass(v), "kem %#x has no auth mode: %s at %s", p.KEM, v, st)
		} else if err == nil {
			run.Violate("hpke.Receiver.SetupAuth", "context-for-a-mode-the-kem-does-not-have", "kem %#x", p.KEM)
		}
		return
	}
	auth := p.Mode == hpkeref.ModeAuth || p.Mode == hpkeref.ModeAuthPSK
	pskMode := p.Mode == hpkeref.ModePSK || p.Mode == hpkeref.ModeAuthPSK
	run.T(fmt.Sprintf("kem%x", p.KEM), fmt.Sprintf("mode%d", p.Mode))

	// --- keys: circl derives, model derives, they must agree (DHKEM) ---
	ikmR := seedBytes(p.IkmR, scheme.SeedSize())
	ikmS := seedBytes(p.IkmS, scheme.SeedSize())
	pkR, skR := scheme.DeriveKeyPair(ikmR)
	pkS, skS := scheme.DeriveKeyPair(ikmS)
	pkRb, _ := pkR.MarshalBinary()
	skRb, _ := skR.MarshalBinary()
	pkSb, _ := pkS.MarshalBinary()
	_ = pkSb
	skSb, _ := skS.MarshalBinary()
	run.Event("receiver", "derive-key", pkRb)
	if isDH {
		msk, mpk, err := hpkeref.DeriveKeyPair(uint16(p.KEM), ikmR)
		if err != nil {
			panic("HARNESS: model DeriveKeyPair: " + err.Error())
		}
		if !bytes.Equal(mpk, pkRb) || !bytes.Equal(msk, skRb) {
			run.Violate("hpke.KEM.DeriveKeyPair", "differs-from-rfc9180", "kem %#x ikm %x: pk %x sk %x, RFC 9180 DeriveKeyPair gives pk %x sk %x", p.KEM, ikmR, pkRb, skRb, mpk, msk)
			return
		}
	}

	// the keys reach the parties in marshalled form, in buffers their owners reuse as soon as
	// the key is loaded (sender: pkR; receiver: skR and, in auth modes, pkS; auth sender: skS)
	if p.IkmR%4 != 0 {
		load := func(b []byte, priv bool) (any, error) {
			buf := append([]byte{}, b...)
			defer core.Recycle(buf)
			if priv {
				return scheme.UnmarshalBinaryPrivateKey(buf)
			}
			return scheme.UnmarshalBinaryPublicKey(buf)
		}
		k1, e1 := load(pkRb, false)
		k2, e2 := load(skRb, true)
		k3, e3 := load(pkSb, false)
		k4, e4 := load(skSb, true)
		if e1 != nil || e2 != nil || e3 != nil || e4 != nil {
			run.Violate("hpke.KEM.UnmarshalBinary*Key", "rejects-own-encoding", "%v %v %v %v", e1, e2, e3, e4)
			return
		}
		pkR, skR, pkS, skS = k1.(kem.PublicKey), k2.(kem.PrivateKey), k3.(kem.PublicKey), k4.(kem.PrivateKey)
		run.Fault("transport:key-buffers-reused-after-load")
	}

	info := core.H(p.Info)
	if p.InfoNil {
		info = nil
	}
	var psk, pskID []byte
	if pskMode {
		psk, pskID = core.H(p.PSK), core.H(p.PSKID)
	}
	mode := byte(p.Mode)

	// --- PSK rule cases: both sides must refuse ---
	if p.PSKCase != "" {
		run.Fault("misconfig:" + p.PSKCase)
		run.T("pskcase", p.PSKCase)
		m := mode
		var a, b []byte
		switch p.PSKCase {
		case "psk-without-id":
			m |= 1
			a, b = core.H(p.PSK), nil
		case "id-without-psk":
			m |= 1
			a, b = nil, core.H(p.PSKID)
		case "psk-mode-without-psk":
			m |= 1
			a, b = nil, nil
		case "empty-psk":
			m |= 1
			a, b = []byte{}, []byte{}
		case "psk-with-empty-id":
			// (a PSK in base/auth mode is only reachable through object reuse, see Reuse)
			m |= 1
			a, b = core.H(p.PSK), []byte{}
		default:
			run.Bad("pskcase")
			return
		}
		if m&2 != 0 && !isDH {
			return
		}
		if hpkeref.VerifyPSKInputs(m, a, b) == nil {
			panic("HARNESS: PSK case is valid per model")
		}
		snd, _ := suite.NewSender(pkR, info)
		var err error
		var enc []byte
		ent := core.NewStream(p.Entropy)
		if m == hpkeref.ModePSK {
			enc, _, err = snd.SetupPSK(ent, a, b)
		} else {
			enc, _, err = snd.SetupAuthPSK(ent, skS, a, b)
		}
		run.Event("sender", "setup-psk-case", p.PSKCase, err)
		if err == nil {
			run.Violate("hpke.Sender.SetupPSK", "psk-rule-not-enforced:"+p.PSKCase, "mode %d with psk=%x psk_id=%x set up a context (RFC 9180 5.1 VerifyPSKInputs must fail)", m, a, b)
			return
		}
		// receiver side needs a well-formed enc
		enc2, _, e2 := scheme.EncapsulateDeterministically(pkR, seedBytes(p.Entropy, scheme.EncapsulationSeedSize()))
		if e2 != nil {
			return
		}
		_ = enc
		rcv, _ := suite.NewReceiver(skR, info)
		if m == hpkeref.ModePSK {
			_, err = rcv.SetupPSK(enc2, a, b)
		} else {
			_, err = rcv.SetupAuthPSK(enc2, a, b, pkS)
		}
		run.Event("receiver", "setup-psk-case", p.PSKCase, err)
		if err == nil {
			run.Violate("hpke.Receiver.SetupPSK", "psk-rule-not-enforced:"+p.PSKCase, "mode %d with psk=%x psk_id=%x set up a context", m, a, b)
		}
		return
	}

	// --- sender setup through the entropy device ---
	ent := core.NewStream(p.Entropy)
	ikmE := seedBytes(p.Entropy, scheme.EncapsulationSeedSize()) // what the device will serve
	switch p.EntFault {
	case "short":
		ent.MaxChunk = 1 + p.EntArg%7
	case "error":
		ent.FailAfter = p.EntArg % scheme.EncapsulationSeedSize()
		ent.Err = errors.New("entropy device failure")
	case "":
	default:
		run.Bad("entfault")
		return
	}
	snd, err := suite.NewSender(pkR, info)
	if err != nil {
		run.Violate("hpke.Suite.NewSender", "error", "%v", err)
		return
	}
	if p.Reuse == 1 {
		// the same Sender object was used before for a setup in another mode
		run.Fault("history:sender-object-reused")
		if pskMode {
			snd.Setup(core.NewStream(p.Entropy + 1))
		} else {
			// a PSK session that succeeded (the plan's own PSK fields are empty in this mode)
			snd.SetupPSK(core.NewStream(p.Entropy+1), core.NewPRNG(p.Entropy+2).Bytes(32), []byte("the earlier session"))
		}
	}
	setupS := func(s *hpke.Sender) (enc []byte, sealer hpke.Sealer, err error) {
		// the pre-shared key and its id are handed over in buffers that are wiped once the
		// context exists (nil stays nil: absence is meaningful here)
		cp := func(b []byte) []byte {
			if b == nil {
				return nil
			}
			return append([]byte{}, b...)
		}
		pskBuf, idBuf := cp(psk), cp(pskID)
		defer func() {
			core.Recycle(pskBuf)
			core.Recycle(idBuf)
		}()
		switch mode {
		case hpkeref.ModeBase:
			return s.Setup(ent)
		case hpkeref.ModePSK:
			return s.SetupPSK(ent, pskBuf, idBuf)
		case hpkeref.ModeAuth:
			return s.SetupAuth(ent, skS)
		default:
			return s.SetupAuthPSK(ent, skS, pskBuf, idBuf)
		}
	}
	enc, sealer, err := setupS(snd)
	run.Event("sender", "setup", mode, enc, err)

	if p.EntFault == "error" {
		run.Fault("entropy:error-after-" + fmt.Sprint(ent.FailAfter >= 0))
		run.T("entropy-error")
		if err == nil {
			run.Violate("hpke.Sender.Setup", "context-from-partial-entropy", "entropy device failed after %d bytes but a context was produced (enc %x)", ent.FailAfter, enc)
		}
		return
	}
	if p.EntFault == "short" && ent.ShortHits > 0 {
		run.Fault("entropy:short-reads")
	}
	if p.Reuse == 1 && err != nil {
		// a Sender is not bound to the mode of its first setup: what the earlier session
		// left in the object must not make this one fail
		run.Violate("hpke.Sender.Setup", "error-after-earlier-session-in-another-mode", "mode %d kem %#x on a Sender object that was used for a setup in another mode before: %v", mode, p.KEM, err)
		return
	}
	if err != nil {
		run.Violate("hpke.Sender.Setup", "error-on-valid-configuration", "mode %d kem %#x: %v", mode, p.KEM, err)
		return
	}

	// --- model sender ---
	var menc, mss []byte
	if isDH {
		if auth {
			menc, mss, err = hpkeref.AuthEncap(uint16(p.KEM), pkRb, skSb, ikmE)
		} else {
			menc, mss, err = hpkeref.Encap(uint16(p.KEM), pkRb, ikmE)
		}
		if err != nil {
			panic("HARNESS: model encap: " + err.Error())
		}
	} else {
		// hybrids: the inner KEM is circl's own (C01 covers it); only the HPKE layer is modelled
		menc, mss, err = scheme.EncapsulateDeterministically(pkR, ikmE)
		if err != nil {
			panic("HARNESS: inner KEM: " + err.Error())
		}
	}
	if !bytes.Equal(enc, menc) {
		run.Violate("hpke.Sender.Setup", "enc-differs-from-rfc9180", "kem %#x mode %d: enc %x, model %x", p.KEM, mode, enc, menc)
		return
	}
	mctx, err := hpkeref.KeySchedule(msuite, mode, mss, info, psk, pskID)
	if err != nil {
		panic("HARNESS: model key schedule: " + err.Error())
	}
	raw, err := sealer.MarshalBinary()
	if err != nil {
		run.Violate("hpke.Sealer.MarshalBinary", "error", "%v", err)
		return
	}
	mm, err := hpkeref.ParseMarshalled(raw)
	if err != nil {
		run.Violate("hpke.Sealer.MarshalBinary", "format", "%v", err)
		return
	}
	if p.Reuse == 1 && !bytes.Equal(mm.Key, mctx.Key) {
		run.Violate("hpke.Sender(reused)", "stale-psk-from-previous-setup", "a Sender used before for a PSK-mode setup silently mixes the old PSK into a mode-%d context: key %x, RFC 9180 %x", mode, mm.Key, mctx.Key)
		return
	}
	if !bytes.Equal(mm.Key, mctx.Key) || !bytes.Equal(mm.Nonce, mctx.BaseNonce) || !bytes.Equal(mm.Exporter, mctx.ExporterSecret) {
		run.Violate("hpke.keySchedule", "key-schedule-differs-from-rfc9180", "suite %v mode %d: key %x nonce %x exp %x; RFC 9180: key %x nonce %x exp %x", msuite, mode, mm.Key, mm.Nonce, mm.Exporter, mctx.Key, mctx.BaseNonce, mctx.ExporterSecret)
		return
	}

	// --- receiver (possibly misconfigured, possibly receiving a corrupted enc) ---
	rInfo, rPSK, rPSKID, rMode, rSk, rPkS := info, psk, pskID, mode, skR, pkS
	switch p.Mismatch {
	case "":
	case "skR":
		_, rSk = scheme.DeriveKeyPair(seedBytes(p.IkmR+7, scheme.SeedSize()))
	case "info":
		rInfo = append(append([]byte{}, info...), 0x01)
	case "psk":
		if !pskMode {
			p.Mismatch = ""
		} else {
			rPSK = append([]byte{}, psk...)
			rPSK[len(rPSK)-1] ^= 1
		}
	case "pskid":
		if !pskMode {
			p.Mismatch = ""
		} else {
			rPSKID = append([]byte{}, pskID...)
			rPSKID[0] ^= 0x80
		}
	case "mode":
		rMode = mode ^ 1
		if rMode&1 == 1 {
			rPSK, rPSKID = core.H(p.PSK), core.H(p.PSKID)
		} else {
			rPSK, rPSKID = nil, nil
		}
	case "pkS":
		if !auth {
			p.Mismatch = ""
		} else {
			rPkS, _ = scheme.DeriveKeyPair(seedBytes(p.IkmS+7, scheme.SeedSize()))
		}
	default:
		run.Bad("mismatch")
		return
	}
	wire := append([]byte{}, enc...)
	encFault := p.EncFault
	switch p.EncFault {
	case "flip":
		b := p.EncPos % (len(wire) * 8)
		wire[b/8] ^= 1 << (b % 8)
		if p.KEM == 0x20 && b == 255 {
			// the top bit of an X25519 u-coordinate is masked by RFC 7748, but HPKE binds the
			// encoded enc into kem_context, so the secret still changes: no exemption
			run.Probe("x25519-masked-bit-flipped")
		}
	case "trunc":
		wire = wire[:p.EncPos%len(wire)]
	case "extend":
		wire = append(wire, byte(p.EncPos))
	case "loworder":
		// an attacker sends a point of small order, in canonical or non-canonical spelling:
		// u in {0, 1, p-1, p, p+1} (RFC 9180 7.1.4: the all-zero DH output must be refused)
		lo := lowOrderU(p.KEM, p.EncPos)
		if lo == nil {
			run.Bad("loworder needs an X25519 / X448 KEM")
			return
		}
		wire = lo
		// the same bytes as the recipient's public key at the sender
		if bad, uerr := scheme.UnmarshalBinaryPublicKey(append([]byte{}, lo...)); uerr == nil {
			if s2, serr := suite.NewSender(bad, info); serr == nil {
				var e2 error
				pan, pv, st := core.Try(func() { _, _, e2 = s2.Setup(core.NewStream(p.Entropy + 5)) })
				if pan {
					run.Violate("hpke.Sender.Setup", core.PanicClass(pv), "low-order recipient key: %s at %s", pv, st)
					return
				}
				if e2 == nil {
					run.Violate("hpke.Sender.Setup", "accepts-low-order-recipient-key", "kem %#x: a context was set up for the recipient key %x, whose DH output is all zero", p.KEM, lo)
					return
				}
			}
		}
	case "":
	default:
		run.Bad("encfault")
		return
	}
	rcv, _ := suite.NewReceiver(rSk, rInfo)
	if p.Reuse == 2 {
		run.Fault("history:receiver-object-reused")
		if rMode&1 == 1 {
			rcv.Setup(enc)
		} else {
			rcv.SetupPSK(enc, core.NewPRNG(p.Entropy+2).Bytes(32), []byte("the earlier session"))
		}
	}
	var opener hpke.Opener
	pan, pv, st := core.Try(func() {
		switch rMode {
		case hpkeref.ModeBase:
			opener, err = rcv.Setup(wire)
		case hpkeref.ModePSK:
			opener, err = rcv.SetupPSK(wire, rPSK, rPSKID)
		case hpkeref.ModeAuth:
			opener, err = rcv.SetupAuth(wire, rPkS)
		default:
			opener, err = rcv.SetupAuthPSK(wire, rPSK, rPSKID, rPkS)
		}
	})
	if pan {
		run.Violate("hpke.Receiver.Setup", core.PanicClass(pv), "receiver setup panicked on enc of %d bytes: %s at %s", len(wire), pv, st)
		return
	}
	run.Event("receiver", "setup", rMode, wire, err)
	faulted := p.Mismatch != "" || encFault != ""
	if p.Mismatch != "" {
		run.Fault("misconfig:" + p.Mismatch)
		run.T("mismatch", p.Mismatch)
	}
	if encFault != "" {
		run.Fault("transport:enc-" + encFault)
		run.T("enc", encFault)
	}
	if p.Reuse == 2 && err != nil && !faulted {
		run.Violate("hpke.Receiver.Setup", "error-after-earlier-session-in-another-mode", "mode %d kem %#x on a Receiver object that was used for a setup in another mode before: %v", mode, p.KEM, err)
		return
	}
	if !faulted && err != nil {
		run.Violate("hpke.Receiver.Setup", "error-on-matching-configuration", "mode %d kem %#x: %v", mode, p.KEM, err)
		return
	}
	if faulted && err != nil {
		run.T("setup-refused")
		return // setup failed: acceptable outcome for a mismatch
	}
	if encFault == "loworder" {
		run.Violate("hpke.Receiver.Setup", "accepts-low-order-enc", "kem %#x mode %d: a context was set up for the encapsulated key %x, whose DH output is all zero", p.KEM, rMode, wire)
		return
	}

	// --- traffic ---
	seq := make([]byte, 12)
	sealed := 0
	for _, op := range p.Ops {
		switch op.K {
		case "seal":
			pt, aad := core.H(op.Pt), core.H(op.Aad)
			ptK, aadK := append([]byte{}, pt...), append([]byte{}, aad...)
			ct, err := sealer.Seal(pt, aad)
			if !bytes.Equal(pt, ptK) || !bytes.Equal(aad, aadK) {
				run.Violate("hpke.Sealer.Seal", "operation-modifies-its-operand", "Seal changed its plaintext / aad buffer")
				return
			}
			run.Tick(1)
			run.Event("sender", "seal", ct, err)
			if err != nil {
				run.Violate("hpke.Sealer.Seal", "error", "%v", err)
				return
			}
			want := mctx.Seal(seq, pt, aad)
			if !bytes.Equal(ct, want) {
				run.Violate("hpke.Sealer.Seal", "ciphertext-differs-from-rfc9180", "record %d: %x, model %x", sealed, ct, want)
				return
			}
			got, err := opener.Open(want, aad) // the model sender's record delivered to the circl receiver
			run.Event("receiver", "open", got, err)
			if !faulted {
				if p.Reuse == 2 && err != nil {
					run.Violate("hpke.Receiver(reused)", "stale-psk-from-previous-setup", "a Receiver used before for a PSK-mode setup silently mixes the old PSK into a mode-%d context and cannot open: %v", mode, err)
					return
				}
				if err != nil || !bytes.Equal(got, pt) {
					run.Violate("hpke.Opener.Open", "matching-receiver-cannot-open", "record %d: err=%v got %x want %x", sealed, err, got, pt)
					return
				}
				seq, _ = hpkeref.IncSeq(seq)
				sealed++
			} else {
				if err == nil {
					run.Violate("hpke.Opener.Open", "mismatched-receiver-opens", "receiver with %s%s opened record %d", p.Mismatch, encFault, sealed)
					return
				}
				// the opener did not advance; the sealer did: later records can never open either
				seq, _ = hpkeref.IncSeq(seq)
				sealed++
			}
			run.T("seal")
		case "bad":
			// a corrupted record reaches the (matching or not) receiver: it must be refused
			// and must not disturb what follows
			ct := mctx.Seal(seq, []byte("corrupt me"), nil)
			b := op.Len % (len(ct) * 8)
			ct[b/8] ^= 1 << (b % 8)
			_, err := opener.Open(ct, nil)
			run.Fault("transport:record-corrupted")
			run.Event("receiver", "open-corrupted", err)
			run.T("bad")
			if err == nil {
				run.Violate("hpke.Opener.Open", "opens-corrupted-record", "a record with bit %d flipped opened", b)
				return
			}
		case "export":
			nh := hpkeref.Nh(uint16(p.KDF))
			if op.Len < 0 || op.Len > 255*nh {
				continue
			}
			ctx := core.H(op.Ctx)
			gs := sealer.Export(ctx, uint(op.Len))
			gr := opener.Export(ctx, uint(op.Len))
			want := mctx.Export(ctx, op.Len)
			run.Event("both", "export", gs, gr)
			run.T("export")
			if op.Len == 255*nh {
				run.Probe("export-at-255Nh")
			}
			if op.Len == 0 {
				run.Probe("export-length-0")
			}
			if !bytes.Equal(gs, want) {
				run.Violate("hpke.Context.Export", "export-differs-from-rfc9180", "L=%d ctx=%x: %x, model %x", op.Len, ctx, gs, want)
				return
			}
			if p.Reuse == 2 && !bytes.Equal(gr, want) {
				run.Violate("hpke.Receiver(reused)", "stale-psk-from-previous-setup", "a Receiver used before for a PSK-mode setup exports a different secret in mode %d", mode)
				return
			}
			if !faulted && !bytes.Equal(gr, want) {
				run.Violate("hpke.Context.Export", "receiver-export-differs", "L=%d: receiver %x sender %x", op.Len, gr, gs)
				return
			}
			if faulted && op.Len >= 16 && bytes.Equal(gr, want) {
				run.Violate("hpke.Context.Export", "mismatched-receiver-exports-same-secret", "receiver with %s%s exported the sender's secret", p.Mismatch, encFault)
				return
			}
		default:
			run.Bad("op")
			return
		}
	}
	if faulted && sealed == 0 {
		// make sure a mismatched receiver was challenged at least once
		ct := mctx.Seal(seq, []byte("probe"), nil)
		if _, err := opener.Open(ct, nil); err == nil {
			run.Violate("hpke.Opener.Open", "mismatched-receiver-opens", "receiver with %s%s opened a record", p.Mismatch, encFault)
		}
	}
	_ = kem.ErrSeedSize
}

// lowOrderU: little-endian u-coordinates of order 1 or 2 and their non-canonical spellings.
func lowOrderU(kemID int, which int) []byte {
	var p *big.Int
	n := 32
	switch kemID {
	case 0x20:
		p = new(big.Int).Sub(new(big.Int).Lsh(big.NewInt(1), 255), big.NewInt(19))
	case 0x21:
		p = new(big.Int).Sub(new(big.Int).Sub(new(big.Int).Lsh(big.NewInt(1), 448), new(big.Int).Lsh(big.NewInt(1), 224)), big.NewInt(1))
		n = 56
	default:
		return nil
	}
	var u *big.Int
	switch ((which % 5) + 5) % 5 {
	case 0:
		u = big.NewInt(0)
	case 1:
		u = big.NewInt(1)
	case 2:
		u = new(big.Int).Sub(p, big.NewInt(1))
	case 3:
		u = new(big.Int).Set(p)
	default:
		u = new(big.Int).Add(p, big.NewInt(1))
	}
	be := u.FillBytes(make([]byte, n))
	for i, j := 0, n-1; i < j; i, j = i+1, j-1 {
		be[i], be[j] = be[j], be[i]
	}
	return be
}

func main() {
	core.Main(&core.Property{
		ID:    "C07",
		Level: "exploration",
		Rule: "seeded plans: 7 KEMs x 3 KDFs x 3 AEADs x 4 modes x (ikmR, ikmS, ikmE through the entropy device) x info/psk/psk_id (nil, empty, long) x 1..6 seals/exports (lengths 0..255*Nh) x one fault " +
			"{receiver misconfigured in skR|info|psk|psk_id|mode|pkS, PSK-rule case, enc flipped/truncated/extended in flight, entropy short reads / error after k bytes, Sender/Receiver object reused after a setup in another mode}; " +
			"non-trivial = a fault fired; distinct = distinct abstract trace (kem, mode, fault kind, outcome, op kinds)",
		Assumptions: []string{
			"reference model hpkeref is pinned at start-up to the RFC 9180 base-mode vectors for DHKEM(P-256), DHKEM(P-521), DHKEM(X25519) x HKDF-SHA256/512 x 3 AEADs (accumulated form from the Go source tree) and to RFC 7748; PSK/auth paths of the model follow the RFC text but have no vector in this sandbox",
			"for KEM 0x30 (X25519Kyber768Draft00) and X-Wing the inner KEM secret is taken from circl's KEM (covered by C01); only the HPKE layer is modelled",
			"PSK presence is 'non-empty' as in RFC 9180 section 5.1 (default value is the empty string)",
		},
		Components: map[string]string{
			"hpke Sender/Receiver/Sealer/Opener, DHKEMs, key schedule (circl)": "real",
			"peer of each circl node": "model: hpkeref written from RFC 9180 over crypto/ecdh, x/crypto/hkdf, stdlib AEADs, big-integer X448",
			"enc in flight":           "stub: simulated transport with corruption",
			"rnd io.Reader":           "stub: deterministic entropy device with short-read and error faults",
		},
		ProbeNames: []string{"export-at-255Nh", "export-length-0", "x25519-masked-bit-flipped"},
		Selftest:   func() error { return hpkeref.Selftest(core.VerifDir() + "/fixtures/rfc9180.json") },
		Directed:   directed,
		Gen:        gen,
		Exec:       exec,
		Runs:       map[string]int{"quick": 40000, "thorough": 1200000},
		WallCap:    map[string]time.Duration{"quick": 100 * time.Second, "thorough": 14 * time.Minute},
	})
}
