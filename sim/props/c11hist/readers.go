package main

import (
	"bytes"
	"crypto"
	"crypto/rand"
	"fmt"
	"io"
	"math/big"

	"circlsim/core"
	"circlsim/fixtures"

	"github.com/cloudflare/circl/abe/cpabe/tkn20"
	"github.com/cloudflare/circl/blindsign/blindrsa"
	"github.com/cloudflare/circl/blindsign/blindrsa/partiallyblindrsa"
	"github.com/cloudflare/circl/dh/csidh"
	"github.com/cloudflare/circl/dh/sidh"
	"github.com/cloudflare/circl/ecc/bls12381/ff"
	"github.com/cloudflare/circl/group"
	"github.com/cloudflare/circl/hpke"
	"github.com/cloudflare/circl/kem/kyber/kyber768"
	"github.com/cloudflare/circl/kem/mlkem/mlkem768"
	"github.com/cloudflare/circl/kem/xwing"
	"github.com/cloudflare/circl/oprf"
	pkekyber "github.com/cloudflare/circl/pke/kyber/kyber768"
	"github.com/cloudflare/circl/secretsharing"
	"github.com/cloudflare/circl/sign/dilithium/mode3"
	"github.com/cloudflare/circl/sign/ed25519"
	"github.com/cloudflare/circl/sign/ed448"
	"github.com/cloudflare/circl/sign/eddilithium2"
	"github.com/cloudflare/circl/sign/mldsa/mldsa65"
	tssrsa "github.com/cloudflare/circl/tss/rsa"
	"github.com/cloudflare/circl/vdaf/prio3/arith/fp128"
	"github.com/cloudflare/circl/vdaf/prio3/arith/fp64"
	"github.com/cloudflare/circl/zk/dl"
	"github.com/cloudflare/circl/zk/dleq"
	"github.com/cloudflare/circl/zk/qndleq"
)

// readersFamily: every exported call that is handed a randomness source. "Results depend
// only on explicit arguments" means here: with the process-wide source replaced by a
// tripwire, the call does not touch it, and two calls with equal sources return equal values.
func readersFamily() *family {
	f := &family{name: "readers"}
	mb := func(x interface{ MarshalBinary() ([]byte, error) }) []byte {
		b, err := x.MarshalBinary()
		if err != nil {
			return []byte("marshal-error:" + err.Error())
		}
		return b
	}
	add := func(name string, call func(rnd io.Reader) []byte) {
		f.ops = append(f.ops, opDef{name, "", nil, func(r any, _ []any, imm uint64) any {
			run := r.(*core.Run)
			once := func() (out []byte, touched int, pan bool, pv string) {
				keep := rand.Reader
				trip := core.NewStream(imm ^ 0x7777)
				rand.Reader = trip
				defer func() { rand.Reader = keep }()
				p, v, _ := core.Try(func() { out = call(core.NewStream(imm)) })
				return out, trip.Served, p, v
			}
			o1, t1, p1, v1 := once()
			if p1 {
				run.Violate("hist[readers]."+name, core.PanicClass(v1), "with a working randomness source: %v", v1)
				return nil
			}
			run.Fault("entropy:explicit-reader-with-tripwire-on-global")
			if t1 > 0 {
				run.Violate("hist[readers]."+name, "reads-process-wide-entropy-instead-of-the-supplied-reader", "the call was handed a randomness source and read %d bytes from crypto/rand.Reader as well", t1)
				return nil
			}
			o2, _, _, _ := once()
			if !bytes.Equal(o1, o2) {
				run.Violate("hist[readers]."+name, "result-not-a-function-of-the-supplied-randomness", "two calls with equal randomness sources and equal arguments returned %x… and %x…", head(o1), head(o2))
			}
			return nil
		}})
	}
	groups := []group.Group{group.P256, group.P384, group.P521, group.Ristretto255}
	for _, g := range groups {
		g := g
		n := fmt.Sprint(g)
		add("group["+n+"].RandomElement", func(r io.Reader) []byte { return mb(g.RandomElement(r)) })
		add("group["+n+"].RandomScalar", func(r io.Reader) []byte { return mb(g.RandomScalar(r)) })
		add("group["+n+"].RandomNonZeroScalar", func(r io.Reader) []byte { return mb(g.RandomNonZeroScalar(r)) })
		add("secretsharing["+n+"].New+Share", func(r io.Reader) []byte {
			ss := secretsharing.New(r, 2, g.NewScalar().SetUint64(5))
			var out []byte
			for _, s := range ss.Share(4) {
				out = append(out, mb(s.Value)...)
			}
			return out
		})
		add("zk/dl["+n+"].Prove", func(r io.Reader) []byte {
			k := g.NewScalar().SetUint64(7)
			pr := dl.Prove(g, g.Generator(), g.NewElement().MulGen(k), k, []byte("u"), []byte("o"), r)
			return append(mb(pr.V), mb(pr.R)...)
		})
		add("zk/dleq["+n+"].Prove", func(r io.Reader) []byte {
			k := g.NewScalar().SetUint64(7)
			b := g.HashToElement([]byte("b"), nil)
			pr, err := dleq.Prover{Params: dleq.Params{G: g, H: crypto.SHA256, DST: []byte("d")}}.Prove(k, g.Generator(), g.NewElement().MulGen(k), b, g.NewElement().Mul(b, k), r)
			if err != nil {
				return []byte("err:" + err.Error())
			}
			return mb(pr)
		})
	}
	for _, su := range []oprf.Suite{oprf.SuiteRistretto255, oprf.SuiteP256, oprf.SuiteP384, oprf.SuiteP521} {
		su := su
		add("oprf["+su.Identifier()+"].GenerateKey", func(r io.Reader) []byte {
			k, err := oprf.GenerateKey(su, r)
			if err != nil {
				return []byte("err:" + err.Error())
			}
			return mb(k)
		})
	}
	add("ed25519.GenerateKey", func(r io.Reader) []byte { _, sk, _ := ed25519.GenerateKey(r); return sk })
	add("ed448.GenerateKey", func(r io.Reader) []byte { _, sk, _ := ed448.GenerateKey(r); return sk })
	add("mldsa65.GenerateKey", func(r io.Reader) []byte { _, sk, _ := mldsa65.GenerateKey(r); return sk.Bytes()[:64] })
	add("dilithium/mode3.GenerateKey", func(r io.Reader) []byte { _, sk, _ := mode3.GenerateKey(r); return sk.Bytes()[:64] })
	add("eddilithium2.GenerateKey", func(r io.Reader) []byte { _, sk, _ := eddilithium2.GenerateKey(r); return sk.Bytes()[:64] })
	add("mlkem768.GenerateKeyPair", func(r io.Reader) []byte {
		_, sk, _ := mlkem768.GenerateKeyPair(r)
		b := make([]byte, mlkem768.PrivateKeySize)
		sk.Pack(b)
		return b[len(b)-96:]
	})
	add("kyber768.GenerateKeyPair", func(r io.Reader) []byte {
		_, sk, _ := kyber768.GenerateKeyPair(r)
		b := make([]byte, kyber768.PrivateKeySize)
		sk.Pack(b)
		return b[len(b)-96:]
	})
	add("pke/kyber768.GenerateKey", func(r io.Reader) []byte {
		pk, _, _ := pkekyber.GenerateKey(r)
		b := make([]byte, pkekyber.PublicKeySize)
		pk.Pack(b)
		return b[len(b)-64:]
	})
	add("xwing.GenerateKeyPairPacked", func(r io.Reader) []byte { sk, _, _ := xwing.GenerateKeyPairPacked(r); return sk })
	add("csidh.GeneratePrivateKey", func(r io.Reader) []byte {
		var k csidh.PrivateKey
		if err := csidh.GeneratePrivateKey(&k, r); err != nil {
			return []byte("err")
		}
		b := make([]byte, csidh.PrivateKeySize)
		k.Export(b)
		return b
	})
	add("sidh[P434].PrivateKey.Generate", func(r io.Reader) []byte {
		k := sidh.NewPrivateKey(sidh.Fp434, sidh.KeyVariantSike)
		if err := k.Generate(r); err != nil {
			return []byte("err")
		}
		b := make([]byte, k.Size())
		k.Export(b)
		return b
	})
	add("ff.Scalar.Random+Fp.Random", func(r io.Reader) []byte {
		var s ff.Scalar
		var x ff.Fp
		if s.Random(r) != nil || x.Random(r) != nil {
			return []byte("err")
		}
		a, _ := s.MarshalBinary()
		b, _ := x.MarshalBinary()
		return append(a, b...)
	})
	add("prio3/fp64+fp128.Random", func(r io.Reader) []byte {
		var a fp64.Fp
		var b fp128.Fp
		v := make(fp64.Vec, 3)
		if a.Random(r) != nil || b.Random(r) != nil || v.Random(r) != nil {
			return []byte("err")
		}
		x, _ := a.MarshalBinary()
		y, _ := b.MarshalBinary()
		z, _ := v.MarshalBinary()
		return append(append(x, y...), z...)
	})
	for _, id := range []hpke.KEM{hpke.KEM_X25519_HKDF_SHA256, hpke.KEM_P256_HKDF_SHA256, hpke.KEM_X25519_KYBER768_DRAFT00, hpke.KEM_XWING} {
		id := id
		add(fmt.Sprintf("hpke[kem 0x%04x].Sender.Setup", uint16(id)), func(r io.Reader) []byte {
			pk, _ := id.Scheme().DeriveKeyPair(make([]byte, id.Scheme().SeedSize()))
			s, err := hpke.NewSuite(id, hpke.KDF_HKDF_SHA256, hpke.AEAD_AES128GCM).NewSender(pk, []byte("info"))
			if err != nil {
				return []byte("err")
			}
			enc, sealer, err := s.Setup(r)
			if err != nil {
				return []byte("err:" + err.Error())
			}
			ct, _ := sealer.Seal([]byte("pt"), nil)
			return append(enc, ct...)
		})
	}
	add("tss/rsa.Deal+Sign(blinded)", func(r io.Reader) []byte {
		key := fixtures.RSAKey("std-1024-a")
		sh, err := tssrsa.Deal(r, 3, 2, key, true)
		if err != nil {
			return []byte("err")
		}
		d := make([]byte, 128)
		d[127] = 3
		ss, err := sh[0].Sign(r, &key.PublicKey, d, false)
		if err != nil {
			return []byte("err")
		}
		return append(mb(&sh[1]), mb(&ss)...)
	})
	add("blindrsa.Prepare+Blind", func(r io.Reader) []byte {
		key := fixtures.RSAKey("std-1024-a")
		c, _ := blindrsa.NewClient(blindrsa.SHA384PSSRandomized, &key.PublicKey)
		pm, err := c.Prepare(r, []byte("m"))
		if err != nil {
			return []byte("err")
		}
		bm, _, err := c.Blind(r, pm)
		if err != nil {
			return []byte("err")
		}
		return append(pm, bm...)
	})
	add("partiallyblindrsa.Blind", func(r io.Reader) []byte {
		key := fixtures.RSAKey("safe-1024-a")
		bm, _, err := partiallyblindrsa.NewVerifier(&key.PublicKey, crypto.SHA384).Blind(r, []byte("m"), []byte("md"))
		if err != nil {
			return []byte("err")
		}
		return bm
	})
	add("qndleq.SampleQn+Prove", func(r io.Reader) []byte {
		N := fixtures.RSAKey("safe-1024-a").N
		g, err := qndleq.SampleQn(r, N)
		if err != nil {
			return []byte("err")
		}
		h, _ := qndleq.SampleQn(r, N)
		x := big.NewInt(12345)
		gx, hx := new(big.Int).Exp(g, x, N), new(big.Int).Exp(h, x, N)
		pr, err := qndleq.Prove(r, x, g, gx, h, hx, N, 128)
		if err != nil {
			return []byte("err")
		}
		return append(pr.Z.Bytes(), pr.C.Bytes()...)
	})
	var tk struct {
		pk  tkn20.PublicKey
		msk tkn20.SystemSecretKey
		ok  bool
	}
	add("tkn20.Encrypt+KeyGen", func(r io.Reader) []byte {
		if !tk.ok {
			tk.pk, tk.msk, _ = tkn20.Setup(core.NewStream(99))
			tk.ok = true
		}
		var pol tkn20.Policy
		pol.FromString("a: x")
		ct, err := tk.pk.Encrypt(r, pol, []byte("m"))
		if err != nil {
			return []byte("err")
		}
		var at tkn20.Attributes
		at.FromMap(map[string]string{"a": "x"})
		k, err := tk.msk.KeyGen(r, at)
		if err != nil {
			return []byte("err")
		}
		kb, _ := k.MarshalBinary()
		return append(ct[len(ct)-32:len(ct):len(ct)], kb[:32]...)
	})
	return f
}

func head(b []byte) []byte {
	if len(b) > 16 {
		return b[:16]
	}
	return b
}
