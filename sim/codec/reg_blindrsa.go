package codec

import (
	"crypto"
	"fmt"

	"circlsim/core"
	"circlsim/fixtures"

	"github.com/cloudflare/circl/blindsign/blindrsa"
	"github.com/cloudflare/circl/blindsign/blindrsa/partiallyblindrsa"
)

// Blind RSA: the three places where bytes from the other party are parsed —
// the signer receives a blinded message, the client a blind signature, the
// verifier a signature. Moduli of 8k and 8k+1 bits (the PSS encoded message is
// then one byte shorter than the modulus) are both used.
func init() {
	for _, kn := range []string{"std-1024-a", "std-1025-a", "std-2049-a"} {
		kn := kn
		for _, variant := range []blindrsa.Variant{blindrsa.SHA384PSSRandomized, blindrsa.SHA384PSSZeroDeterministic} {
			variant := variant
			tag := fmt.Sprintf("[%s,%v]", kn, variant)
			type sess struct {
				msg, blinded, blindSig, sig []byte
				st                          blindrsa.State
				client                      blindrsa.Client
			}
			cache := map[uint64]*sess{}
			get := func(seed uint64) *sess {
				if s, ok := cache[seed]; ok {
					return s
				}
				key := fixtures.RSAKey(kn)
				c, err := blindrsa.NewClient(variant, &key.PublicKey)
				if err != nil {
					panic("HARNESS: blindrsa.NewClient: " + err.Error())
				}
				s := &sess{client: c}
				rnd := core.NewStream(seed + 77)
				s.msg, err = c.Prepare(rnd, core.NewPRNG(seed).Bytes(int(seed%40)))
				if err != nil {
					panic("HARNESS: Prepare: " + err.Error())
				}
				s.blinded, s.st, err = c.Blind(rnd, s.msg)
				if err != nil {
					panic("HARNESS: Blind: " + err.Error())
				}
				s.blindSig, err = blindrsa.NewSigner(key).BlindSign(s.blinded)
				if err != nil {
					panic("HARNESS: BlindSign: " + err.Error())
				}
				s.sig, err = c.Finalize(s.st, s.blindSig)
				if err != nil {
					panic("HARNESS: Finalize: " + err.Error())
				}
				cache[seed] = s
				return s
			}
			cost := 10
			if kn == "std-2049-a" {
				cost = 40
			}
			Register(&Entry{Name: "blindrsa.Verifier.Verify" + tag, Seeds: 1, Cost: 2,
				Valid: func(seed uint64) []byte { return append([]byte{}, get(0).sig...) },
				Call: func(in []byte) Result {
					s := get(0)
					return Result{Accepted: s.client.Verify(s.msg, in) == nil}
				}})
			Register(&Entry{Name: "blindrsa.Client.Finalize" + tag, Seeds: 1, Cost: 2,
				Valid: func(seed uint64) []byte { return append([]byte{}, get(0).blindSig...) },
				Call: func(in []byte) Result {
					s := get(0)
					_, err := s.client.Finalize(s.st, in)
					return Result{Accepted: err == nil}
				}})
			Register(&Entry{Name: "blindrsa.Signer.BlindSign" + tag, Seeds: 1, Cost: cost,
				Valid: func(seed uint64) []byte { return append([]byte{}, get(0).blinded...) },
				Call: func(in []byte) Result {
					_, err := blindrsa.NewSigner(fixtures.RSAKey(kn)).BlindSign(in)
					return Result{Accepted: err == nil}
				}})
		}
	}

	// partially blind variant (safe-prime keys), with metadata
	type psess struct {
		msg, meta, blinded, blindSig, sig []byte
		st                                partiallyblindrsa.VerifierState
		v                                 partiallyblindrsa.Verifier
		signer                            partiallyblindrsa.Signer
	}
	pcache := map[uint64]*psess{}
	pget := func(seed uint64) *psess {
		if s, ok := pcache[seed]; ok {
			return s
		}
		key := fixtures.RSAKey("safe-1024-a")
		s := &psess{v: partiallyblindrsa.NewVerifier(&key.PublicKey, crypto.SHA384)}
		var err error
		s.signer, err = partiallyblindrsa.NewSigner(key, crypto.SHA384)
		if err != nil {
			panic("HARNESS: partiallyblindrsa.NewSigner: " + err.Error())
		}
		s.msg = core.NewPRNG(seed).Bytes(int(seed%40) + 1)
		s.meta = core.NewPRNG(seed + 5).Bytes(int(seed % 9))
		s.blinded, s.st, err = s.v.Blind(core.NewStream(seed+78), s.msg, s.meta)
		if err != nil {
			panic("HARNESS: partially blind Blind: " + err.Error())
		}
		s.blindSig, err = s.signer.BlindSign(s.blinded, s.meta)
		if err != nil {
			panic("HARNESS: partially blind BlindSign: " + err.Error())
		}
		s.sig, err = s.st.Finalize(s.blindSig)
		if err != nil {
			panic("HARNESS: partially blind Finalize: " + err.Error())
		}
		pcache[seed] = s
		return s
	}
	Register(&Entry{Name: "partiallyblindrsa.Verifier.Verify[safe-1024-a]", Seeds: 1, Cost: 20,
		Valid: func(seed uint64) []byte { return append([]byte{}, pget(0).sig...) },
		Call: func(in []byte) Result {
			s := pget(0)
			return Result{Accepted: s.v.Verify(s.msg, s.meta, in) == nil}
		}})
	Register(&Entry{Name: "partiallyblindrsa.VerifierState.Finalize[safe-1024-a]", Seeds: 1, Cost: 20,
		Valid: func(seed uint64) []byte { return append([]byte{}, pget(0).blindSig...) },
		Call: func(in []byte) Result {
			_, err := pget(0).st.Finalize(in)
			return Result{Accepted: err == nil}
		}})
	Register(&Entry{Name: "partiallyblindrsa.Signer.BlindSign[safe-1024-a]", Seeds: 1, Cost: 40,
		Valid: func(seed uint64) []byte { return append([]byte{}, pget(0).blinded...) },
		Call: func(in []byte) Result {
			s := pget(0)
			_, err := s.signer.BlindSign(in, s.meta)
			return Result{Accepted: err == nil}
		}})
	// metadata is attacker-chosen input of the public-key derivation
	Register(&Entry{Name: "partiallyblindrsa.Verifier.Verify(metadata)[safe-1024-a]", Seeds: 1, Cost: 20,
		Valid: func(seed uint64) []byte { return append([]byte{}, pget(0).meta...) },
		Call: func(in []byte) Result {
			s := pget(0)
			return Result{Accepted: s.v.Verify(s.msg, in, s.sig) == nil}
		}})
}
