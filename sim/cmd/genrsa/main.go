// genrsa writes the RSA fixture keys used by C17/C18 (development-time tool).
package main

import (
	"crypto/rand"
	"crypto/rsa"
	"crypto/x509"
	"encoding/pem"
	"fmt"
	"os"
	"strconv"

	tssrsa "github.com/cloudflare/circl/tss/rsa"
)

func write(name string, k *rsa.PrivateKey) {
	b := pem.EncodeToMemory(&pem.Block{Type: "RSA PRIVATE KEY", Bytes: x509.MarshalPKCS1PrivateKey(k)})
	if err := os.WriteFile(name, b, 0o644); err != nil {
		panic(err)
	}
	fmt.Println("wrote", name, k.N.BitLen())
}

func main() {
	dir := os.Args[1]
	kind := os.Args[2]
	bits, _ := strconv.Atoi(os.Args[3])
	idx := os.Args[4]
	var k *rsa.PrivateKey
	var err error
	if kind == "safe" {
		k, err = tssrsa.GenerateKey(rand.Reader, bits)
	} else {
		k, err = rsa.GenerateKey(rand.Reader, bits)
	}
	if err != nil {
		panic(err)
	}
	write(fmt.Sprintf("%s/%s-%d-%s.pem", dir, kind, bits, idx), k)
}
