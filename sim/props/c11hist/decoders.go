package main

import (
	"bytes"

	"circlsim/codec"
	"circlsim/core"
)

// decodersFamily: every decoding / verifying entry point of the codec registry (the one C09
// and C10 drive) is an operation with one operand, its input. The input is handed over as
// a slice with spare capacity inside a larger frame: the call may neither change the input
// nor write behind it, whether it accepts the input or refuses it.
func decodersFamily() *family {
	f := &family{name: "decoders"}
	kinds := []string{"none", "flip", "trunc", "extend", "zeros", "rand", "set16", "aware"}
	for _, n := range codec.Names() {
		e := codec.Get(n)
		if e.Cost > 120 {
			continue // the expensive ones are covered by the cheaper entries of the same packages
		}
		f.ops = append(f.ops, opDef{n, "", nil, func(r any, _ []any, imm uint64) any {
			run := r.(*core.Run)
			v := codec.Valid(e, imm)
			in := v
			m := codec.Mut{K: kinds[(imm>>8)%uint64(len(kinds))], A: int((imm >> 16) & 0xffff), B: int((imm >> 32) & 0xff)}
			if m.K != "none" {
				if x, ok := codec.Apply(e, append([]byte{}, v...), m); ok {
					in = x
				}
			}
			frame := make([]byte, len(in)+16)
			copy(frame, in)
			for i := len(in); i < len(frame); i++ {
				frame[i] = 0x5a
			}
			arg := frame[:len(in)] // cap(arg) > len(arg): the 16 bytes behind it are the caller's
			pan, pv, _ := core.Try(func() { e.Call(arg) })
			if pan {
				if m.K == "none" {
					run.Violate("hist[decoders]."+n, core.PanicClass(pv), "valid encoding in a slice with spare capacity: %s", pv)
				}
				return nil // panics on hostile input are C10's subject
			}
			run.Fault("aliasing:input-slice-with-live-spare-capacity")
			if !bytes.Equal(frame[:len(in)], in) {
				run.Violate("hist[decoders]."+n, "operation-modifies-its-operand", "fault %v: the call changed its %d-byte input", m, len(in))
				return nil
			}
			for i := len(in); i < len(frame); i++ {
				if frame[i] != 0x5a {
					run.Violate("hist[decoders]."+n, "modifies-caller-buffer-beyond-its-input", "fault %v: byte %d behind the %d-byte input slice changed from 5a to %02x", m, i-len(in), len(in), frame[i])
					return nil
				}
			}
			return nil
		}})
	}
	return f
}
