package core

import (
	"bufio"
	"bytes"
	"encoding/json"
	"fmt"
	"os"
	"os/exec"
	"path/filepath"
	"runtime"
	"sort"
	"strconv"
	"strings"
	"sync"
	"time"
)

// Property describes one check: how plans are generated, executed and judged.
type Property struct {
	ID          string
	Level       string // exploration | fault_enumeration
	Rule        string
	Assumptions []string
	Components  map[string]string // component -> "real" | "stub: …" | "model: …"
	// Selftest validates reference models against published fixtures; an error is
	// harness trouble (exit 2), never a violation.
	Selftest func() error
	// Init runs once per process before any Exec (installs the entropy device).
	Init func()
	// Directed returns deterministic plans that occupy run ids 0..k-1.
	Directed func(tier string) []any
	// Gen is a pure function of the PRNG: the plan of one run.
	Gen func(r *PRNG, tier string) any
	// Exec executes a plan deterministically, recording into run.
	Exec func(plan []byte, run *Run)
	// Runs is the number of runs per tier; WallCap stops a batch early (recorded).
	// RunsFn, when set, is evaluated in the parent only (it may be expensive).
	RunsFn  func(tier string) int
	Runs    map[string]int
	WallCap map[string]time.Duration
	// Isolate: a violation may poison the process; stop the worker after it.
	Isolate bool
	// CallTimeout is the per-run watchdog.
	CallTimeout time.Duration
	// HangIsViolation: the property itself forbids non-termination (C10). Everywhere
	// else a run that exceeds the watchdog is harness trouble (exit 2), never a violation:
	// a loaded machine must not be able to raise an alarm.
	HangIsViolation bool
	// ExtraEvidence lets a property add keys to coverage.
	ExtraEvidence func(tier string) map[string]any
	// Workers overrides the number of worker processes (0 = NumCPU).
	Workers int
	// ChildEnv is added to the environment of every child process.
	ChildEnv []string
	// ChildPerRun: every run executes in its own process (used with -race binaries:
	// a data-race report ends the process).
	ChildPerRun bool
	// ProbeNames lists the rare-condition probes the workload is meant to reach,
	// so that one stuck at zero is visible.
	ProbeNames []string
}

// OutDir is where evidence and replay files are written (VERIF_OUT_DIR, default VerifDir()).
func OutDir() string {
	if d := os.Getenv("VERIF_OUT_DIR"); d != "" {
		return d
	}
	return VerifDir()
}

func VerifDir() string {
	if d := os.Getenv("VERIF_DIR"); d != "" {
		return d
	}
	return "/verif"
}

type workerSummary struct {
	Worker    int               `json:"worker"`
	Runs      int               `json:"runs"`
	Invalid   int               `json:"invalid"`
	Events    int               `json:"events"`
	Ticks     int               `json:"ticks"`
	Faults    map[string]int    `json:"faults"`
	Probes    map[string]int    `json:"probes"`
	Traces    []uint64          `json:"traces"`
	AllTraces int               `json:"all_traces"`
	Digests   map[string]string `json:"digests"` // run id -> digest (sampled ids only)
	Viol      []violRecord      `json:"viol"`
	Samples   []json.RawMessage `json:"samples"`
	Truncated bool              `json:"truncated"`
	NextID    int               `json:"next_id"` // first id not executed (Isolate / hang restart)
	Hang      bool              `json:"hang"`
	HangPlan  json.RawMessage   `json:"hang_plan,omitempty"`
	WallS     float64           `json:"wall_s"`
}

type violRecord struct {
	Run  int             `json:"run"`
	V    Violation       `json:"v"`
	Plan json.RawMessage `json:"plan"`
	// ProcStart is the first run id the worker process that found this had executed: the
	// runs ProcStart, ProcStart+W, ..., Run are the process history of the violation
	ProcStart int `json:"proc_start"`
}

type execResult struct {
	Faults     map[string]int `json:"faults,omitempty"`
	Probes     map[string]int `json:"probes,omitempty"`
	NonTrivial bool           `json:"nontrivial,omitempty"`
	Invalid    bool           `json:"invalid"`
	Why        string         `json:"why,omitempty"`
	Viol       []Violation    `json:"viol"`
	Digest     string         `json:"digest"`
	Events     int            `json:"events"`
	Trace      string         `json:"trace,omitempty"`
	Lines      []string       `json:"lines,omitempty"`
}

type replayFile struct {
	Property  string          `json:"property"`
	Seed      uint64          `json:"seed"`
	Run       int             `json:"run"`
	Violation Violation       `json:"violation"`
	Digest    string          `json:"expected_digest"`
	Shrunk    bool            `json:"shrunk"`
	ShrinkLog string          `json:"shrink_log,omitempty"`
	Plan      json.RawMessage `json:"plan"`
	// History: plans of earlier, independent sessions that have to run in the same process
	// before Plan for the violation to appear (library state that leaks between sessions)
	History []json.RawMessage `json:"history,omitempty"`
}

type knownFinding struct {
	Kind     string `json:"kind"` // "known" | "fixed"
	Property string `json:"property"`
	Key      string `json:"key"`
	What     string `json:"what"`
	Replay   string `json:"replay,omitempty"` // path relative to /verif
	Commit   string `json:"commit,omitempty"`
}

func loadKnown(prop string) []knownFinding {
	f, err := os.Open(filepath.Join(VerifDir(), "known_findings.txt"))
	if err != nil {
		return nil
	}
	defer f.Close()
	var out []knownFinding
	sc := bufio.NewScanner(f)
	sc.Buffer(make([]byte, 1<<20), 1<<24)
	for sc.Scan() {
		line := strings.TrimSpace(sc.Text())
		// lines are either "fixed: property=<id> <commit> <what failed>" (informational,
		// suppresses nothing) or "known: {json}"
		if !strings.HasPrefix(line, "known:") {
			continue
		}
		line = strings.TrimSpace(strings.TrimPrefix(line, "known:"))
		var k knownFinding
		if json.Unmarshal([]byte(line), &k) == nil && k.Property == prop {
			out = append(out, k)
		}
	}
	return out
}

func seedFromEnv() uint64 {
	s := os.Getenv("VERIF_SEED")
	if s == "" {
		return 1
	}
	v, err := strconv.ParseUint(s, 10, 64)
	if err != nil {
		v2, err2 := strconv.ParseInt(s, 10, 64)
		if err2 != nil {
			return 1
		}
		return uint64(v2)
	}
	return v
}

// planFor returns the JSON plan of run id.
func (p *Property) planFor(seed uint64, tier string, id int, directed []any) []byte {
	var plan any
	if id < len(directed) {
		plan = directed[id]
	} else {
		plan = p.Gen(NewPRNG(SubSeed(seed, p.ID, uint64(id))), tier)
	}
	b, err := json.Marshal(plan)
	if err != nil {
		fmt.Fprintf(os.Stderr, "harness: cannot marshal plan: %v\n", err)
		os.Exit(2)
	}
	return b
}

// execPlan runs one plan in this process. A panic escaping Exec is reported as a
// violation candidate (class panic:*, component "uncaught"): library panics are
// never acceptable on the paths the workloads drive; it has to reproduce on
// replay like everything else.
func (p *Property) execPlan(plan []byte, verbose bool) *Run {
	run := NewRun(p.ID)
	run.Verbose = verbose
	pan, val, stack := Try(func() { p.Exec(plan, run) })
	if pan {
		if strings.HasPrefix(val, "HARNESS:") {
			fmt.Fprintf(os.Stderr, "harness failure: %s\n", val)
			os.Exit(2)
		}
		run.Violate("uncaught", PanicClass(val), "panic escaped the run: %s at %s", val, stack)
	}
	return run
}

// Main is the entry point of every property binary.
func Main(p *Property) {
	if p.CallTimeout == 0 {
		p.CallTimeout = 5 * time.Minute
	}
	if len(os.Args) < 2 {
		fmt.Fprintf(os.Stderr, "usage: %s quick|thorough|replay <file>|selftest\n", os.Args[0])
		os.Exit(2)
	}
	switch os.Args[1] {
	case "quick", "thorough":
		os.Exit(p.check(os.Args[1]))
	case "worker":
		p.worker()
	case "exec":
		p.execChild()
	case "replay":
		if len(os.Args) < 3 {
			os.Exit(2)
		}
		os.Exit(p.replay(os.Args[2]))
	case "selftest":
		if p.Selftest != nil {
			if err := p.Selftest(); err != nil {
				fmt.Println("selftest failed:", err)
				os.Exit(2)
			}
		}
		fmt.Println("selftest ok")
	case "plan":
		// plan <tier> <id>: print the plan of one run
		id, _ := strconv.Atoi(os.Args[3])
		var directed []any
		if p.Directed != nil {
			directed = p.Directed(os.Args[2])
		}
		os.Stdout.Write(p.planFor(seedFromEnv(), os.Args[2], id, directed))
		fmt.Println()
	case "digests":
		// digests <tier> <n>: print the digest of the first n runs (determinism proof)
		p.digests()
	default:
		os.Exit(2)
	}
}

func (p *Property) digests() {
	tier := os.Args[2]
	n, _ := strconv.Atoi(os.Args[3])
	from := 0
	if len(os.Args) > 4 { // digests <tier> <from> <to>
		from = n
		n, _ = strconv.Atoi(os.Args[4])
	}
	seed := seedFromEnv()
	if p.Init != nil {
		p.Init()
	}
	var directed []any
	if p.Directed != nil {
		directed = p.Directed(tier)
	}
	for id := from; id < n; id++ {
		plan := p.planFor(seed, tier, id, directed)
		run := p.execPlan(plan, false)
		fmt.Printf("%d %s %d\n", id, run.Digest(), len(run.Viol))
		if p.Isolate && len(run.Viol) > 0 {
			// keep going: digests mode is only used on trees without violations
			continue
		}
	}
}

// worker: args: worker <tier> <seed> <w> <W> <start> <total> <wallcap_s> <sampleMod>
func (p *Property) worker() {
	a := os.Args[2:]
	tier := a[0]
	seed, _ := strconv.ParseUint(a[1], 10, 64)
	w, _ := strconv.Atoi(a[2])
	W, _ := strconv.Atoi(a[3])
	start, _ := strconv.Atoi(a[4])
	total, _ := strconv.Atoi(a[5])
	capS, _ := strconv.ParseFloat(a[6], 64)
	sampleMod, _ := strconv.Atoi(a[7])
	t0 := time.Now()
	if p.Init != nil {
		p.Init()
	}
	var directed []any
	if p.Directed != nil {
		directed = p.Directed(tier)
	}
	sum := &workerSummary{Worker: w, Faults: map[string]int{}, Probes: map[string]int{}, Digests: map[string]string{}, NextID: -1}
	traces := map[uint64]bool{}
	all := map[uint64]bool{}
	out := bufio.NewWriter(os.Stdout)
	emit := func() {
		for t := range traces {
			sum.Traces = append(sum.Traces, t)
		}
		sort.Slice(sum.Traces, func(i, j int) bool { return sum.Traces[i] < sum.Traces[j] })
		sum.AllTraces = len(all)
		sum.WallS = time.Since(t0).Seconds()
		b, _ := json.Marshal(sum)
		out.Write(b)
		out.WriteByte('\n')
		out.Flush()
	}
	var mu sync.Mutex
	var curPlan []byte
	curID := -1
	var curStart time.Time
	// watchdog
	go func() {
		for {
			time.Sleep(500 * time.Millisecond)
			mu.Lock()
			if curID >= 0 && time.Since(curStart) > p.CallTimeout {
				sum.Hang = true
				sum.HangPlan = append([]byte(nil), curPlan...)
				sum.NextID = curID + W
				emit()
				os.Exit(3)
			}
			mu.Unlock()
		}
	}()
	// fd 3, if the parent passed one: the id of the run in progress, so that a fatal crash of
	// this process (a signal inside the library: not recoverable) can be attributed to a plan
	var mark *os.File
	if f := os.NewFile(3, "mark"); f != nil {
		if _, err := f.Stat(); err == nil {
			mark = f
		}
	}
	for id := start; id < total; id += W {
		if time.Since(t0).Seconds() > capS {
			sum.Truncated = true
			sum.NextID = id
			break
		}
		if mark != nil {
			mark.WriteAt([]byte(fmt.Sprintf("%019d\n", id)), 0)
		}
		plan := p.planFor(seed, tier, id, directed)
		mu.Lock()
		curPlan, curID, curStart = plan, id, time.Now()
		mu.Unlock()
		var run *Run
		if p.ChildPerRun {
			run = NewRun(p.ID)
			res, err := p.execInChild(plan, false)
			if err != nil {
				fmt.Fprintf(os.Stderr, "harness: child run failed: %v\n", err)
				os.Exit(2)
			}
			run.Invalid, run.InvalidWhy, run.Viol, run.Events = res.Invalid, res.Why, res.Viol, res.Events
			run.Faults, run.Probes = res.Faults, res.Probes
			if run.Faults == nil {
				run.Faults = map[string]int{}
			}
			if run.Probes == nil {
				run.Probes = map[string]int{}
			}
			run.trace = strings.Fields(res.Trace)
			run.NonTrivial = res.NonTrivial
			run.fixedDigest = res.Digest
			if run.fixedDigest == "" {
				run.fixedDigest = "process-died"
			}
		} else {
			run = p.execPlan(plan, false)
		}
		mu.Lock()
		curID = -1
		mu.Unlock()
		sum.Runs++
		if run.Invalid {
			sum.Invalid++
			// a generated (not shrunk) plan must be valid: harness trouble
			fmt.Fprintf(os.Stderr, "harness: generated plan invalid (%s): %s\n", run.InvalidWhy, truncate(string(plan), 400))
			os.Exit(2)
		}
		sum.Events += run.Events
		sum.Ticks += run.Ticks
		for k, v := range run.Faults {
			sum.Faults[k] += v
		}
		for k, v := range run.Probes {
			sum.Probes[k] += v
		}
		th := run.TraceHash()
		all[th] = true
		if run.NonTrivial {
			traces[th] = true
		}
		if sampleMod > 0 && id%sampleMod == 0 {
			sum.Digests[strconv.Itoa(id)] = run.Digest()
		}
		if len(sum.Samples) < 2 && (run.NonTrivial || id >= total-W) && len(plan) < 6000 {
			sum.Samples = append(sum.Samples, json.RawMessage(plan))
		}
		if len(run.Viol) > 0 {
			for _, v := range run.Viol {
				if len(sum.Viol) < 400 {
					vp := plan
					if rp, ok := run.Reduced[v.Key()]; ok {
						if b, err := json.Marshal(rp); err == nil {
							vp = b
						}
					}
					sum.Viol = append(sum.Viol, violRecord{id, v, json.RawMessage(vp), start})
				}
			}
			if p.Isolate {
				sum.NextID = id + W
				break
			}
		}
	}
	emit()
}

// histJSON renders a process history followed by the judged plan as one JSON array.
func histJSON(history []json.RawMessage, last json.RawMessage) []byte {
	all := append(append([]json.RawMessage{}, history...), last)
	b, _ := json.Marshal(all)
	return b
}

// historyOf regenerates the plans a worker process had executed before the run of v.
func (p *Property) historyOf(v violRecord, W int, seed uint64, tier string, directed []any) []json.RawMessage {
	if p.ChildPerRun || v.ProcStart < 0 || v.Run < 0 || W < 1 {
		return nil
	}
	var out []json.RawMessage
	for id := v.ProcStart; id < v.Run; id += W {
		out = append(out, json.RawMessage(p.planFor(seed, tier, id, directed)))
	}
	if len(out) > 4000 {
		out = out[len(out)-4000:]
	}
	return out
}

// shrinkHistory: delta debugging over the earlier sessions (the judged plan stays).
func (p *Property) shrinkHistory(history []json.RawMessage, last json.RawMessage, key string) []json.RawMessage {
	holds := func(h []json.RawMessage) bool {
		res, err := p.execInChild(histJSON(h, last), false)
		if err != nil {
			return false
		}
		_, ok := hasKey(res.Viol, key)
		return ok
	}
	cur := history
	budget := 60
	for chunk := (len(cur) + 1) / 2; chunk >= 1 && budget > 0; {
		removed := false
		for i := 0; i+chunk <= len(cur) && budget > 0; {
			cand := append(append([]json.RawMessage{}, cur[:i]...), cur[i+chunk:]...)
			budget--
			if holds(cand) {
				cur = cand
				removed = true
			} else {
				i += chunk
			}
		}
		if chunk == 1 && !removed {
			break
		}
		if !removed || chunk > len(cur) {
			chunk /= 2
		}
		if chunk > len(cur) && len(cur) > 0 {
			chunk = len(cur)
		}
	}
	return cur
}

func truncate(s string, n int) string {
	if len(s) > n {
		return s[:n] + "…"
	}
	return s
}

// execChild: reads a plan from stdin, executes, prints execResult.
func (p *Property) execChild() {
	if p.Init != nil {
		p.Init()
	}
	plan, _ := readAll(os.Stdin)
	verbose := len(os.Args) > 2 && os.Args[2] == "-v"
	done := make(chan *Run, 1)
	go func() {
		// a JSON array is a process history: earlier sessions first, the last one is judged
		if t := bytes.TrimSpace(plan); len(t) > 0 && t[0] == '[' {
			var hist []json.RawMessage
			if json.Unmarshal(t, &hist) == nil && len(hist) > 0 {
				for _, h := range hist[:len(hist)-1] {
					p.execPlan(h, false)
				}
				done <- p.execPlan(hist[len(hist)-1], verbose)
				return
			}
		}
		done <- p.execPlan(plan, verbose)
	}()
	var run *Run
	select {
	case run = <-done:
	case <-time.After(p.CallTimeout):
		run = NewRun(p.ID)
		run.Violate("watchdog", "hang", "run did not finish within %v", p.CallTimeout)
	}
	res := execResult{Invalid: run.Invalid, Why: run.InvalidWhy, Viol: run.Viol, Digest: run.Digest(), Events: run.Events, Trace: run.TraceString(), Lines: run.Lines,
		Faults: run.Faults, Probes: run.Probes, NonTrivial: run.NonTrivial}
	b, _ := json.Marshal(res)
	os.Stdout.Write(b)
	os.Stdout.Write([]byte("\n"))
}

func readAll(f *os.File) ([]byte, error) {
	var buf bytes.Buffer
	_, err := buf.ReadFrom(f)
	return buf.Bytes(), err
}

// execInChild executes a plan in a fresh process.
func (p *Property) execInChild(plan []byte, verbose bool) (*execResult, error) {
	args := []string{"exec"}
	if verbose {
		args = append(args, "-v")
	}
	cmd := exec.Command(os.Args[0], args...)
	cmd.Env = append(os.Environ(), p.ChildEnv...)
	cmd.Stdin = bytes.NewReader(plan)
	var so, se bytes.Buffer
	cmd.Stdout = &so
	cmd.Stderr = &se
	err := cmd.Run()
	var res execResult
	line := lastJSONLine(so.Bytes())
	if line == nil || json.Unmarshal(line, &res) != nil {
		if err != nil {
			// the process died (fatal error, race detector exit, os.Exit in library…)
			comp, msg := "process", truncate(se.String(), 500)
			if strings.Contains(se.String(), "WARNING: DATA RACE") {
				comp, msg = raceSummary(se.String())
			}
			return &execResult{Viol: []Violation{{p.ID, comp, classifyDeath(se.String(), err), msg}}, NonTrivial: true}, nil
		}
		return nil, fmt.Errorf("no result from child: %s", truncate(se.String(), 300))
	}
	return &res, nil
}

// raceSummary extracts the first two circl frames of a ThreadSanitizer report:
// the component is the function of the first access that lies in circl.
func raceSummary(report string) (component, msg string) {
	var frames []string
	lines := strings.Split(report, "\n")
	for i, l := range lines {
		t := strings.TrimSpace(l)
		if strings.HasPrefix(t, "github.com/cloudflare/circl/") && !strings.Contains(t, "verifsimrt") && i+1 < len(lines) {
			fn := strings.TrimSuffix(t, "()")
			fn = strings.TrimPrefix(fn, "github.com/cloudflare/circl/")
			if len(frames) == 0 || frames[len(frames)-1] != fn {
				frames = append(frames, fn)
			}
			if len(frames) >= 4 {
				break
			}
		}
	}
	if len(frames) == 0 {
		return "process", truncate(report, 500)
	}
	return "race:" + frames[0], "ThreadSanitizer: conflicting unsynchronised accesses; circl frames: " + strings.Join(frames, " | ")
}

func classifyDeath(stderr string, err error) string {
	switch {
	case strings.Contains(stderr, "WARNING: DATA RACE"):
		return "data-race"
	case strings.Contains(stderr, "fatal error: all goroutines are asleep"):
		return "deadlock"
	case strings.Contains(stderr, "fatal error"):
		return "fatal-error"
	case strings.Contains(stderr, "harness"):
		return "harness"
	}
	return "process-died"
}

func lastJSONLine(b []byte) []byte {
	lines := bytes.Split(bytes.TrimSpace(b), []byte("\n"))
	for i := len(lines) - 1; i >= 0; i-- {
		l := bytes.TrimSpace(lines[i])
		if len(l) > 0 && l[0] == '{' {
			return l
		}
	}
	return nil
}

func hasKey(vs []Violation, key string) (Violation, bool) {
	for _, v := range vs {
		if v.Key() == key {
			return v, true
		}
	}
	return Violation{}, false
}

func (p *Property) replay(path string) int {
	b, err := os.ReadFile(path)
	if err != nil {
		fmt.Println("cannot read replay file:", err)
		return 2
	}
	var rf replayFile
	if err := json.Unmarshal(b, &rf); err != nil {
		fmt.Println("bad replay file:", err)
		return 2
	}
	toRun := []byte(rf.Plan)
	if len(rf.History) > 0 {
		fmt.Printf("replaying %d earlier session(s) in the same process first\n", len(rf.History))
		toRun = histJSON(rf.History, rf.Plan)
	}
	res, err := p.execInChild(toRun, true)
	if err != nil {
		fmt.Println("replay failed to execute:", err)
		return 2
	}
	for _, l := range res.Lines {
		fmt.Println("  event", l)
	}
	fmt.Printf("digest=%s expected=%s\n", res.Digest, rf.Digest)
	if v, ok := hasKey(res.Viol, rf.Violation.Key()); ok {
		fmt.Printf("reproduced: %s — %s\n", v.Key(), v.Message)
		for _, k := range loadKnown(p.ID) {
			if k.Kind == "known" && k.Key == v.Key() {
				fmt.Printf("KNOWN-FINDING: property=%s %s\n", p.ID, k.What)
				return 0
			}
		}
		fmt.Printf("VIOLATION property=%s replay=%s\n", p.ID, path)
		return 1
	}
	if !p.HangIsViolation {
		kept := res.Viol[:0]
		hung := false
		for _, v := range res.Viol {
			if v.Component == "watchdog" {
				hung = true
				continue
			}
			kept = append(kept, v)
		}
		res.Viol = kept
		if hung && len(kept) == 0 {
			fmt.Printf("replay exceeded the per-run watchdog of %v (harness trouble, not a violation)\n", p.CallTimeout)
			return 2
		}
	}
	if len(res.Viol) > 0 {
		fmt.Printf("different violation(s): %v\n", res.Viol)
		fmt.Printf("VIOLATION property=%s replay=%s\n", p.ID, path)
		return 1
	}
	fmt.Println("not reproduced: the property holds on this plan")
	return 0
}

func (p *Property) check(tier string) int {
	t0 := time.Now()
	seed := seedFromEnv()
	fmt.Printf("[%s] tier=%s seed=%d\n", p.ID, tier, seed)
	if p.Selftest != nil {
		if err := p.Selftest(); err != nil {
			fmt.Printf("[%s] reference-model selftest failed (harness trouble, not a violation): %v\n", p.ID, err)
			return 2
		}
	}
	os.MkdirAll(filepath.Join(OutDir(), "evidence"), 0o755)
	os.MkdirAll(filepath.Join(OutDir(), "replays"), 0o755)

	known := loadKnown(p.ID)
	knownKeys := map[string]knownFinding{}
	knownPrinted := map[string]bool{}
	for _, k := range known {
		if k.Kind == "known" {
			knownKeys[k.Key] = k
		}
	}
	// Directed replays of listed known findings: printed if (and only if) still present.
	for _, k := range known {
		if k.Kind != "known" || k.Replay == "" {
			continue
		}
		b, err := os.ReadFile(filepath.Join(VerifDir(), k.Replay))
		if err != nil {
			fmt.Printf("[%s] known-finding replay %s unreadable: %v\n", p.ID, k.Replay, err)
			return 2
		}
		var rf replayFile
		if json.Unmarshal(b, &rf) != nil {
			return 2
		}
		res, err := p.execInChild(rf.Plan, false)
		if err != nil {
			fmt.Printf("[%s] harness: %v\n", p.ID, err)
			return 2
		}
		if _, ok := hasKey(res.Viol, k.Key); ok && !knownPrinted[k.Key] {
			fmt.Printf("KNOWN-FINDING: property=%s %s\n", p.ID, k.What)
			knownPrinted[k.Key] = true
		}
	}

	total := p.Runs[tier]
	if p.RunsFn != nil {
		total = p.RunsFn(tier)
	}
	if v := os.Getenv("VERIF_RUNS"); v != "" {
		total, _ = strconv.Atoi(v)
	}
	wallCap := p.WallCap[tier]
	if wallCap == 0 {
		wallCap = 10 * time.Minute
	}
	W := p.Workers
	if W == 0 {
		W = runtime.NumCPU()
	}
	if v := os.Getenv("VERIF_WORKERS"); v != "" {
		W, _ = strconv.Atoi(v)
	}
	if W > total {
		W = total
	}
	if W < 1 {
		W = 1
	}
	const sampleMod = 20

	type job struct{ w, start int }
	sums := []*workerSummary{}
	var smu sync.Mutex
	var wg sync.WaitGroup
	harnessTrouble := ""
	runWorker := func(j job) {
		defer wg.Done()
		start := j.start
		for restarts := 0; restarts < 200; restarts++ {
			left := wallCap.Seconds() - time.Since(t0).Seconds()
			if left < 1 {
				left = 1
			}
			cmd := exec.Command(os.Args[0], "worker", tier, strconv.FormatUint(seed, 10), strconv.Itoa(j.w), strconv.Itoa(W),
				strconv.Itoa(start), strconv.Itoa(total), fmt.Sprintf("%.1f", left), strconv.Itoa(sampleMod))
			cmd.Env = append(os.Environ(), p.ChildEnv...)
			var so, se bytes.Buffer
			cmd.Stdout = &so
			cmd.Stderr = &se
			mf, _ := os.CreateTemp("", "circlsim-mark")
			if mf != nil {
				cmd.ExtraFiles = []*os.File{mf}
			}
			err := cmd.Run()
			crashedAt := -1
			if mf != nil {
				buf := make([]byte, 19)
				if n, _ := mf.ReadAt(buf, 0); n == 19 {
					if v, e := strconv.Atoi(strings.TrimLeft(string(buf), "0")); e == nil {
						crashedAt = v
					} else if string(buf) == strings.Repeat("0", 19) {
						crashedAt = 0
					}
				}
				mf.Close()
				os.Remove(mf.Name())
			}
			line := lastJSONLine(so.Bytes())
			var s workerSummary
			if line == nil || json.Unmarshal(line, &s) != nil {
				// The worker died. If the run it was executing kills a fresh process too, that
				// is a fatal crash of the library on that plan (a violation with a replay file);
				// otherwise it stays harness trouble.
				if crashedAt >= 0 && !p.ChildPerRun {
					var directed []any
					if p.Directed != nil {
						directed = p.Directed(tier)
					}
					plan := p.planFor(seed, tier, crashedAt, directed)
					if res, cerr := p.execInChild(plan, false); cerr == nil && res.Digest == "" && len(res.Viol) > 0 {
						cs := &workerSummary{Worker: j.w, Faults: map[string]int{}, Probes: map[string]int{}, Digests: map[string]string{}, NextID: crashedAt + W, Runs: 1}
						cs.Viol = append(cs.Viol, violRecord{crashedAt, res.Viol[0], json.RawMessage(plan), crashedAt})
						smu.Lock()
						sums = append(sums, cs)
						smu.Unlock()
						if cs.NextID >= total {
							return
						}
						start = cs.NextID
						continue
					}
				}
				smu.Lock()
				harnessTrouble = fmt.Sprintf("worker %d died without summary: %v: %s", j.w, err, truncate(se.String(), 1500))
				smu.Unlock()
				return
			}
			smu.Lock()
			sums = append(sums, &s)
			smu.Unlock()
			if s.Truncated || s.NextID < 0 || s.NextID >= total {
				return
			}
			start = s.NextID // Isolate / hang: continue in a fresh process
		}
	}
	for w := 0; w < W; w++ {
		wg.Add(1)
		go runWorker(job{w, w})
	}
	wg.Wait()
	if harnessTrouble != "" {
		fmt.Printf("[%s] harness trouble: %s\n", p.ID, harnessTrouble)
		return 2
	}

	// merge
	agg := &workerSummary{Faults: map[string]int{}, Probes: map[string]int{}, Digests: map[string]string{}}
	traces := map[uint64]bool{}
	for _, n := range p.ProbeNames {
		agg.Probes[n] = 0
	}
	truncated := false
	var hangs []json.RawMessage
	for _, s := range sums {
		agg.Runs += s.Runs
		agg.Events += s.Events
		agg.Ticks += s.Ticks
		for k, v := range s.Faults {
			agg.Faults[k] += v
		}
		for k, v := range s.Probes {
			agg.Probes[k] += v
		}
		for _, t := range s.Traces {
			traces[t] = true
		}
		for k, v := range s.Digests {
			agg.Digests[k] = v
		}
		agg.Viol = append(agg.Viol, s.Viol...)
		if len(agg.Samples) < 3 {
			agg.Samples = append(agg.Samples, s.Samples...)
		}
		truncated = truncated || s.Truncated
		if s.Hang {
			hangs = append(hangs, s.HangPlan)
		}
	}
	if !p.HangIsViolation {
		kept := agg.Viol[:0]
		for _, v := range agg.Viol {
			if v.V.Component == "watchdog" {
				hangs = append(hangs, v.Plan)
				continue
			}
			kept = append(kept, v)
		}
		agg.Viol = kept
	}
	sort.Slice(agg.Viol, func(i, j int) bool { return agg.Viol[i].Run < agg.Viol[j].Run })

	// determinism spot check: re-execute sampled run ids in a second process
	detChecked, detMismatch := 0, 0
	if len(agg.Digests) > 0 && os.Getenv("VERIF_NO_DETCHECK") == "" {
		ids := make([]int, 0, len(agg.Digests))
		for k := range agg.Digests {
			id, _ := strconv.Atoi(k)
			ids = append(ids, id)
		}
		sort.Ints(ids)
		if len(ids) > 64 {
			step := len(ids) / 64
			var sel []int
			for i := 0; i < len(ids); i += step {
				sel = append(sel, ids[i])
			}
			ids = sel
		}
		var directed []any
		if p.Directed != nil {
			directed = p.Directed(tier)
		}
		type dres struct {
			id   int
			d    string
			ok   bool
			viol []Violation
			plan []byte
		}
		ch := make(chan dres, len(ids))
		sem := make(chan struct{}, W)
		for _, id := range ids {
			sem <- struct{}{}
			go func(id int) {
				defer func() { <-sem }()
				plan := p.planFor(seed, tier, id, directed)
				res, err := p.execInChild(plan, false)
				if err != nil {
					ch <- dres{id: id}
					return
				}
				if res.Digest == "" {
					res.Digest = "process-died"
				}
				ch <- dres{id, res.Digest, true, res.Viol, plan}
			}(id)
		}
		for range ids {
			r := <-ch
			if !r.ok {
				continue
			}
			detChecked++
			if r.d != agg.Digests[strconv.Itoa(r.id)] {
				if len(r.viol) > 0 {
					// the run alone in a fresh process violates the property although it did not inside
					// its worker (state left by earlier runs hid it, e.g. a table that is only wrong while
					// cold): that is a violation found in a fresh process, not harness nondeterminism
					for _, v := range r.viol {
						if p.HangIsViolation || v.Component != "watchdog" {
							agg.Viol = append(agg.Viol, violRecord{r.id, v, json.RawMessage(r.plan), -1})
						}
					}
					continue
				}
				detMismatch++
				fmt.Printf("[%s] determinism mismatch on run %d: %s vs %s\n", p.ID, r.id, r.d, agg.Digests[strconv.Itoa(r.id)])
			}
		}
	}

	// violations: group by key
	exit := 0
	newViol := 0
	type group struct {
		first violRecord
		count int
	}
	groups := map[string]*group{}
	var order []string
	for _, v := range agg.Viol {
		k := v.V.Key()
		if g, ok := groups[k]; ok {
			g.count++
		} else {
			groups[k] = &group{v, 1}
			order = append(order, k)
		}
	}
	if len(hangs) > 0 && !p.HangIsViolation {
		fmt.Printf("[%s] harness trouble: %d run(s) exceeded the per-run watchdog of %v (machine load?); not a violation\n", p.ID, len(hangs), p.CallTimeout)
		if exit == 0 {
			exit = 2
		}
		hangs = nil
	}
	for _, hp := range hangs {
		k := p.ID + "|watchdog|hang"
		if _, ok := groups[k]; !ok {
			groups[k] = &group{violRecord{-1, Violation{p.ID, "watchdog", "hang", "a run exceeded the per-run watchdog"}, hp, -1}, 1}
			order = append(order, k)
		}
	}
	replayVerified := 0
	shrunkKeys := 0
	for _, k := range order {
		g := groups[k]
		if kf, ok := knownKeys[k]; ok {
			if !knownPrinted[k] {
				fmt.Printf("KNOWN-FINDING: property=%s %s\n", p.ID, kf.What)
				knownPrinted[k] = true
			}
			continue
		}
		// confirm in a fresh process (a violation must reproduce to be reported)
		res, err := p.execInChild(g.first.Plan, false)
		if err != nil {
			fmt.Printf("[%s] harness: %v\n", p.ID, err)
			return 2
		}
		var history []json.RawMessage
		if _, ok := hasKey(res.Viol, k); !ok {
			// not reproducible alone: replay the process history of the worker that found it
			// (the runs it had executed before, in order). If the violation then reappears, state
			// inside the library leaks from one independent session into the next.
			var directed []any
			if p.Directed != nil {
				directed = p.Directed(tier)
			}
			history = p.historyOf(g.first, W, seed, tier, directed)
			reproduced := false
			if len(history) > 0 {
				if hres, herr := p.execInChild(histJSON(history, g.first.Plan), false); herr == nil {
					_, reproduced = hasKey(hres.Viol, k)
				}
			}
			if !reproduced {
				fmt.Printf("[%s] violation %s (run %d) did not reproduce in a fresh process, nor after replaying the %d earlier runs of its worker: treated as harness nondeterminism\n", p.ID, k, g.first.Run, len(history))
				if exit == 0 {
					exit = 2
				}
				continue
			}
			history = p.shrinkHistory(history, g.first.Plan, k)
		}
		if history != nil {
			res, _ = p.execInChild(histJSON(history, g.first.Plan), false)
			v, _ := hasKey(res.Viol, k)
			res2, _ := p.execInChild(histJSON(history, g.first.Plan), false)
			if res2 != nil && res2.Digest == res.Digest {
				replayVerified++
			}
			v.Message += fmt.Sprintf(" [history-dependent: appears only after %d earlier independent session(s) in the same process, not in a fresh process — state leaks between sessions]", len(history))
			rf := replayFile{Property: p.ID, Seed: seed, Run: g.first.Run, Violation: v, Digest: res.Digest, Shrunk: true, ShrinkLog: "history reduced by delta debugging", Plan: g.first.Plan, History: history}
			name := fmt.Sprintf("%s-%d-%d-%s.json", p.ID, seed, g.first.Run, sanitize(v.Component+"-"+v.Class+"-history"))
			path := filepath.Join(OutDir(), "replays", name)
			b, _ := json.MarshalIndent(rf, "", " ")
			os.WriteFile(path, b, 0o644)
			fmt.Printf("[%s] %s — %s (seen in %d runs; first run %d)\n", p.ID, k, v.Message, g.count, g.first.Run)
			fmt.Printf("VIOLATION property=%s replay=%s\n", p.ID, path)
			newViol++
			exit = 1
			continue
		}
		plan := []byte(g.first.Plan)
		shrinkLog := ""
		shrunk := false
		if shrunkKeys < 6 && os.Getenv("VERIF_NO_SHRINK") == "" {
			plan, shrinkLog = p.shrink(plan, k)
			shrunk = true
			shrunkKeys++
		}
		res, _ = p.execInChild(plan, false)
		v, _ := hasKey(res.Viol, k)
		res2, _ := p.execInChild(plan, false)
		if res2 != nil && res2.Digest == res.Digest {
			replayVerified++
		}
		rf := replayFile{Property: p.ID, Seed: seed, Run: g.first.Run, Violation: v, Digest: res.Digest, Shrunk: shrunk, ShrinkLog: shrinkLog, Plan: plan}
		name := fmt.Sprintf("%s-%d-%d-%s.json", p.ID, seed, g.first.Run, sanitize(v.Component+"-"+v.Class))
		path := filepath.Join(OutDir(), "replays", name)
		b, _ := json.MarshalIndent(rf, "", " ")
		os.WriteFile(path, b, 0o644)
		fmt.Printf("[%s] %s — %s (seen in %d runs; first run %d)\n", p.ID, k, v.Message, g.count, g.first.Run)
		fmt.Printf("VIOLATION property=%s replay=%s\n", p.ID, path)
		newViol++
		exit = 1
	}
	if detMismatch > 0 && exit == 0 {
		fmt.Printf("[%s] nondeterministic execution detected: results not trusted\n", p.ID)
		exit = 2
	}

	// evidence
	wall := time.Since(t0).Seconds()
	zeroProbes := []string{}
	for _, k := range sortedKeys(agg.Probes) {
		if agg.Probes[k] == 0 {
			zeroProbes = append(zeroProbes, k)
		}
	}
	samples := []any{}
	for _, s := range agg.Samples {
		var x any
		if json.Unmarshal(s, &x) == nil {
			samples = append(samples, x)
		}
		if len(samples) >= 3 {
			break
		}
	}
	if len(samples) == 0 {
		samples = append(samples, "no sample captured")
	}
	cov := map[string]any{
		"evaluations":                agg.Runs,
		"distinct_nontrivial":        len(traces),
		"rule":                       p.Rule,
		"samples":                    samples,
		"exhaustive":                 false,
		"runs_per_hour":              int(float64(agg.Runs) / wall * 3600),
		"seeds_per_hour":             int(float64(agg.Runs) / wall * 3600),
		"events_simulated":           agg.Events,
		"logical_ticks_simulated":    agg.Ticks,
		"faults_fired":               agg.Faults,
		"probes":                     agg.Probes,
		"probes_at_zero":             zeroProbes,
		"components":                 p.Components,
		"workers":                    W,
		"planned_runs":               total,
		"truncated_by_wall_cap":      truncated,
		"determinism_rechecked_runs": detChecked,
		"determinism_mismatches":     detMismatch,
		"violation_keys_found":       len(order),
		"known_findings_printed":     len(knownPrinted),
		"replays_verified":           replayVerified,
		"simulated_time_note":        "circl has no clocks or timers; simulated time is the logical tick / event counter",
	}
	if p.ExtraEvidence != nil {
		for k, v := range p.ExtraEvidence(tier) {
			cov[k] = v
		}
	}
	ev := map[string]any{
		"property_id": p.ID,
		"tier":        tier,
		"seed":        int64(seed & 0x7fffffffffffffff),
		"level":       p.Level,
		"coverage":    cov,
		"assumptions": p.Assumptions,
		"wall_s":      wall,
		"violations":  newViol,
	}
	eb, _ := json.MarshalIndent(ev, "", " ")
	evName := p.ID
	if v := os.Getenv("VERIF_EVIDENCE_NAME"); v != "" {
		evName = v
	}
	if err := os.WriteFile(filepath.Join(OutDir(), "evidence", evName+".json"), eb, 0o644); err != nil {
		fmt.Printf("[%s] cannot write evidence: %v\n", p.ID, err)
		return 2
	}
	fmt.Printf("[%s] runs=%d distinct_nontrivial=%d events=%d faults=%v wall=%.1fs exit=%d\n", p.ID, agg.Runs, len(traces), agg.Events, agg.Faults, wall, exit)
	for _, z := range zeroProbes {
		fmt.Printf("[%s] warning: probe %q stayed at zero\n", p.ID, z)
	}
	return exit
}

func sanitize(s string) string {
	var sb strings.Builder
	for _, c := range s {
		if c >= 'a' && c <= 'z' || c >= 'A' && c <= 'Z' || c >= '0' && c <= '9' || c == '-' || c == '_' || c == '.' {
			sb.WriteRune(c)
		} else {
			sb.WriteByte('_')
		}
	}
	r := sb.String()
	if len(r) > 80 {
		r = r[:80]
	}
	return r
}
