// C11 — results depend only on explicit arguments: no aliasing, stale state or
// races. Orchestrator of the three engines built by prebuild.sh:
//
//	c11hist        histories with a value model (histsim)
//	c11sched       seeded schedules on instrumented sources, equivalence oracle
//	c11sched_race  the same schedules in a -race build, ThreadSanitizer oracle
//
// Their evidence is merged into evidence/C11.json.
package main

import (
	"encoding/json"
	"fmt"
	"os"
	"os/exec"
	"path/filepath"
	"time"
)

func outDir() string {
	if d := os.Getenv("VERIF_OUT_DIR"); d != "" {
		return d
	}
	return verifDir()
}

func verifDir() string {
	if d := os.Getenv("VERIF_DIR"); d != "" {
		return d
	}
	return "/verif"
}

type engine struct {
	bin, name string
	env       []string
}

func main() {
	if len(os.Args) < 2 {
		os.Exit(2)
	}
	scr := os.Getenv("VERIF_SCRATCH")
	engines := []engine{
		{filepath.Join(scr, "c11hist"), "C11-hist", nil},
		{filepath.Join(scr, "c11sched"), "C11-sched", nil},
		{filepath.Join(scr, "c11sched_race"), "C11-race", []string{"VERIF_RACE_BINARY=1"}},
	}
	mode := os.Args[1]
	switch mode {
	case "selftest":
		fmt.Println("selftest ok")
		return
	case "replay":
		// the replay file names the engine through the violation's component
		b, err := os.ReadFile(os.Args[2])
		if err != nil {
			fmt.Println(err)
			os.Exit(2)
		}
		var rf struct {
			Violation struct{ Component, Class string } `json:"violation"`
		}
		json.Unmarshal(b, &rf)
		e := engines[0]
		if len(rf.Violation.Component) >= 5 && rf.Violation.Component[:5] == "sched" {
			e = engines[1]
		}
		if rf.Violation.Class == "data-race" {
			e = engines[2]
		}
		cmd := exec.Command(e.bin, "replay", os.Args[2])
		cmd.Env = append(os.Environ(), e.env...)
		cmd.Stdout, cmd.Stderr = os.Stdout, os.Stderr
		if err := cmd.Run(); err != nil {
			if ee, ok := err.(*exec.ExitError); ok {
				os.Exit(ee.ExitCode())
			}
			os.Exit(2)
		}
		return
	case "quick", "thorough":
	default:
		os.Exit(2)
	}
	t0 := time.Now()
	exit := 0
	var parts []map[string]any
	for _, e := range engines {
		cmd := exec.Command(e.bin, mode)
		cmd.Env = append(append(os.Environ(), e.env...), "VERIF_EVIDENCE_NAME="+e.name)
		cmd.Stdout, cmd.Stderr = os.Stdout, os.Stderr
		err := cmd.Run()
		code := 0
		if err != nil {
			code = 2
			if ee, ok := err.(*exec.ExitError); ok {
				code = ee.ExitCode()
			}
		}
		// a confirmed violation (exit 1, VIOLATION line printed by the engine) is the stronger
		// statement: harness trouble in another engine does not turn it into "trouble"
		if code == 1 {
			exit = 1
		}
		if code >= 2 && exit == 0 {
			exit = 2
		}
		b, err := os.ReadFile(filepath.Join(outDir(), "evidence", e.name+".json"))
		if err != nil {
			fmt.Printf("[C11] engine %s wrote no evidence\n", e.name)
			exit = 2
			continue
		}
		var ev map[string]any
		if json.Unmarshal(b, &ev) != nil {
			exit = 2
			continue
		}
		parts = append(parts, ev)
		os.Remove(filepath.Join(outDir(), "evidence", e.name+".json"))
	}
	if len(parts) != len(engines) {
		os.Exit(2)
	}
	// merge
	sumInt := func(key string) int {
		n := 0
		for _, p := range parts {
			if c, ok := p["coverage"].(map[string]any); ok {
				if v, ok := c[key].(float64); ok {
					n += int(v)
				}
			}
		}
		return n
	}
	var samples []any
	engCov := map[string]any{}
	rule := ""
	viol := 0
	for i, p := range parts {
		c := p["coverage"].(map[string]any)
		if s, ok := c["samples"].([]any); ok && len(s) > 0 {
			samples = append(samples, s[0])
		}
		engCov[engines[i].name] = c
		rule += fmt.Sprintf("[%s] %v  ", engines[i].name, c["rule"])
		if v, ok := p["violations"].(float64); ok {
			viol += int(v)
		}
	}
	var st any
	if b, err := os.ReadFile(filepath.Join(scr, "instr", "yieldgen-stats.json")); err == nil {
		json.Unmarshal(b, &st)
	}
	cov := map[string]any{
		"evaluations":         sumInt("evaluations"),
		"distinct_nontrivial": sumInt("distinct_nontrivial"),
		"rule":                rule,
		"samples":             samples,
		"exhaustive":          false,
		"engines":             engCov,
		"instrumentation":     st,
		"runs_per_hour":       int(float64(sumInt("evaluations")) / time.Since(t0).Seconds() * 3600),
	}
	ev := map[string]any{"property_id": "C11", "tier": mode, "seed": parts[0]["seed"], "level": "exploration", "coverage": cov,
		"assumptions": []string{"see the per-engine assumptions under coverage.engines"}, "wall_s": time.Since(t0).Seconds(), "violations": viol}
	b, _ := json.MarshalIndent(ev, "", " ")
	if err := os.WriteFile(filepath.Join(outDir(), "evidence", "C11.json"), b, 0o644); err != nil {
		os.Exit(2)
	}
	fmt.Printf("[C11] engines=%d evaluations=%d wall=%.1fs exit=%d\n", len(parts), sumInt("evaluations"), time.Since(t0).Seconds(), exit)
	os.Exit(exit)
}
