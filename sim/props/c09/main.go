// C09 — decoders accept only canonical encodings of members of the intended
// group. codecsim with the canonical oracle: whatever survives a faulty medium
// and is accepted must re-serialise to exactly the received bytes and pass an
// independent membership test; everything the library serialises is accepted.
package main

import (
	"time"

	"circlsim/codec"
	"circlsim/core"
)

func canon(e *codec.Entry) bool { return e.Canon || e.Membership }

func main() {
	core.Main(&core.Property{
		ID:    "C09",
		Level: "fault_enumeration",
		Rule: "for every decoder with a canonical / membership oracle (coverage.entry_points): every single-bit flip of sampled valid encodings (k*G for structured and random k, identity), format-aware faults (coordinate + p, x = p-1/p/p+1, flag bits, infinity with payload, unused bits, ML-KEM coefficients q, q+1, 4095) and seeded random fault batches; " +
			"oracle: accepted => re-serialises to the received bytes and passes membership ((r-1)P+P=O for BLS12-381, crypto/elliptic on-curve for NIST curves, on-curve for Goldilocks/FourQ, N*S=O after curve4q cofactor clearing); non-trivial = a fault was applied; distinct = distinct (entry, fault-family) trace",
		Assumptions: []string{
			"BLS12-381 subgroup membership is tested with the library's own group law (C13 assumed), independently of isRTorsion",
			"ristretto255 and ML-KEM membership is canonical re-encoding only",
			"encodings are sampled; faults on them are enumerated (exhaustive=false)",
		},
		Components: map[string]string{
			"decoders and encoders of circl listed in coverage.entry_points": "real",
			"storage / transport medium":                                     "stub: fault-injecting medium",
			"membership oracle":                                              "model: independent subgroup / on-curve tests",
		},
		ProbeNames: []string{"accepted-after-fault:yes", "accepted-after-fault:no"},
		Directed:   func(tier string) []any { return codec.Directed(tier, canon, true) },
		Gen:        func(r *core.PRNG, tier string) any { return codec.Gen(r, tier, canon) },
		Exec:       func(plan []byte, run *core.Run) { codec.Exec(codec.Canonical, plan, run) },
		ExtraEvidence: func(tier string) map[string]any {
			var l []string
			for _, n := range codec.Names() {
				if canon(codec.Get(n)) {
					l = append(l, n)
				}
			}
			return map[string]any{"entry_points": l, "entry_point_count": len(l)}
		},
		RunsFn: func(tier string) int {
			n := len(codec.Directed(tier, canon, true))
			if tier == "thorough" {
				return n + 80000
			}
			return n + 3000
		},
		WallCap:     map[string]time.Duration{"quick": 120 * time.Second, "thorough": 12 * time.Minute},
		CallTimeout: 120 * time.Second,
	})
}
