// C10 — no byte string makes a parser, verifier, opener or decapsulator panic.
// codecsim: every decoding entry point in the registry receives valid encodings
// that crossed a faulty medium (torn, extended, bit-flipped, length fields
// rewritten, spliced). Fault enumeration in the directed part (all truncation
// lengths, all length-field rewrites, the size family, format-aware faults, all
// single-bit flips where affordable), seeded sampling on top.
package main

import (
	"os"
	"time"

	"circlsim/codec"
	"circlsim/core"
)

func main() {
	core.Main(&core.Property{
		ID:    "C10",
		Level: "fault_enumeration",
		Rule: "for every registered decoding entry point (see coverage.entry_points): directed enumeration over valid encodings of {every truncation length, nil, empty, sizes +-1/+-2/+-16 with random content, appended bytes, all-zero/all-0xFF, every 16/32-bit length-field rewrite at every offset with values 0,1,0xff..,len-dependent, format-aware faults, single-bit flips (all when affordable, evenly spaced windows otherwise)} " +
			"plus seeded batches of 8..48 random faults (incl. splices of two valid encodings); non-trivial = a fault was applied; distinct = distinct (entry, fault-family) trace",
		Assumptions: []string{
			"functions whose documentation says they panic on a wrong fixed length (Pack/Unpack/…To with array or exact-size slice arguments) are driven only through the error-returning scheme-level API",
			"entry points without a way to report failure (SetBytes of field elements that reduce, FromBytes of scalars) are outside the property",
			"the enumeration is over faults of sampled valid encodings, not over all byte strings (exhaustive=false)",
		},
		Components: map[string]string{
			"all decoding / verifying / decapsulating / opening entry points of circl listed in coverage.entry_points": "real",
			"storage / transport medium": "stub: fault-injecting medium (tear, extend, flip, length-field rewrite, splice)",
		},
		ProbeNames: []string{"accepted-after-fault:yes", "accepted-after-fault:no"},
		Directed:   func(tier string) []any { return codec.Directed(tier, nil, false) },
		Gen:        func(r *core.PRNG, tier string) any { return codec.Gen(r, tier, nil) },
		Exec:       func(plan []byte, run *core.Run) { codec.Exec(codec.NoPanic, plan, run) },
		ExtraEvidence: func(tier string) map[string]any {
			repo := os.Getenv("VERIF_REPO")
			if repo == "" {
				repo = "/repo"
			}
			all, un := codec.UncoveredCandidates(repo)
			if un == nil {
				un = []string{}
			}
			return map[string]any{"entry_points": codec.Names(), "entry_point_count": len(codec.Names()),
				"receiver_reuse_entries": len(codec.ReuseNames()),
				"scan_candidates":        len(all), "uncovered_candidates": un,
				"scan_rule": "go/ast scan of the repository's non-internal, non-test packages for exported functions / methods named Unmarshal*, SetBytes, FromBytes, Import, Unpack, Verify*, Decapsulate*, Open, Decrypt*, FromString, ExtractFromCiphertext, CouldDecrypt, Finalize, CombineSignShares, Recover that return an error or bool; uncovered = not claimed by any registry / protocol-check pattern"}
		},
		RunsFn: func(tier string) int {
			n := len(codec.Directed(tier, nil, false))
			if tier == "thorough" {
				return n + 150000
			}
			return n + 6000
		},
		WallCap:     map[string]time.Duration{"quick": 150 * time.Second, "thorough": 15 * time.Minute},
		CallTimeout: 120 * time.Second, HangIsViolation: true,
	})
}
