#!/bin/bash
# usage: tools/trymut.sh <patch.diff> <ID> [tier]  — apply a seeded change to /repo, run the check, undo.
P="$1"; ID="$2"; TIER="${3:-quick}"
cd /repo || exit 2
if [ -n "$(git status --porcelain --untracked-files=no)" ]; then echo "repo dirty"; exit 2; fi
git apply "$P" 2>/dev/null || git apply --3way "$P" || { echo "patch does not apply"; git reset -q --hard HEAD; exit 2; }
cd /verif && bin/check "$ID" "$TIER" > /tmp/trymut.$$.log 2>&1; rc=$?
git -C /repo reset -q --hard HEAD
grep -E "VIOLATION|KNOWN-FINDING|runs=" /tmp/trymut.$$.log | cut -c1-400 | head -8
echo "exit=$rc"; rm -f /tmp/trymut.$$.log
